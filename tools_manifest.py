#!/usr/bin/env python3
"""Regenerates MANIFEST.json from the table below (kept in one place so it stays valid)."""
import json, os
HERE = os.path.dirname(os.path.abspath(__file__))
CHECKS = json.load(open(os.path.join(HERE, "manifest_checks.json")))
props = [json.loads(l)["id"] for l in open(os.path.join(HERE, "properties.jsonl"))]
checks = []
for pid in props:
    c = CHECKS["checks"].get(pid)
    if not c:
        continue
    checks.append(dict(
        property_id=pid,
        quick_cmd="./check %s quick" % pid,
        thorough_cmd="./check %s thorough" % pid,
        evidence_file="/verif/evidence/%s.json" % pid,
        replay_cmd_template="./check --replay {path}",
        engine=c["engine"],
        level_claimed=dict(category=c["level"], text=c["text"], design_ref=c.get("design_ref", "DESIGN.md §4 " + pid)),
        level_note=c["note"],
        technique=c["technique"],
    ))
na = [dict(property_id=p, reason=CHECKS["not_applicable"].get(p, "static check not built yet; no claim is made")) for p in props if p not in CHECKS["checks"]]
m = dict(
    version=1,
    setup_cmd="cd /verif/driver && CARGO_NET_OFFLINE=true cargo +nightly build --release --offline && cd /verif && python3 engine/facts.py default && python3 engine/facts.py python && (./check C17 quick >/dev/null 2>&1 || true)",
    hooks=dict(guard="ivp_verif", enable="none needed: static analysis reads /repo's sources through rustc; no instrumentation is compiled in",
               baseline_off_cmd="cd /repo && cargo test --workspace --no-fail-fast --offline", source_commits=[], add_only=True),
    engines=CHECKS["engines"],
    checks=checks,
    notes=CHECKS["notes"],
    not_applicable=na,
)
json.dump(m, open(os.path.join(HERE, "MANIFEST.json"), "w"), indent=1)
print("checks", len(checks), "not_applicable", len(na))
