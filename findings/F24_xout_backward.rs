use ivp::dense::StepInterpolant;
use ivp::ivp::IVP;
use ivp::methods::{DOP853, DOPRI5, RADAU, RK23, RK4};
use ivp::solout::{ControlFlag, SolOut};

struct Decay;
impl IVP for Decay { fn ode(&self, _x: f64, y: &[f64], d: &mut [f64]) { d[0] = -y[0]; } }

/// asks for the point 0.07 further in the direction of integration; records whether the step that contains it got an interpolant
struct Ask { dir: f64, xo: f64, owed: usize, given: usize }
impl SolOut for Ask {
    fn solout(&mut self, xold: f64, x: &mut f64, _y: &mut [f64], interp: Option<&StepInterpolant<'_>>) -> ControlFlag {
        if xold == *x { self.xo = *x + 0.07 * self.dir; return ControlFlag::XOut(self.xo); }
        let contains = (self.xo - xold) * self.dir >= 0.0 && (*x - self.xo) * self.dir >= 0.0;
        if contains {
            self.owed += 1;
            if interp.is_some() { self.given += 1; }
            while (*x - self.xo) * self.dir >= 0.0 { self.xo += 0.07 * self.dir; }
        }
        ControlFlag::XOut(self.xo)
    }
}
#[test]
fn xout_both_directions() {
    for (a, b) in [(0.0, 1.0), (1.0, 0.0)] {
        let dir = if b > a { 1.0 } else { -1.0 };
        let mut s = Ask { dir, xo: 0.0, owed: 0, given: 0 };
        RK4::builder().dense_output(false).build().solve(&Decay, a, &[1.0], b, 0.1 * dir, Some(&mut s)).unwrap();
        println!("RK4 {a}->{b}: owed {} given {}", s.owed, s.given); assert_eq!(s.owed, s.given);
        let mut s = Ask { dir, xo: 0.0, owed: 0, given: 0 };
        RK23::builder().dense_output(false).build().solve(&Decay, a, &[1.0], b, 1e-6.into(), 1e-9.into(), Some(&mut s)).unwrap();
        println!("RK23 {a}->{b}: owed {} given {}", s.owed, s.given); assert_eq!(s.owed, s.given);
        let mut s = Ask { dir, xo: 0.0, owed: 0, given: 0 };
        DOPRI5::builder().dense_output(false).build().solve(&Decay, a, &[1.0], b, 1e-6.into(), 1e-9.into(), Some(&mut s)).unwrap();
        println!("DOPRI5 {a}->{b}: owed {} given {}", s.owed, s.given); assert_eq!(s.owed, s.given);
        let mut s = Ask { dir, xo: 0.0, owed: 0, given: 0 };
        DOP853::builder().dense_output(false).build().solve(&Decay, a, &[1.0], b, 1e-6.into(), 1e-9.into(), Some(&mut s)).unwrap();
        println!("DOP853 {a}->{b}: owed {} given {}", s.owed, s.given); assert_eq!(s.owed, s.given);
        let mut s = Ask { dir, xo: 0.0, owed: 0, given: 0 };
        RADAU::builder().dense_output(false).build().solve(&Decay, a, &[1.0], b, 1e-6.into(), 1e-9.into(), Some(&mut s)).unwrap();
        println!("RADAU {a}->{b}: owed {} given {}", s.owed, s.given); assert_eq!(s.owed, s.given);
    }
}
