use ivp::prelude::*;
struct Copies(usize);
impl IVP for Copies { fn ode(&self,_x:f64,y:&[f64],d:&mut [f64]){ for c in 0..self.0 { d[2*c]=y[2*c+1]; d[2*c+1]=-y[2*c]; } } }
fn main(){
    for m in [Method::DOPRI5, Method::BDF] {
        for c in [1usize,4,16] {
            let mut y0=vec![]; for _ in 0..c { y0.push(1.0); y0.push(0.0); }
            let sol = solve_ivp(&Copies(c),0.0,1.0,&y0,Options::builder().method(m.clone()).rtol(1e-6).atol(1e-9).build()).unwrap();
            println!("{:?} copies={} first step={:e} naccpt={}", m, c, sol.t[1]-sol.t[0], sol.naccpt);
        }
    }
}
