// F25: RK23 prepared the dense coefficients of a step only under `self.dense_output && solout.is_some()` but handed the callback
// an interpolant under `self.dense_output || <the step reaches the point requested with XOut>` (the other solvers use the same
// condition for both).  With the low-level RK23 and dense_output(false), a callback that requests output points through
// ControlFlag::XOut was given an interpolant over a never-written coefficient buffer: it reproduced neither end state of its step.
// After the repo fix recorded in known_findings.json all six low-level solvers pass.

use ivp::methods::{DOP853, DOPRI5, RK23};
use ivp::prelude::*;
use ivp::solout::SolOut;

struct Sho;
impl IVP for Sho {
    fn ode(&self, _x: f64, y: &[f64], dydx: &mut [f64]) {
        dydx[0] = y[1];
        dydx[1] = -y[0];
    }
}

/// Equidistant output through XOut: asks the solver for an interpolant only on the
/// steps that reach the next grid point.
struct Grid {
    dx: f64,
    next: f64,
    yold: Vec<f64>,
    handed: usize,
    outputs: Vec<(f64, Vec<f64>)>,
    end_mismatch: f64,
}

impl SolOut for Grid {
    fn solout(
        &mut self,
        xold: f64,
        x: &mut f64,
        y: &mut [f64],
        interpolant: Option<&StepInterpolant<'_>>,
    ) -> ControlFlag {
        if let Some(interp) = interpolant {
            self.handed += 1;
            let mut yi = vec![0.0; y.len()];
            // right end of the step: the state the solver reports at x
            interp.interpolate(*x, &mut yi);
            for (a, b) in yi.iter().zip(y.iter()) {
                self.end_mismatch = self.end_mismatch.max((a - b).abs());
            }
            // left end of the step: the state reported by the previous callback
            interp.interpolate(xold, &mut yi);
            for (a, b) in yi.iter().zip(self.yold.iter()) {
                self.end_mismatch = self.end_mismatch.max((a - b).abs());
            }
            // grid points inside the step
            while self.next <= *x {
                interp.interpolate(self.next, &mut yi);
                self.outputs.push((self.next, yi.clone()));
                self.next += self.dx;
            }
        }
        self.yold = y.to_vec();
        ControlFlag::XOut(self.next)
    }
}

macro_rules! check {
    ($name:ident, $solver:expr, $tol:expr) => {
        #[test]
        fn $name() {
            let solver = $solver;
            let mut grid = Grid { dx: 0.25, next: 0.25, yold: Vec::new(), handed: 0, outputs: Vec::new(), end_mismatch: 0.0 };
            let res = solver.solve(&Sho, 0.0, &[1.0, 0.0], 2.0, 1e-9.into(), 1e-9.into(), Some(&mut grid)).unwrap();
            assert_eq!(res.status, Status::Success);
            assert!(grid.handed > 0, "no interpolant was handed out");
            assert!(!grid.outputs.is_empty(), "no grid output was produced");
            assert!(grid.end_mismatch <= 1e-9, "interpolant does not reproduce the step's end states: max mismatch {}", grid.end_mismatch);
            for (t, yi) in &grid.outputs {
                assert!((yi[0] - t.cos()).abs() <= $tol && (yi[1] + t.sin()).abs() <= $tol, "interpolated output at t = {} is {:?}", t, yi);
            }
        }
    };
}

check!(rk23_xout_interpolant_without_dense_flag, RK23::builder().dense_output(false).build(), 1e-5);
check!(dopri5_xout_interpolant_without_dense_flag, DOPRI5::builder().dense_output(false).build(), 1e-6);
check!(dop853_xout_interpolant_without_dense_flag, DOP853::builder().dense_output(false).build(), 1e-6);
