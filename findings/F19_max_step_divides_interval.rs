// F19: Radau and BDF ended with StepSizeTooSmall a few ulps before xend when max_step divides the interval
// (before repo commit bab920b): the step shortened to the rounding-size remainder ran into the underflow test.
use ivp::prelude::*;
struct Decay;
impl IVP for Decay { fn ode(&self, _t: f64, y: &[f64], d: &mut [f64]) { d[0] = -0.5 * y[0]; } }

#[test]
fn max_step_dividing_the_interval_still_succeeds() {
    for method in [Method::RADAU, Method::BDF] {
        for k in [3usize, 7, 10, 13, 20, 33, 80] {
            for j in 1..40 {
                let ms = 1e-6 * (j as f64) * 0.37;
                let xend = ms * k as f64;
                for (a, b) in [(0.0, xend), (xend, 0.0)] {
                    let opts = Options::builder().method(method.clone()).rtol(1e-3).atol(1e-6).max_step(ms).build();
                    let sol = solve_ivp(&Decay, a, b, &[1.0], opts).unwrap();
                    assert_eq!(sol.status, Status::Success, "{:?} [{:e}, {:e}] max_step = {:e}: last t = {:e}", method, a, b, ms, sol.t.last().unwrap());
                }
            }
        }
    }
}
