// F20: without t_eval the output handler dropped every accepted step shorter than its absolute 1e-12 slack
// (before repo commit 74f4341): on [0, 1e-12] the result was t = [0.0] with Success.
use ivp::prelude::*;
struct Decay;
impl IVP for Decay { fn ode(&self, _t: f64, y: &[f64], d: &mut [f64]) { d[0] = -0.5 * y[0]; } }

#[test]
fn tiny_interval_reports_its_end() {
    for method in [Method::RK23, Method::DOPRI5, Method::DOP853, Method::RADAU, Method::BDF] {
        for span in [1e-12, 5e-13, -1e-12] {
            let opts = Options::builder().method(method.clone()).rtol(1e-3).atol(1e-6).build();
            let sol = solve_ivp(&Decay, 0.0, span, &[1.0], opts).unwrap();
            assert_eq!(sol.status, Status::Success);
            assert_eq!(*sol.t.last().unwrap(), span, "{:?}: t = {:?}", method, sol.t);
        }
    }
}
