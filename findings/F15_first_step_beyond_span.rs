use ivp::prelude::*;
struct E;
impl IVP for E { fn ode(&self,_x:f64,y:&[f64],d:&mut [f64]){ d[0]=-y[0]; } }
fn main(){
    for m in [Method::RK23, Method::DOPRI5, Method::DOP853, Method::RADAU, Method::BDF] {
        let opts = Options::builder().method(m).first_step(5.0).build();
        let sol = solve_ivp(&E,1.0,2.0,&[1.0],opts).unwrap();
        println!("{:?} t={:?}", sol.status, &sol.t);
    }
}
