// F22: BDF asked hinit for the automatic first step with order 1 where every other solver passes the local-error order of
// its first step (RK23 3, DOPRI5 5, DOP853 8; BDF starts as backward Euler: 2 - SciPy's select_initial_step(order = 1) uses
// the exponent 1/(order + 1) as well).  With exponent 1/1 the first step was 0.01/max(|f'|, |y''|): 1e-15 .. 1e-23 for a stiff
// or fast problem, below the spacing of doubles at any x0 >= 1, and the stagnation guard ended the run before the first
// step: StepSizeTooSmall, nstep = 0 (before the repo fix recorded in known_findings.json).
use ivp::prelude::*;
struct PR(f64);
impl IVP for PR {
    fn ode(&self, x: f64, y: &[f64], dy: &mut [f64]) { dy[0] = -self.0 * (y[0] - x.cos()) - x.sin(); }
}
struct Osc(f64);
impl IVP for Osc {
    fn ode(&self, _x: f64, y: &[f64], dy: &mut [f64]) { dy[0] = y[1]; dy[1] = -self.0 * self.0 * y[0]; }
}

#[test]
fn bdf_stiff_problem_from_nonzero_start() {
    for &lam in &[1e4, 1e6, 1e8] {
        for &(a, b) in &[(1.0, 2.0), (5.0, 6.0), (100.0, 101.0)] {
            let opts = Options::builder().method(Method::BDF).rtol(1e-6).atol(1e-9).build();
            let s = solve_ivp(&PR(lam), a, b, &[a.cos() + 0.1], opts).unwrap();
            assert!(matches!(s.status, Status::Success), "lambda = {lam:e}, [{a}, {b}]: {:?} after {} steps", s.status, s.nstep);
            assert_eq!(*s.t.last().unwrap(), b);
        }
    }
}

#[test]
fn bdf_oscillator_from_nonzero_start() {
    let opts = Options::builder().method(Method::BDF).rtol(1e-6).atol(1e-9).build();
    let s = solve_ivp(&Osc(100.0), 1.0, 2.0, &[1.0, 0.0], opts).unwrap();
    assert!(matches!(s.status, Status::Success), "{:?} after {} steps", s.status, s.nstep);
}
