// F23: BDF with min_step set never gave up on a step that keeps failing.  Every rejection halves current_h (R-REJECT-SHRINK),
// but the loop head put the trial step back up to min_step (`if h_try < hmin { h_try = hmin }`), so the attempt that had just
// failed was repeated with the same size for ever: with y' = sqrt(1 - x) (NaN beyond x = 1) the run only ended when the step
// budget ran out - 50000 attempts below, and never with the default unlimited budget (C04: "neither hangs nor panics").
// After the repo fix recorded in known_findings.json the solver reports StepSizeTooSmall as soon as a step of size min_step
// has been rejected.
use ivp::prelude::*;
struct Wall;
impl IVP for Wall {
    fn ode(&self, x: f64, _y: &[f64], dy: &mut [f64]) { dy[0] = (1.0 - x).sqrt(); }
}

#[test]
fn bdf_with_min_step_gives_up_at_a_wall() {
    for &hmin in &[1e-3, 1e-4, 1e-6] {
        let opts = Options::builder().method(Method::BDF).min_step(hmin).max_steps(50_000).build();
        let s = solve_ivp(&Wall, 0.0, 2.0, &[0.0], opts).unwrap();
        assert!(matches!(s.status, Status::StepSizeTooSmall), "min_step = {hmin:e}: {:?} after {} attempts", s.status, s.nstep);
        assert!(s.nstep < 5_000, "min_step = {hmin:e}: {} attempts before giving up", s.nstep);
        assert!(s.y.iter().all(|v| v.iter().all(|c| c.is_finite())));
        assert!(*s.t.last().unwrap() <= 1.0);
    }
}

#[test]
fn bdf_with_min_step_still_solves_an_ordinary_problem() {
    let opts = Options::builder().method(Method::BDF).min_step(1e-6).rtol(1e-6).atol(1e-9).build();
    let s = solve_ivp(&Wall, 0.0, 0.9, &[0.0], opts).unwrap();
    assert!(matches!(s.status, Status::Success), "{:?}", s.status);
    let exact = 2.0 / 3.0 * (1.0 - (0.1f64).powf(1.5));
    assert!((s.y.last().unwrap()[0] - exact).abs() < 1e-4);
}
