use ivp::prelude::*;
use std::cell::RefCell;

struct Rec { ts: RefCell<Vec<f64>> }
impl IVP for Rec {
    fn ode(&self, t: f64, y: &[f64], dydx: &mut [f64]) {
        self.ts.borrow_mut().push(t);
        dydx[0] = -0.5 * y[0];
    }
}

#[test]
fn probe_outside() {
    for method in [Method::RK23, Method::DOPRI5, Method::DOP853, Method::RADAU, Method::BDF] {
        for (x0, xend) in [(0.0, 1e-3), (0.0, -1e-3), (-0.55, 0.23), (-0.75, 0.23)] {
            for ms in [None, Some(f64::INFINITY)] {
                let f = Rec { ts: RefCell::new(vec![]) };
                let mut b = Options::builder().method(method.clone()).rtol(1e-3).atol(1e-6);
                let opts = match ms { Some(m) => b.max_step(m).build(), None => b.build() };
                let sol = solve_ivp(&f, x0, xend, &[1.0], opts).unwrap();
                let (lo, hi) = if x0 < xend { (x0, xend) } else { (xend, x0) };
                let out: Vec<f64> = f.ts.borrow().iter().cloned().filter(|t| *t < lo || *t > hi).collect();
                println!("{:?} [{},{}] max_step={:?}: status={:?} n={} last_t={:?} outside={:?}", method, x0, xend, ms, sol.status, sol.t.len(), sol.t.last(), &out[..out.len().min(3)]);
            }
        }
    }
}
