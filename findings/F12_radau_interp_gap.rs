use ivp::prelude::*;
use ivp::methods::RADAU;
use ivp::solout::SolOut;
struct V;
impl IVP for V { fn ode(&self,_x:f64,y:&[f64],d:&mut [f64]){ d[0]=y[1]; d[1]=1000.0*((1.0-y[0]*y[0])*y[1]) - y[0]; } }
struct Chk{steps:usize,bad:usize,maxgap:f64}
impl SolOut for Chk {
    fn solout(&mut self, xold:f64, x:&mut f64, _y:&mut [f64], it:Option<&StepInterpolant<'_>>)->ControlFlag{
        if let Some(i)=it { let (a,h)=i.step_params(); self.steps+=1; let gap=((a+h)-*x).abs(); if gap>1e-12*(1.0+x.abs()) {self.bad+=1; if gap>self.maxgap{self.maxgap=gap;}} let _=xold; }
        ControlFlag::Continue
    }
}
fn main(){
    for (nt,tol) in [(1e-13,1e-3),(1e-13,1e-6),(1e-13,1e-9),(1e-13,1e-12),(1e-15,1e-6),(1e-10,1e-8)] {
    let s = RADAU::builder().newton_tol(nt).mass_storage(MatrixStorage::Identity).build();
    let mut c=Chk{steps:0,bad:0,maxgap:0.0};
    let r = s.solve(&V,0.0,&[2.0,0.0],3000.0,tol.into(),tol.into(),Some(&mut c)).unwrap();
    println!("nt {:e} tol {:e} status {:?} steps {} interpolants with xold+h != x: {} maxgap {:e}", nt,tol,r.status, c.steps, c.bad, c.maxgap);
    }
}
