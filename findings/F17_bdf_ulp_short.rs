// F17: BDF reported StepSizeTooSmall after covering the interval (before repo commit 7e10960).
// y' = -y/2 on [-0.55, 0.23], rtol 1e-3, atol 1e-6: the last (shortened) step advanced x to x + h, which rounded to
// 0.22999999999999998; `direction * (x - xend) >= 0` failed, the remaining interval of one ulp could not be stepped.
use ivp::prelude::*;

struct Decay;
impl IVP for Decay {
    fn ode(&self, _t: f64, y: &[f64], dydx: &mut [f64]) {
        dydx[0] = -0.5 * y[0];
    }
}

#[test]
fn bdf_reaches_xend_and_says_so() {
    for (x0, xend) in [(-0.55, 0.23), (-0.75, 0.23)] {
        let opts = Options::builder().method(Method::BDF).rtol(1e-3).atol(1e-6).build();
        let sol = solve_ivp(&Decay, x0, xend, &[1.0], opts).unwrap();
        assert_eq!(sol.status, Status::Success, "[{x0}, {xend}]: last t = {:?}", sol.t.last());
        assert_eq!(*sol.t.last().unwrap(), xend);
    }
}
