use ivp::prelude::*;
use std::time::Instant;
struct Blow;
impl IVP for Blow { fn ode(&self,_x:f64,y:&[f64],d:&mut [f64]){ d[0]=y[0]*y[0]; } }
struct NanAfter;
impl IVP for NanAfter { fn ode(&self,x:f64,y:&[f64],d:&mut [f64]){ d[0]= if x>0.5 {f64::NAN} else {-y[0]}; } }
fn main(){
    let which: Vec<String> = std::env::args().collect();
    let m = match which[1].as_str() { "rk23"=>Method::RK23, "radau"=>Method::RADAU, "dopri5"=>Method::DOPRI5, _=>Method::BDF };
    let t0=Instant::now();
    if which[2]=="blow" {
        let sol = solve_ivp(&Blow,0.0,2.0,&[1.0],Options::builder().method(m).max_steps(100000).build());
        match sol { Ok(s)=>println!("blow {:?} n={} last t={:?} in {:?}", s.status, s.t.len(), s.t.last(), t0.elapsed()), Err(e)=>println!("blow Err {:?}", e) }
    } else {
        let sol = solve_ivp(&NanAfter,0.0,1.0,&[1.0],Options::builder().method(m).max_steps(100000).build());
        match sol { Ok(s)=>println!("nan {:?} n={} last t={:?} last y={:?} in {:?}", s.status, s.t.len(), s.t.last(), s.y.last(), t0.elapsed()), Err(e)=>println!("nan Err {:?}", e) }
    }
}
