// F18: RADAU panicked ("min > max, or either was NaN") when min_step exceeded max_step or the interval length
// (before repo commit 6e7c094): the accepted-step controller used f64::clamp(hmin, hmax).
use ivp::prelude::*;
struct Decay;
impl IVP for Decay { fn ode(&self, _t: f64, y: &[f64], d: &mut [f64]) { d[0] = -0.5 * y[0]; } }

#[test]
fn radau_min_step_larger_than_span_does_not_panic() {
    let opts = Options::builder().method(Method::RADAU).min_step(1.0).build();
    let sol = solve_ivp(&Decay, 0.0, 0.5, &[1.0], opts).unwrap();
    assert_eq!(*sol.t.last().unwrap(), 0.5);
}

#[test]
fn radau_min_step_above_max_step_does_not_panic() {
    let opts = Options::builder().method(Method::RADAU).min_step(0.2).max_step(0.1).build();
    let _ = solve_ivp(&Decay, 0.0, 5.0, &[1.0], opts);
}
