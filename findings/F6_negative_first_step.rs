use ivp::prelude::*;
struct E;
impl IVP for E { fn ode(&self,_x:f64,y:&[f64],d:&mut [f64]){ d[0]=-y[0]; } }
fn main(){
    let opts = Options::builder().method(Method::DOPRI5).first_step(-0.1).build();
    let sol = solve_ivp(&E,0.0,1.0,&[1.0],opts).unwrap();
    println!("{:?} t[..4]={:?}", sol.status, &sol.t[..4.min(sol.t.len())]);
}
