use ivp::prelude::*;
use ivp::methods::RADAU;
use ivp::solout::SolOut;
struct E;
impl IVP for E { fn ode(&self,_x:f64,y:&[f64],d:&mut [f64]){ d[0]=-y[0]; } }
struct Last(f64);
impl SolOut for Last { fn solout(&mut self,_xo:f64,_x:&mut f64,y:&mut [f64],_i:Option<&StepInterpolant<'_>>)->ControlFlag{ self.0=y[0]; ControlFlag::Continue } }
fn main(){
    // low-level builder with its documented defaults (mass storage: Full), no mass matrix supplied => y' = f
    let s = RADAU::builder().build();
    let mut l=Last(0.0);
    let r = s.solve(&E,0.0,&[1.0],1.0,1e-8.into(),1e-8.into(),Some(&mut l)).unwrap();
    println!("{:?} y(1)={} expected {}", r.status, l.0, (-1.0f64).exp());
}
