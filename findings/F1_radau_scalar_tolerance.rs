use ivp::prelude::*;
struct E(usize);
impl IVP for E { fn ode(&self,_x:f64,y:&[f64],d:&mut [f64]){ for i in 0..self.0 { d[i]=-y[i]; } } }
fn main(){
    let n=8;
    let y0=vec![1.0;n];
    let a = Options::builder().method(Method::RADAU).rtol(1e-8).atol(1e-8).build();
    let b = Options::builder().method(Method::RADAU).rtol(vec![1e-8;n]).atol(vec![1e-8;n]).build();
    let sa = solve_ivp(&E(n),0.0,1.0,&y0,a).unwrap();
    let sb = solve_ivp(&E(n),0.0,1.0,&y0,b).unwrap();
    let ex=(-1.0f64).exp();
    println!("scalar tol: steps {} err {:e}", sa.naccpt, (sa.y.last().unwrap()[0]-ex).abs());
    println!("vector tol: steps {} err {:e}", sb.naccpt, (sb.y.last().unwrap()[0]-ex).abs());
}
