use ivp::prelude::*;
struct E;
impl IVP for E { fn ode(&self,_x:f64,y:&[f64],d:&mut [f64]){ d[0]=-y[0]; } }
fn main(){
    // F7: RK4 with a step that does not divide the interval
    let opts = Options::builder().method(Method::RK4).first_step(0.3).build();
    let sol = solve_ivp(&E,0.0,1.0,&[1.0],opts).unwrap();
    println!("RK4 {:?} t={:?}", sol.status, sol.t);
    // F14: Radau on a span shorter than its default first step; and first_step == span
    let x0=1.0; let opts = Options::builder().method(Method::RADAU).build();
    let sol = solve_ivp(&E,x0,x0+1e-7,&[1.0],opts).unwrap();
    println!("RADAU tiny span {:?} last t - xend = {:e}", sol.status, sol.t.last().unwrap()-(x0+1e-7));
    let opts = Options::builder().method(Method::RADAU).first_step(1.0).rtol(1e-2).atol(1e-2).build();
    let sol = solve_ivp(&E,0.0,1.0,&[1.0],opts).unwrap();
    println!("RADAU first_step==span {:?} t={:?}", sol.status, sol.t);
}
