use ivp::prelude::*;
struct E;
impl IVP for E {
    fn ode(&self,_x:f64,y:&[f64],d:&mut [f64]){ d[0]=-y[0]; }
    fn n_events(&self)->usize{1}
    fn events(&self,x:f64,_y:&[f64],out:&mut [f64]){ out[0]=x-0.777; }
    fn event_config(&self,_i:usize)->EventConfig{ let mut c=EventConfig::new(); c.terminal(); c }
}
fn main(){
    let te:Vec<f64>=(0..=100).map(|i| i as f64*0.01).collect();
    for m in [Method::RK4, Method::DOPRI5, Method::BDF] {
        let opts = Options::builder().method(m).t_eval(te.clone()).build();
        let sol = solve_ivp(&E,0.0,1.0,&[1.0],opts).unwrap();
        let n=sol.t.len();
        println!("{:?} n={} tail={:?}", sol.status, n, &sol.t[n-4..]);
    }
    // backward
    let te:Vec<f64>=(0..=100).map(|i| 1.0 - i as f64*0.01).collect();
    let opts = Options::builder().method(Method::DOPRI5).t_eval(te).build();
    let sol = solve_ivp(&E,1.0,0.0,&[1.0],opts).unwrap();
    let n=sol.t.len();
    println!("backward {:?} n={} tail={:?}", sol.status, n, &sol.t[n-4..]);
}
