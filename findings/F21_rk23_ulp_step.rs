// F21: RK23 finished with `x == xend` after `x += h`; when x + (xend - x) rounded an ulp off xend it took one more
// step of rounding size, so naccpt exceeded the reported intervals and the last sample lay past xend
// (before repo commit d7690b6). The handler's few-ulp duplicate test likewise swallowed genuine tiny steps.
use ivp::prelude::*;
struct Decay;
impl IVP for Decay { fn ode(&self, _t: f64, y: &[f64], d: &mut [f64]) { d[0] = -0.5 * y[0]; } }

#[test]
fn accepted_steps_are_reported_intervals() {
    for method in [Method::RK4, Method::RK23, Method::DOPRI5, Method::DOP853, Method::RADAU, Method::BDF] {
        for i in 0..60 {
            let x0 = -0.55 - 0.013 * i as f64;
            let xend = 0.23 + 0.007 * i as f64;
            for (a, b) in [(x0, xend), (xend, x0)] {
                let opts = Options::builder().method(method.clone()).rtol(1e-3).atol(1e-6).build();
                let sol = solve_ivp(&Decay, a, b, &[1.0], opts).unwrap();
                assert_eq!(sol.naccpt, sol.t.len() - 1, "{:?} [{}, {}]", method, a, b);
                let last = *sol.t.last().unwrap();
                assert!((last - b).abs() <= 4.0 * f64::EPSILON * b.abs(), "{:?} [{}, {}]: last sample {}", method, a, b, last);
            }
        }
    }
    let sol = solve_ivp(&Decay, 1.0, 1.0 + 1e-12, &[1.0], Options::builder().method(Method::RK4).build()).unwrap();
    assert_eq!(sol.naccpt, sol.t.len() - 1);
}
