"""Numeric evaluation of a symbolic value (Poly over atoms, opaque atoms resolved through DEFS) at a model point.

Used by rules whose obligation is a predicate that touches its inputs only through +, -, *, min, max, abs and comparisons:
a model point per ordering of the inputs decides it.  Unknown operators raise NoEval (the rule reports inconclusive)."""
from fractions import Fraction
from poly import Poly, DEFS


class NoEval(Exception):
    pass


_CMP = {"lt": lambda a, b: a < b, "le": lambda a, b: a <= b, "gt": lambda a, b: a > b, "ge": lambda a, b: a >= b,
        "eq": lambda a, b: a == b, "ne": lambda a, b: a != b}


def atom_value(name, env, default=None, depth=0):
    if name in env:
        return env[name]
    if depth > 60:
        raise NoEval("depth")
    if name in ("true", "false"):
        return name == "true"
    d = DEFS.get(name)
    if d is not None:
        op, args = d
        ev = lambda i: value(args[i], env, default, depth + 1)
        if op in _CMP and len(args) == 2:
            return _CMP[op](ev(0), ev(1))
        if op == "and":
            return bool(ev(0)) and bool(ev(1))
        if op == "or":
            return bool(ev(0)) or bool(ev(1))
        if op == "not":
            return not ev(0)
        if op in ("min", "max") and len(args) == 2:
            return (min if op == "min" else max)(ev(0), ev(1))
        if op == "abs" and len(args) == 1:
            return abs(ev(0))
        if op == "signum" and len(args) == 1:
            v = ev(0)
            return 1.0 if v > 0 else -1.0 if v < 0 else 0.0
        if op == "neg" and len(args) == 1:
            return -ev(0)
        if op == "inv" and len(args) == 1:
            return 1.0 / ev(0)
        if op == "sqrt" and len(args) == 1:
            return ev(0) ** 0.5
        if op.startswith("call:std::f64::<impl f64>::") and len(args) == 1:
            import math
            m = op.rsplit("::", 1)[1]
            v = ev(0)
            if m == "round":
                return float(math.floor(abs(v) + 0.5)) * (1.0 if v >= 0 else -1.0)   # Rust rounds half away from zero
            if m == "floor":
                return float(math.floor(v))
            if m == "ceil":
                return float(math.ceil(v))
            if m == "trunc":
                return float(math.trunc(v))
            if m == "abs":
                return abs(v)
        if op == "maporr":
            # Option::map_or on a present value: the closure's value
            return ev(1)
    if callable(default):
        v = default(name)
        if v is not None:
            return v
    elif default is not None:
        return default
    raise NoEval("no model value for %s" % name)


def value(p, env, default=None, depth=0):
    if isinstance(p, bool):
        return p
    if not isinstance(p, Poly):
        raise NoEval("not a scalar: %r" % (p,))
    a = p.single_atom()
    if a is not None:
        return atom_value(a, env, default, depth)
    tot = 0.0
    for mono, c in p.t.items():
        term = float(Fraction(c))
        for atom, exp in mono:
            v = atom_value(atom, env, default, depth)
            if isinstance(v, bool):
                raise NoEval("boolean used as a number")
            term *= float(v) ** exp
        tot += term
    return tot
