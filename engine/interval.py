"""FIN (interval part): sound interval evaluation of symbolic step-size factors with Rust NaN semantics.

A value is (lo, hi, nan): the set [lo, hi] of reals (None = empty) plus possibly NaN.
`min`/`max` follow Rust: if one operand is NaN the other is returned.
"""
import math
from fractions import Fraction

import rk
import tast
from symx import FACTS
from poly import Poly, DEFS, ATOM_TY, opaque

INF = float("inf")


class IntervalError(Exception):
    pass


class IV:
    __slots__ = ("lo", "hi", "nan")

    def __init__(self, lo, hi, nan=False):
        self.lo, self.hi, self.nan = lo, hi, nan

    @staticmethod
    def point(v):
        return IV(float(v), float(v))

    @staticmethod
    def top():
        return IV(-INF, INF, True)

    def empty(self):
        return self.lo is None

    def __repr__(self):
        r = "[]" if self.lo is None else "[%.4g, %.4g]" % (self.lo, self.hi)
        return r + ("+NaN" if self.nan else "")


def _mulv(a, b):
    if (a == 0 and abs(b) == INF) or (b == 0 and abs(a) == INF):
        return 0.0   # limits of finite*zero; infinities here stand for "arbitrarily large finite"
    return a * b


def add(a, b):
    nan = a.nan or b.nan
    if a.empty() or b.empty():
        return IV(None, None, nan)
    return IV(a.lo + b.lo, a.hi + b.hi, nan)


def mul(a, b):
    nan = a.nan or b.nan
    if a.empty() or b.empty():
        return IV(None, None, nan)
    c = [_mulv(x, y) for x in (a.lo, a.hi) for y in (b.lo, b.hi)]
    return IV(min(c), max(c), nan)


def inv(a):
    if a.empty():
        return IV(None, None, a.nan)
    if a.lo <= 0 <= a.hi:
        if a.lo == 0 and a.hi > 0:
            return IV(1 / a.hi if a.hi != INF else 0.0, INF, a.nan)
        if a.hi == 0 and a.lo < 0:
            return IV(-INF, 1 / a.lo if a.lo != -INF else 0.0, a.nan)
        return IV(-INF, INF, a.nan)
    lo = 1 / a.hi if abs(a.hi) != INF else 0.0
    hi = 1 / a.lo if abs(a.lo) != INF else 0.0
    return IV(min(lo, hi), max(lo, hi), a.nan)


def ipow(a, k):
    if k == 0:
        return IV.point(1)
    if k < 0:
        return inv(ipow(a, -k))
    r = a
    for _ in range(k - 1):
        r = mul(r, a)
    if k % 2 == 0 and not r.empty():
        lo = 0.0 if a.lo <= 0 <= a.hi else min(abs(a.lo), abs(a.hi)) ** k
        r = IV(lo, max(abs(a.lo), abs(a.hi)) ** k if max(abs(a.lo), abs(a.hi)) != INF else INF, a.nan)
    return r


def powf(b, e):
    """b >= 0 assumed checked by caller; e interval"""
    nan = b.nan or e.nan
    if b.empty() or e.empty():
        return IV(None, None, nan)
    if b.lo < 0:
        return IV(0.0, INF, True)
    vals = []
    for x in (b.lo, b.hi):
        for y in (e.lo, e.hi):
            try:
                if x == 0 and y < 0:
                    vals.append(INF)
                elif x == INF:
                    vals.append(INF if y > 0 else (0.0 if y < 0 else 1.0))
                else:
                    vals.append(x ** y)
            except OverflowError:
                vals.append(INF)
    lo, hi = min(vals), max(vals)
    if b.lo < 1 < b.hi:
        lo, hi = min(lo, 1.0), max(hi, 1.0)
    return IV(lo, hi, nan)


def union(a, b):
    nan = a.nan or b.nan
    if a.empty():
        return IV(b.lo, b.hi, nan)
    if b.empty():
        return IV(a.lo, a.hi, nan)
    return IV(min(a.lo, b.lo), max(a.hi, b.hi), nan)


def rmin(xs):
    """Rust f64::min over a list: NaN operands are skipped; NaN only if all are NaN"""
    return _rminmax(xs, min)


def rmax(xs):
    return _rminmax(xs, max)


def _rminmax(xs, fn):
    # enumerate which operands are NaN (only those with nan flag may be)
    res = None
    n = len(xs)
    for mask in range(1 << n):
        ok = True
        present = []
        for i, x in enumerate(xs):
            isnan = bool(mask >> i & 1)
            if isnan and not x.nan:
                ok = False
                break
            if not isnan:
                if x.empty():
                    ok = False
                    break
                present.append(x)
        if not ok:
            continue
        if not present:
            r = IV(None, None, True)
        else:
            r = IV(fn(p.lo for p in present), fn(p.hi for p in present), False)
        res = r if res is None else union(res, r)
    return res if res is not None else IV(None, None, False)


class Evaluator:
    def __init__(self, env_poly, env_atom):
        self.env_poly = env_poly    # list of (Poly, IV) matched structurally
        self.env_atom = env_atom    # atom name -> IV
        self.unknown = set()

    def poly(self, p, depth=0):
        if not isinstance(p, Poly):
            raise IntervalError("not a scalar")
        # every constraint that speaks about p (exactly, or up to a constant offset / sign) applies: intersect them
        hits = []
        for q, iv in self.env_poly:
            if iv.empty():
                continue
            if p == q:
                hits.append(iv)
                continue
            c = (p - q).const_value()
            if c is not None and not p.is_const():
                hits.append(IV(iv.lo + float(c), iv.hi + float(c), iv.nan))
                continue
            c2 = (p + q).const_value()
            if c2 is not None and not p.is_const():
                hits.append(IV(float(c2) - iv.hi, float(c2) - iv.lo, iv.nan))
        if hits:
            lo = max(h.lo for h in hits)
            hi = min(h.hi for h in hits)
            nan = all(h.nan for h in hits)
            return IV(lo, hi, nan) if lo <= hi else IV(None, None, nan)
        total = IV.point(0)
        for m, c in p.t.items():
            term = IV.point(float(c))
            for a, e in m:
                term = mul(term, ipow(self.atom(a, depth), e))
            total = add(total, term)
        return total

    def atom(self, a, depth=0):
        if a in self.env_atom:
            return self.env_atom[a]
        pa = Poly.atom(a)
        for q, iv in self.env_poly:
            if pa == q:
                return iv
        d = DEFS.get(a)
        if a.startswith("const:"):
            # the floating-point constants of the standard library
            tail = a.rsplit("::", 1)[-1]
            known = {"INFINITY": (INF, INF), "NEG_INFINITY": (-INF, -INF), "EPSILON": (2.0 ** -52, 2.0 ** -52), "MIN_POSITIVE": (2.0 ** -1022, 2.0 ** -1022),
                     "MAX": (1.7976931348623157e308, 1.7976931348623157e308), "MIN": (-1.7976931348623157e308, -1.7976931348623157e308)}
            if tail in known and ("f64" in a or "f32" in a):
                return IV(known[tail][0], known[tail][1], False)
            if tail == "NAN":
                return IV(None, None, True)
        if ATOM_TY.get(a) in ("usize", "u8", "u16", "u32", "u64") and (d is None or d[0] == "widen"):
            return IV(0.0, INF, False)    # unsigned integers: non-negative, never NaN
        if d is None or depth > 40 or d[0] == "widen":
            self.unknown.add(a)
            return IV.top()
        op, xs = d
        args = [x for x in xs if isinstance(x, Poly)]
        ev = lambda x: self.poly(x, depth + 1)
        if op == "inv":
            return inv(ev(args[0]))
        if op == "abs":
            v = ev(args[0])
            if v.empty():
                return v
            lo = 0.0 if v.lo <= 0 <= v.hi else min(abs(v.lo), abs(v.hi))
            return IV(lo, max(abs(v.lo), abs(v.hi)), v.nan)
        if op == "sqrt":
            v = ev(args[0])
            if v.empty():
                return v
            return IV(math.sqrt(max(v.lo, 0.0)), math.sqrt(v.hi) if v.hi != INF else INF, v.nan or v.lo < 0)
        if op == "powf":
            return powf(ev(args[0]), ev(args[1]))
        if op == "powi":
            k = args[1].const_value()
            if k is not None and k.denominator == 1:
                return ipow(ev(args[0]), int(k))
        if op == "min":
            return rmin([ev(x) for x in args])
        if op == "max":
            return rmax([ev(x) for x in args])
        if op == "clamp" and len(args) == 3:
            # f64::clamp propagates a NaN receiver (unlike min/max)
            v, lo_, hi_ = ev(args[0]), ev(args[1]), ev(args[2])
            if v.empty():
                return IV(None, None, v.nan)
            return IV(max(v.lo, lo_.lo), min(v.hi, hi_.hi) if min(v.hi, hi_.hi) >= max(v.lo, lo_.lo) else max(v.lo, lo_.lo), v.nan)
        if op == "signum":
            v = ev(args[0])
            return IV(-1.0, 1.0, v.nan)
        if op == "phi":
            r = None
            for x in args:
                v = ev(x)
                r = v if r is None else union(r, v)
            if r is not None:
                return r
        self.unknown.add(a)
        return IV.top()


def facts_env(fs):
    """(poly -> IV) constraints implied by comparison facts against constants"""
    cons = []

    def one(cond, truth):
        a = cond.single_atom() if isinstance(cond, Poly) else None
        if not a or a not in DEFS:
            return
        op, xs = DEFS[a]
        if op == "not" and xs:
            return one(xs[0], not truth)
        if op == "and" and truth:
            for x in xs:
                one(x, True)
            return
        if op == "or" and not truth:
            for x in xs:
                one(x, False)
            return
        if op in ("lt", "le", "gt", "ge") and len(xs) == 2:
            l, r = xs
            swap = {"lt": "gt", "le": "ge", "gt": "lt", "ge": "le"}
            if isinstance(l, Poly) and l.const_value() is not None and not (isinstance(r, Poly) and r.const_value() is not None):
                l, r, op = r, l, swap[op]
            c = r.const_value() if isinstance(r, Poly) else None
            if c is None and isinstance(l, Poly) and isinstance(r, Poly):
                # relation between two expressions: constrain their difference
                l, c = l - r, Fraction(0)
            if c is None or not isinstance(l, Poly):
                return
            c = float(c)
            if truth:
                iv = {"lt": IV(-INF, c), "le": IV(-INF, c), "gt": IV(c, INF), "ge": IV(c, INF)}[op]
            else:
                # the comparison failed: the opposite order holds, or the operand is NaN
                iv = {"lt": IV(c, INF, True), "le": IV(c, INF, True), "gt": IV(-INF, c, True), "ge": IV(-INF, c, True)}[op]
            cons.append((l, iv, op, truth, c))
    for cond, truth in fs:
        one(cond, truth)
    # intersect constraints on the same polynomial
    out = []
    for l, iv, op, truth, c in cons:
        for j, (q, w) in enumerate(out):
            if q == l:
                lo, hi = max(w.lo, iv.lo), min(w.hi, iv.hi)
                out[j] = (q, IV(lo, hi, w.nan and iv.nan) if lo <= hi else IV(None, None, w.nan and iv.nan))
                break
        else:
            out.append((l, iv))
    return out


def default_fields(f, fn):
    """self.<field> -> literal default from `impl Default for <Solver>`"""
    ty = fn.rsplit("::", 1)[0]
    out = {}
    for b in f.body_list:
        if b.get("impl_trait") == "std::default::Default" and b.get("impl_self") == ty:
            for s in tast.find(b["body"], lambda z: z.get("k") == "Struct"):
                for fl in s["fields"]:
                    e = fl["e"]
                    neg = False
                    if e.get("k") == "Unary" and e["op"] == "Neg":
                        e, neg = e["e"], True
                    if e.get("k") == "Lit" and e.get("lk") in ("Float", "Int"):
                        v = float(e["v"].replace("_", ""))
                        out["self." + fl["name"]] = IV.point(-v if neg else v)
    return out


def reject_factor(f, fn):
    """For every rejecting latch of fn's main loop: interval of |h_next / h| under the facts of that path."""
    body = f.body(fn)
    probe = rk.StepHooks(body["body"])
    has_accept_if = probe.accept_if is not None
    variants = rk.analyse_variants(f, fn, accept="else") if has_accept_if else rk.analyse_variants(f, fn)
    acc_key = None
    defaults = default_fields(f, fn)
    results = []
    seen = set()
    # the step variable: the scalar key whose head value's atom appears in the step actually taken (accepting runs)
    step_key = None
    for tag, sx, hk in rk.analyse_variants(f, fn):
        souts = [r for r in hk.solout_calls if r["in_main"]]
        if not souts or not isinstance(souts[0]["x"], Poly):
            continue
        head_atoms = {v.single_atom(): k for k, v in (hk.head or {}).items()
                      if isinstance(v, Poly) and v.single_atom() and not k.startswith("$") and k != hk.xkey
                      and k in (hk.pre_roots or ())}
        found = set()
        seen_a = set()
        stack = list((souts[0]["x"] - Poly.atom("X")).atoms())
        while stack:
            a_ = stack.pop()
            if a_ in seen_a:
                continue
            seen_a.add(a_)
            if a_ in head_atoms:
                found.add(head_atoms[a_])
                continue
            d_ = DEFS.get(a_)
            if d_ and d_[0] == "phi":
                for x_ in d_[1]:
                    if isinstance(x_, Poly):
                        stack.extend(x_.atoms())
        skeys = sorted(found)
        if len(skeys) == 1:
            step_key = skeys[0]
            break
    if step_key is None:
        raise IntervalError("cannot identify the step variable of %s in any path variant" % fn)
    n_id = 1
    for tag, sx, hk in variants:
        if not hk.latch:
            continue
        skey = step_key
        acc_keys = [k for k, nm in sx.names.items() if nm.endswith(".accepted")]
        H0 = hk.head.get(skey)
        if not isinstance(H0, Poly) or H0.single_atom() is None:
            continue   # variants that fix h at the head (landing) are not generic rejects
        for L in hk.latch:
            if acc_keys and L.get(acc_keys[0], sx.lazy.get(acc_keys[0])) != hk.head.get(acc_keys[0], sx.lazy.get(acc_keys[0])):
                continue   # an accepting iteration
            hv = L.get(skey)
            if not isinstance(hv, Poly):
                continue
            # the step actually used by this iteration's stage evaluations, as a magnitude monomial
            g = None
            for st_ in hk.stages:
                if st_.get("head") or not st_.get("in_main") or not isinstance(st_.get("T"), Poly):
                    continue
                d_ = st_["T"] - Poly.atom("X")
                if len(d_.t) != 1:
                    # a landing step h = xend - x: the retried step is compared with its magnitude |xend - x|
                    for cand_u in (opaque("abs", [d_]), opaque("abs", [-d_])):
                        ua = cand_u.single_atom()
                        if ua in hv.atoms():
                            c2_ = hv.div(cand_u)
                            if ua not in c2_.atoms():
                                g = c2_
                                break
                    if g is not None:
                        break
                    continue
                (m_, c_), = d_.t.items()
                um = tuple((a_, e_) for a_, e_ in m_ if not (a_.startswith("signum[") or a_ in ("posneg", "direction")))
                if not um:
                    continue
                U = Poly({um: Fraction(1)})
                cand = hv.div(U)
                if not (cand.atoms() & U.atoms()) and not any(a_.startswith("inv[") and U.atoms() & set(DEFS.get(a_, ("", [Poly()]))[1][0].atoms()) for a_ in cand.atoms()):
                    # strip a direction factor: only the magnitude matters
                    if len(cand.t) == 1:
                        (m2, c2), = cand.t.items()
                        m2 = tuple((a_, e_) for a_, e_ in m2 if not (a_.startswith("signum[") or a_ in ("posneg", "direction")))
                        cand = Poly({m2: c2})
                    g = cand
                    break
            if g is not None:
                pass
            elif hv == H0:
                # step unchanged on a cycle that did not accept: only legitimate with a bounded retry (checked by R-GUARD/R-BUDGET)
                g = Poly.const(1)
            elif H0.single_atom() not in hv.atoms() and "xend" in hv.atoms():
                # the step had been set to xend - x (landing) before it was rejected: ratio relative to that step
                coll = hv.collect("xend")
                A = coll.get(1, Poly())
                if set(coll) <= {0, 1} and (coll.get(0, Poly()) + A * Poly.atom("X")).is_zero():
                    g = A
                else:
                    g = hv.div(H0)
            else:
                # the step used in this iteration may be a join (phi) of the head step and a landing step
                div = H0
                h0a = H0.single_atom()
                if h0a not in hv.atoms():
                    cands = []
                    for a_ in hv.atoms():
                        d_ = DEFS.get(a_)
                        if d_ and d_[0] == "phi" and any(isinstance(x_, Poly) and h0a in x_.atoms() for x_ in d_[1]):
                            cands.append(a_)
                    if len(cands) == 1:
                        div = Poly.atom(cands[0])
                        h0a = cands[0]
                g = hv.div(div)
                if h0a in g.atoms():
                    results.append(dict(case="nonlinear", ok=False, msg="the rejected step %r is not a multiple of the previous step" % (hv,), range="?"))
                    continue
            if H0.single_atom() in g.atoms():
                results.append(dict(case="nonlinear", ok=False, msg="the rejected step %r is not a multiple of the previous step" % (hv,), range="?"))
                continue
            fs = L.get(FACTS, frozenset())
            # configuration fields: builder defaults (a valid configuration is finite, so validation facts only matter
            # for fields that have no literal default)
            envp = [(q, iv) for q, iv in facts_env(fs)
                    if not (q.single_atom() and q.single_atom() in defaults) and not all(a.startswith("self.") for a in q.atoms())]
            # NaN case and ordinary case are both contained in the fact intervals (nan flag)
            ev = Evaluator(envp, dict(defaults))
            iv = ev.poly(g)
            a = IV(None, None, iv.nan) if iv.empty() else IV(0.0 if iv.lo <= 0 <= iv.hi else min(abs(iv.lo), abs(iv.hi)), max(abs(iv.lo), abs(iv.hi)), iv.nan)
            sig = (repr(g)[:200])
            if sig in seen:
                continue
            seen.add(sig)
            case = "factor%d" % (len(results) + 1)
            if ev.unknown and (a.empty() or a.hi >= 1 or a.nan):
                raise IntervalError("cannot bound the reject factor %s of %s: unknown quantities %s" % (sig[:120], fn, sorted(ev.unknown)[:4]))
            ok = (not a.empty()) and a.hi < 1.0 and not a.nan
            msg = ""
            if not ok:
                msg = ("on a rejecting path the next step is h * g with |g| in %r (g = %s): the step is not guaranteed to shrink%s"
                       % (a, sig[:160], "; with a NaN error norm the factor can be NaN or exactly 1" if a.nan or a.hi == 1.0 else ""))
            results.append(dict(case=case, ok=ok, msg=msg, range=repr(a), g=sig[:200], span=hk.main_loop.get("sp"),
                                lo=None if a.empty() else a.lo, unknown=bool(ev.unknown)))
    if n_id == 0:
        raise IntervalError("cannot identify the step variable of %s in any path variant" % fn)
    if not results:
        raise IntervalError("no rejecting path found in %s" % fn)
    return results
