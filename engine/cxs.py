"""CXS: the exact evaluator (cx.py) extended with aggregate values - structs, enums, closures, overloaded operators.

Structs and enum values are mutable dicts ({"__adt": path, field: value, ...} / {"__variant": path, field: value, ...});
references to them alias the dict.  Overloaded `+`, `-`, `[]` on crate types are resolved to the crate's trait impls by
the operand type recorded in the typed tree.  A `panic!` raises CxPanic (the evaluated program diverges there).
"""
from poly import Poly
from cx import Cx, CxUnknown, Cell, Var, deref, deep, POISON, _Return


class CxPanic(Exception):
    pass


class FieldRef:
    __slots__ = ("obj", "name")

    def __init__(self, obj, name):
        self.obj, self.name = obj, name

    def get(self):
        return self.obj[self.name]

    def set(self, v):
        self.obj[self.name] = v


class Closure:
    __slots__ = ("node", "env")

    def __init__(self, node, env):
        self.node, self.env = node, env


def dderef(v):
    while isinstance(v, (Cell, Var, FieldRef)):
        v = v.get()
    return v


def deepv(v):
    if isinstance(v, list):
        return [deepv(x) for x in v]
    if isinstance(v, dict):
        return {k: deepv(x) for k, x in v.items()}
    if isinstance(v, tuple):
        return tuple(deepv(x) for x in v)
    return v


class CxS(Cx):
    def __init__(self, facts, max_steps=400000, extern=None):
        super().__init__(facts, max_steps, extern)
        self._impl_cache = {}

    # ---- impl resolution for overloaded operators
    def impl_for(self, trait_method, ty, arg_ty=None):
        """body path of `<impl Trait.. for ty>::method`"""
        ty = (ty or "").replace("&mut ", "").replace("&", "").strip()
        key = (trait_method, ty, arg_ty)
        if key in self._impl_cache:
            return self._impl_cache[key]
        trait, meth = trait_method.rsplit("::", 1)
        cands = []
        for d in self.f.bodies:
            if d.endswith(">::" + meth) and ("impl " + trait) in d and (" for " + ty + ">") in d:
                cands.append(d)
        if arg_ty is not None and len(cands) > 1:
            a = arg_ty.strip()
            pick = [d for d in cands if ("<" + a + ">") in d.split(" for ")[0]]
            if not pick and not a.startswith("&"):
                pick = [d for d in cands if "<&" not in d.split(" for ")[0]]
            cands = pick or cands
        r = cands[0] if len(cands) == 1 else None
        self._impl_cache[key] = r
        return r

    # ---- values
    def e_Struct(self, e, env):
        d = e.get("def") or ""
        if d.startswith("std::ops::Range"):
            r = self.range_of(e, env)
            return list(range(r[0], r[1]))
        out = {"__variant" if e.get("dk") == "Variant" else "__adt": d}
        for f in e.get("fields", []):
            v = dderef(self.ev(f["e"], env))
            out[f["name"]] = v
        if e.get("base") is not None:
            b = dderef(self.ev(e["base"], env))
            for k, v in b.items():
                out.setdefault(k, deepv(v))
        return out

    def e_Path(self, e, env):
        if e.get("res") != "local" and e.get("dk") == "Ctor":
            return {"__variant": e.get("def")}
        return super().e_Path(e, env)

    def e_Field(self, e, env):
        b = dderef(self.ev(e["e"], env))
        if isinstance(b, dict) and e["name"] in b:
            return b[e["name"]]
        if isinstance(b, tuple) and str(e["name"]).isdigit():
            return b[int(e["name"])]
        raise CxUnknown("field %s" % e.get("name"))

    def e_Closure(self, e, env):
        return Closure(e, env)

    def e_AddrOf(self, e, env):
        inner = e["e"]
        if inner.get("k") == "Field":
            v = self.ev(inner, env)
            if isinstance(dderef(v), (list, dict)):
                return dderef(v)
            if e.get("mut"):
                return self.place(inner, env)
            return v
        v = super().e_AddrOf(e, env) if inner.get("k") != "Index" or not self._is_adt_index(inner) else self.ev(inner, env)
        return v

    def _is_adt_index(self, e):
        bt = (e.get("base_ty") or e["e"].get("ty") or "")
        return "matrix::base::Matrix" in bt and "Vec" not in bt

    # ---- places
    def place(self, e, env):
        k = e.get("k")
        if k == "Field":
            b = dderef(self.ev(e["e"], env))
            if isinstance(b, dict):
                return FieldRef(b, e["name"])
            raise CxUnknown("field place on %s" % type(b).__name__)
        if k == "Index" and self._is_adt_index(e):
            impl = self.impl_for("std::ops::IndexMut::index_mut", e.get("base_ty") or e["e"].get("ty"))
            if impl is None:
                raise CxUnknown("no IndexMut impl for %s" % (e.get("base_ty") or e["e"].get("ty")))
            r = self.call_fn(impl, [dderef(self.ev(e["e"], env)), dderef(self.ev(e["i"], env))])
            if isinstance(r, (Cell, FieldRef, Var)):
                return r
            raise CxUnknown("index_mut did not return a place")
        if k == "Index":
            base = dderef(self.ev(e["e"], env))
            idx = dderef(self.ev(e["i"], env))
            if isinstance(base, list) and isinstance(idx, int):
                if not 0 <= idx < len(base):
                    raise CxPanic("index %d out of bounds (len %d)" % (idx, len(base)))
                if isinstance(base[idx], (Cell, FieldRef)):
                    return base[idx]      # a window of references (chunks_mut, split_at_mut of scalars): write through
                return Cell(base, idx)
            raise CxUnknown("index on %s" % type(base).__name__)
        if k == "Unary" and e.get("op") == "Deref":
            v = self.ev(e["e"], env)
            if isinstance(v, (Cell, Var, FieldRef)):
                return v
            if isinstance(v, dict):
                return _Whole(v)
            if e["e"].get("k") == "Path":
                return Var(env, e["e"]["id"])
            raise CxUnknown("deref place")
        return super().place(e, env)

    def e_Index(self, e, env):
        if self._is_adt_index(e):
            impl = self.impl_for("std::ops::Index::index", e.get("base_ty") or e["e"].get("ty"))
            if impl is None:
                raise CxUnknown("no Index impl for %s" % (e.get("base_ty") or e["e"].get("ty")))
            return self.call_fn(impl, [dderef(self.ev(e["e"], env)), dderef(self.ev(e["i"], env))])
        base = dderef(self.ev(e["e"], env))
        rng = self.range_of(e["i"], env) if e["i"].get("k") in ("Struct", "Call") else None
        if rng is not None and isinstance(base, list):
            lo, hi = rng
            lo_, hi_ = (lo or 0), (len(base) if hi is None else hi)
            if not (0 <= lo_ <= hi_ <= len(base)):
                raise CxPanic("range %s..%s out of bounds (len %d)" % (lo_, hi_, len(base)))
            if "mut" in (e.get("ty") or "") or "M" in (e.get("adj") or "") or any(isinstance(x, Cell) for x in base[lo_:hi_]):
                # a mutable sub-slice is a window onto the same elements, not a copy
                return [x if isinstance(x, (Cell, list, dict)) else Cell(base, i_) for i_, x in zip(range(lo_, hi_), base[lo_:hi_])]
            return base[lo_:hi_]
        idx = dderef(self.ev(e["i"], env))
        if isinstance(base, list) and isinstance(idx, int):
            if not 0 <= idx < len(base):
                raise CxPanic("index %d out of bounds (len %d)" % (idx, len(base)))
            return base[idx]
        raise CxUnknown("index")

    def e_Assign(self, e, env):
        v = dderef(self.ev(e["r"], env))
        p = self.place(e["l"], env)
        p.set(v)
        return None

    def e_AssignOp(self, e, env):
        if e.get("def") and not self._prim(e["l"].get("ty")):
            raise CxUnknown("overloaded compound assignment")
        p = self.place(e["l"], env)
        r = dderef(self.ev(e["r"], env))
        op = e["op"].replace("Assign", "")
        p.set(self.arith(op, dderef(p.get()), r, e["l"].get("ty")))
        return None

    @staticmethod
    def _prim(ty):
        return (ty or "").replace("&mut ", "").replace("&", "") in ("f64", "f32", "usize", "isize", "i32", "i64", "u32", "u64", "bool", "u8", "i8", "u16", "i16")

    def e_Binary(self, e, env):
        if e.get("def") and e["op"] in ("Eq", "Ne") and not self._prim(e["l"].get("ty")):
            # derived PartialEq on aggregates: structural comparison
            l, r = dderef(self.ev(e["l"], env)), dderef(self.ev(e["r"], env))
            if isinstance(l, str) and isinstance(r, str):
                return (l == r) if e["op"] == "Eq" else (l != r)
            if isinstance(l, (dict, list, tuple)) or isinstance(r, (dict, list, tuple)):
                eq = self.struct_eq(l, r)
                return eq if e["op"] == "Eq" else not eq
            return self.arith(e["op"], l, r, e["l"].get("ty"))
        if e.get("def") and e["op"] not in ("And", "Or") and not self._prim(e["l"].get("ty")):
            tm = e["def"]
            impl = self.impl_for(tm, e["l"].get("ty"), e["r"].get("ty"))
            if impl is None:
                raise CxUnknown("no impl of %s for %s" % (tm, e["l"].get("ty")))
            return self.call_fn(impl, [dderef(self.ev(e["l"], env)), dderef(self.ev(e["r"], env))])
        if e["op"] in ("And", "Or"):
            l = bool(dderef(self.ev(e["l"], env)))
            if e["op"] == "And":
                return l and bool(dderef(self.ev(e["r"], env)))
            return l or bool(dderef(self.ev(e["r"], env)))
        l, r = dderef(self.ev(e["l"], env)), dderef(self.ev(e["r"], env))
        if isinstance(l, dict) or isinstance(r, dict):
            if e["op"] in ("Eq", "Ne"):
                eq = self.struct_eq(l, r)
                return eq if e["op"] == "Eq" else not eq
            raise CxUnknown("binary %s on aggregates" % e["op"])
        return self.arith(e["op"], l, r, e.get("ty") if e["op"] not in ("Lt", "Le", "Gt", "Ge", "Eq", "Ne") else e["l"].get("ty"))

    def struct_eq(self, a, b):
        if isinstance(a, dict) and isinstance(b, dict):
            if a.get("__variant") != b.get("__variant") or a.get("__adt") != b.get("__adt"):
                return False
            return all(self.struct_eq(a[k], b.get(k)) for k in a if not k.startswith("__"))
        if isinstance(a, list) and isinstance(b, list):
            return len(a) == len(b) and all(self.struct_eq(x, y) for x, y in zip(a, b))
        if isinstance(a, (Poly, int, bool)) and isinstance(b, (Poly, int, bool)):
            return self.truth("Eq", a, b)
        return a == b

    def arith(self, op, l, r, ty=None):
        # signed integer subtraction must not trip the unsigned-underflow guard
        if isinstance(l, int) and isinstance(r, int) and not isinstance(l, bool) and op == "Sub" and (ty or "").startswith("i"):
            return l - r
        return super().arith(op, l, r, ty)

    def e_Cast(self, e, env):
        v = dderef(self.ev(e["e"], env))
        ty = e.get("ty") or ""
        if ty.startswith("u") and isinstance(v, int) and not isinstance(v, bool) and v < 0:
            raise CxUnknown("cast of a negative value to %s" % ty)
        if ty in ("f64", "f32") and isinstance(v, int) and not isinstance(v, bool):
            from fractions import Fraction
            return Poly.const(Fraction(v))
        if isinstance(v, int) or isinstance(v, Poly):
            if ty in ("f64", "f32"):
                return v
            if isinstance(v, int):
                return v
            if v.is_const():
                return int(v.const_value())
            raise CxUnknown("cast of symbolic value to integer")
        return v

    # ---- patterns
    def pmatch(self, pat, v, env):
        k = pat.get("k")
        v0 = v
        v = dderef(v)
        if k == "PWild":
            return True
        if k == "PBind":
            mode = pat.get("mode") or ""
            ty = pat.get("ty") or ""
            if ("Ref" in mode or ty.startswith("&")) and isinstance(v0, (Cell, Var, FieldRef)):
                env[pat["id"]] = v0 if ty.startswith("&mut") else (v0 if isinstance(v, (list, dict)) else v)
            else:
                env[pat["id"]] = v
            if pat.get("sub"):
                return self.pmatch(pat["sub"], v, env)
            return True
        if k in ("PRef", "PDeref", "PBox"):
            return self.pmatch(pat["pat"], v0, env)
        if k == "PTuple":
            if not isinstance(v, tuple) or len(v) != len(pat["pats"]):
                raise CxUnknown("tuple pattern against %s" % type(v).__name__)
            return all(self.pmatch(p, x, env) for p, x in zip(pat["pats"], v))
        if k == "PStruct":
            if not isinstance(v, dict):
                raise CxUnknown("struct pattern against %s" % type(v).__name__)
            if pat.get("dk") == "Variant" and v.get("__variant") != pat.get("def"):
                return False
            for f in pat.get("fields", []):
                if f["name"] not in v:
                    raise CxUnknown("field %s missing" % f["name"])
                sub = f["pat"]
                val = v[f["name"]]
                # bindings by reference alias the field
                if sub.get("k") == "PBind" and (("Ref" in (sub.get("mode") or "")) or (sub.get("ty") or "").startswith("&")):
                    env[sub["id"]] = val if isinstance(val, (list, dict)) else FieldRef(v, f["name"])
                    continue
                if not self.pmatch(sub, val, env):
                    return False
            return True
        if k == "PTupleStruct":
            if not isinstance(v, dict) or "__variant" not in v:
                raise CxUnknown("tuple-struct pattern against %s" % type(v).__name__)
            want = (pat.get("def") or pat.get("ctor_of") or "").rsplit("::", 1)[-1]
            if v["__variant"].rsplit("::", 1)[-1] != want:
                return False
            for i_, sub in enumerate(pat.get("pats", [])):
                if str(i_) not in v:
                    if sub.get("k") == "PWild":
                        continue
                    raise CxUnknown("tuple-struct field %d missing" % i_)
                if not self.pmatch(sub, v[str(i_)], env):
                    return False
            return True
        if k == "PPath":
            if isinstance(v, dict):
                return (v.get("__variant") or "").rsplit("::", 1)[-1] == (pat.get("def") or pat.get("ctor_of") or "").rsplit("::", 1)[-1]
            c = self.const_of(pat.get("def"))
            return self.truth("Eq", v, c)
        if k == "PLit":
            if pat.get("e") is not None:
                return self.truth("Eq", v, self.ev(pat["e"], env))
            if pat.get("lk") in ("Str", "Char"):
                return isinstance(v, str) and v == str(pat.get("v"))
            if pat.get("lk") in ("Int", "Float", "Bool"):
                lv = self.e_Lit(dict(pat, k="Lit"), env)
                if pat.get("neg"):
                    lv = -lv
                return self.truth("Eq", v, lv)
            raise CxUnknown("literal pattern %s" % pat.get("lk"))
        if k == "POr":
            return any(self.pmatch(p, v0, env) for p in pat["pats"])
        raise CxUnknown("pattern %s" % k)

    def bind(self, pat, v, env):
        if pat.get("k") in ("PBind",):
            ty = pat.get("ty") or ""
            vv = dderef(v)
            if isinstance(vv, (list, dict, Closure)):
                env[pat["id"]] = vv
            elif ty.startswith("&mut") and isinstance(v, (Cell, Var, FieldRef)):
                env[pat["id"]] = v
            else:
                env[pat["id"]] = vv
            if pat.get("sub"):
                self.bind(pat["sub"], v, env)
            return
        if not self.pmatch(pat, v, env):
            raise CxUnknown("refutable pattern in a binding")

    def e_Match(self, e, env):
        v = self.ev(e["scrut"], env)
        for arm in e.get("arms", []):
            trial = dict(env)
            if self.pmatch(arm["pat"], v, trial):
                if arm.get("guard") is not None:
                    if not dderef(self.ev(arm["guard"], trial)):
                        continue
                # commit bindings (ids are unique within a body)
                env.update(trial)
                return self.ev(arm["body"], env)
        raise CxUnknown("no match arm applies")

    def e_If(self, e, env):
        c = e["cond"]
        if c.get("k") == "LetExpr":
            v = self.ev(c["init"], env)
            trial = dict(env)
            if self.pmatch(c["pat"], v, trial):
                env.update(trial)
                return self.ev(e["then"], env)
            return self.ev(e["else"], env) if e.get("else") is not None else None
        try:
            cv = dderef(self.ev(c, env))
        except CxUnknown as ex:
            return self.undecided_if(e, env, ex)
        if cv:
            return self.ev(e["then"], env)
        if e.get("else") is not None:
            return self.ev(e["else"], env)
        return None

    # ---- calls
    def call_closure(self, cl, args):
        ps = cl.node.get("params") or []
        if len(ps) != len(args):
            raise CxUnknown("closure arity")
        env = cl.env
        for p, a in zip(ps, args):
            self.bind(p, a, env)
        try:
            return self.ev(cl.node["body"], env)
        except _Return as r:
            return r.value

    def e_Call(self, e, env):
        d = e.get("def") or ""
        fnode = e.get("f") or {}
        if fnode.get("k") == "Path" and fnode.get("res") == "local":
            cl = dderef(env.get(fnode["id"]))
            if isinstance(cl, Closure):
                return self.call_closure(cl, [self.ev(a, env) for a in e["args"]])
        if d in ("std::mem::replace", "core::mem::replace") and len(e["args"]) == 2:
            dest = self.ev(e["args"][0], env)
            new = dderef(self.ev(e["args"][1], env))
            tgt = dderef(dest)
            if isinstance(tgt, dict) and isinstance(new, dict):
                old = dict(tgt)
                tgt.clear()
                tgt.update(new)
                return old
            if isinstance(dest, (Cell, Var, FieldRef)):
                old = dest.get()
                dest.set(new)
                return old
            raise CxUnknown("mem::replace target")
        if d in ("std::mem::take", "core::mem::take") and len(e["args"]) == 1:
            dest = self.ev(e["args"][0], env)
            tgt = dderef(dest)
            if isinstance(tgt, list):
                old = list(tgt)
                del tgt[:]
                return old
            raise CxUnknown("mem::take target")
        if "panicking::" in d or d.endswith("::panic_fmt") or d.endswith("panic_display") or d.endswith("assert_failed"):
            raise CxPanic(d.split("::")[-1])
        if d.startswith("std::fmt::") or d.startswith("core::fmt::"):
            return None
        # vec![a, b, c] (array literal moved into a box, then into a Vec)
        if d.endswith("box_assume_init_into_vec_unsafe") and len(e["args"]) == 1:
            return dderef(self.ev(e["args"][0], env))
        if d.endswith("write_box_via_move") and len(e["args"]) == 2:
            return dderef(self.ev(e["args"][1], env))
        if d.endswith("new_uninit") or d.endswith("Box::<T>::new_uninit"):
            return None
        if d.endswith("slice::<impl [T]>::into_vec") or d.endswith("::into_vec"):
            return dderef(self.ev(e["args"][0], env))
        if d.endswith("Vec::<T>::with_capacity") or d.endswith("Vec::<T>::new"):
            return []
        if e.get("dk") == "Ctor" or fnode.get("dk") == "Ctor":
            # a tuple-struct / enum-variant constructor: Ok(x), Some(x), Err(e), Wrapper(a, b)
            v = {"__adt": d.rsplit("::", 1)[0], "__variant": d}
            for i_, a_ in enumerate(e["args"]):
                v[str(i_)] = dderef(self.ev(a_, env))
            return v
        return super().e_Call(e, env)

    def e_MethodCall(self, e, env):
        nm = e.get("name")
        d = e.get("def") or ""
        if self.extern is not None:
            r = self.extern(self, e, d, env)
            if r is not NotImplemented:
                return r
        if d in self.f.bodies:
            return self.call_fn(d, [self.ev(e["recv"], env)] + [self.ev(a, env) for a in e["args"]])
        recv = self.ev(e["recv"], env)
        rv = dderef(recv)
        args = e["args"]
        if isinstance(rv, dict) and nm == "clone":
            return deepv(rv)
        if isinstance(rv, list):
            if nm == "map" and len(args) == 1:
                cl = dderef(self.ev(args[0], env))
                if isinstance(cl, Closure):
                    return [self.call_closure(cl, [x]) for x in rv]
            if nm in ("collect", "into_iter", "iter", "copied", "cloned", "to_vec", "into_vec"):
                return [dderef(x) if not isinstance(x, tuple) else x for x in rv] if nm in ("collect", "copied", "cloned", "to_vec", "into_vec") else rv
            if nm == "iter_mut":
                return [x if isinstance(x, (Cell, FieldRef)) else Cell(rv, i) for i, x in enumerate(rv)]
            if nm == "zip" and len(args) == 1:
                o = dderef(self.ev(args[0], env))
                if isinstance(o, list):
                    return list(zip(rv, o))
            if nm == "enumerate":
                return list(enumerate(rv))
            if nm == "rev":
                return list(reversed(rv))
            if nm == "for_each" and len(args) == 1:
                cl = dderef(self.ev(args[0], env))
                if isinstance(cl, Closure):
                    for x in rv:
                        self.call_closure(cl, [x])
                    return None
            if nm == "sum":
                s = Poly()
                for x in rv:
                    s = s + dderef(x)
                return s
            if nm == "fold" and len(args) == 2:
                acc = dderef(self.ev(args[0], env))
                cl = dderef(self.ev(args[1], env))
                if isinstance(cl, Closure):
                    for x in rv:
                        acc = self.call_closure(cl, [acc, x])
                    return acc
            if nm == "step_by" and len(args) == 1:
                n_ = dderef(self.ev(args[0], env))
                if isinstance(n_, int) and n_ > 0:
                    return rv[::n_]
            if nm in ("take", "skip") and len(args) == 1:
                n_ = dderef(self.ev(args[0], env))
                if isinstance(n_, int):
                    return rv[:n_] if nm == "take" else rv[n_:]
            if nm == "chain" and len(args) == 1:
                o = dderef(self.ev(args[0], env))
                if isinstance(o, list):
                    return list(rv) + list(o)
            if nm in ("filter", "take_while", "skip_while", "all", "any", "position", "find") and len(args) == 1:
                cl = dderef(self.ev(args[0], env))
                if isinstance(cl, Closure):
                    def test(x):
                        r_ = self.call_closure(cl, [x])
                        if not isinstance(r_, bool):
                            raise CxUnknown("iterator predicate is not decided")
                        return r_
                    if nm == "filter":
                        return [x for x in rv if test(x)]
                    if nm == "all":
                        return all(test(x) for x in rv)
                    if nm == "any":
                        return any(test(x) for x in rv)
                    if nm in ("position", "find"):
                        for i_, x in enumerate(rv):
                            if test(x):
                                payload = i_ if nm == "position" else x
                                return {"__adt": "std::option::Option", "__variant": "std::option::Option::Some", "0": payload}
                        return {"__adt": "std::option::Option", "__variant": "std::option::Option::None"}
                    out_, dropping = [], True
                    for x in rv:
                        if nm == "take_while":
                            if not test(x):
                                break
                            out_.append(x)
                        else:
                            if dropping and test(x):
                                continue
                            dropping = False
                            out_.append(x)
                    return out_
            if nm == "count" and not args:
                return len(rv)
            if nm in ("chunks_exact_mut", "chunks_mut", "chunks_exact", "chunks") and len(args) == 1:
                n_ = dderef(self.ev(args[0], env))
                if isinstance(n_, int) and n_ > 0:
                    stop = len(rv) - (len(rv) % n_) if "exact" in nm else len(rv)
                    if nm.endswith("_mut"):
                        return [[Cell(rv, i) for i in range(a_, min(a_ + n_, stop))] for a_ in range(0, stop, n_)]
                    return [rv[a_:min(a_ + n_, stop)] for a_ in range(0, stop, n_)]
            if nm in ("split_at_mut", "split_at") and len(args) == 1:
                n_ = dderef(self.ev(args[0], env))
                if isinstance(n_, int) and 0 <= n_ <= len(rv):
                    if all(isinstance(x, list) for x in rv):
                        return (rv[:n_], rv[n_:])          # rows are shared objects: writes through either half are seen
                    if nm == "split_at":
                        return (rv[:n_], rv[n_:])
                    return ([Cell(rv, i) for i in range(n_)], [Cell(rv, i) for i in range(n_, len(rv))])
                if isinstance(n_, int):
                    raise CxPanic("split_at(%d) of a slice of length %d" % (n_, len(rv)))
            if nm == "push" and len(args) == 1:
                rv.append(dderef(self.ev(args[0], env)))
                return None
            if nm in ("resize",) and len(args) == 2:
                n_ = dderef(self.ev(args[0], env))
                v_ = dderef(self.ev(args[1], env))
                while len(rv) < n_:
                    rv.append(deepv(v_))
                del rv[n_:]
                return None
        if isinstance(rv, int) and not isinstance(rv, bool):
            if nm in ("min", "max") and len(args) == 1:
                o = dderef(self.ev(args[0], env))
                return min(rv, o) if nm == "min" else max(rv, o)
            if nm in ("saturating_sub",) and len(args) == 1:
                return max(0, rv - dderef(self.ev(args[0], env)))
            if nm in ("abs",):
                return abs(rv)
            if nm == "abs_diff" and len(args) == 1:
                return abs(rv - dderef(self.ev(args[0], env)))
        # fall back to the scalar / list methods of the base evaluator (re-evaluates the receiver: it is pure)
        return super().e_MethodCall(e, env)

    def iterate(self, it, env):
        try:
            return super().iterate(it, env)
        except CxUnknown:
            v = dderef(self.ev(it, env))
            if isinstance(v, list):
                return v
            raise

    def e_Let(self, e, env):
        if e.get("init") is None:
            return None
        v = self.ev(e["init"], env)
        if e.get("els") is not None:
            trial = dict(env)
            if self.pmatch(e["pat"], v, trial):
                env.update(trial)
                return None
            return self.ev(e["els"], env)
        self.bind(e["pat"], v, env)
        return None

    def e_Tuple(self, e, env):
        return tuple(dderef(self.ev(x, env)) for x in e["elems"])


class _Whole:
    """place denoting a whole aggregate behind a reference (`*self = ..`): assignment replaces the contents in place"""
    __slots__ = ("obj",)

    def __init__(self, obj):
        self.obj = obj

    def get(self):
        return self.obj

    def set(self, v):
        if not isinstance(v, dict):
            raise CxUnknown("assignment of a non-aggregate through an aggregate reference")
        new = dict(v)
        self.obj.clear()
        self.obj.update(new)
