"""Extractor cross-check: the typed syntax tree (TAST) and the MIR of a function are two independent serialisations of the
same program. For every function the multiset of resolved crate-local callees (functions, trait methods, overloaded
operators, index impls) found by walking the TAST must equal the multiset of MIR `Call` terminators. A serializer that
silently dropped an expression kind would otherwise let a counting / pairing rule pass vacuously."""
import collections

STD = ("std::", "core::", "alloc::", "<std", "<core", "<alloc")


def is_local(d):
    return bool(d) and not d.startswith(STD) and "::alloc::intrinsics::" not in d


def tast_callees(body):
    c = collections.Counter()

    def walk(n):
        if isinstance(n, list):
            for x in n:
                walk(x)
        elif isinstance(n, dict):
            if n.get("k") == "Closure":
                return   # closures are separate bodies in both views
            if n.get("k") in ("Call", "MethodCall", "Index", "Binary", "AssignOp", "Unary") and is_local(n.get("def") or "") and n.get("dk") != "Ctor":
                c[n["def"]] += 1
            for kk, v in n.items():
                if isinstance(v, (dict, list)) and not kk.startswith("_"):
                    walk(v)
    walk(body)
    return c


def mir_callees(m):
    c = collections.Counter()
    for bl in m["blocks"]:
        t = bl.get("term") or {}
        if t.get("k") == "Call" and is_local(t.get("callee") or ""):
            c[t["callee"]] += 1
    return c


def mismatches(f, names=None):
    """[(fn, {callee: (n_tast, n_mir)})] ; also returns the number of functions compared and of callees matched"""
    out = []
    n_fn = n_calls = 0
    for name, b in f.bodies.items():
        if names is not None and name not in names:
            continue
        m = f.mir.get(name)
        if m is None:
            continue
        tc, mc = tast_callees(b["body"]), mir_callees(m)
        n_fn += 1
        n_calls += sum(mc.values())
        if tc != mc:
            out.append((name, {k: (tc.get(k, 0), mc.get(k, 0)) for k in set(tc) | set(mc) if tc.get(k, 0) != mc.get(k, 0)}))
    return out, n_fn, n_calls
