"""Exact multivariate Laurent polynomials over named atoms, Fraction coefficients.

An atom is a string. Opaque function applications are atoms too, hash-consed by their
canonical text (`abs[<poly>]`), with their structure kept in DEFS for rules that need to
look inside (e.g. "the vector divided by the tolerance scale in the norm").
"""
from fractions import Fraction
from decimal import Decimal

DEFS = {}  # atom name -> (op, [args...])   args are Poly or python values
ATOM_TY = {}  # atom name -> Rust type of the variable it stands for (when known)


class Poly:
    __slots__ = ("t",)

    def __init__(self, terms=None):
        # terms: dict[ tuple((atom, exp), ...) sorted ] -> Fraction
        self.t = terms or {}

    # ---- constructors
    @staticmethod
    def const(c):
        c = Fraction(c)
        return Poly({(): c}) if c != 0 else Poly()

    @staticmethod
    def atom(name):
        return Poly({((name, 1),): Fraction(1)})

    # ---- queries
    def is_zero(self):
        return not self.t

    def is_const(self):
        return all(m == () for m in self.t)

    def const_value(self):
        if not self.t:
            return Fraction(0)
        if self.is_const():
            return self.t[()]
        return None

    def atoms(self):
        s = set()
        for m in self.t:
            for a, _ in m:
                s.add(a)
        return s

    def single_atom(self):
        """name if self is exactly 1*atom, else None"""
        if len(self.t) == 1:
            (m, c), = self.t.items()
            if c == 1 and len(m) == 1 and m[0][1] == 1:
                return m[0][0]
        return None

    def __eq__(self, o):
        if not isinstance(o, Poly):
            return NotImplemented
        return self.t == o.t

    def __hash__(self):
        return hash(frozenset(self.t.items()))

    # ---- arithmetic
    def __add__(self, o):
        o = as_poly(o)
        r = dict(self.t)
        for m, c in o.t.items():
            v = r.get(m, 0) + c
            if v == 0:
                r.pop(m, None)
            else:
                r[m] = v
        return Poly(r)

    __radd__ = __add__

    def __neg__(self):
        return Poly({m: -c for m, c in self.t.items()})

    def __sub__(self, o):
        return self + (-as_poly(o))

    def __rsub__(self, o):
        return as_poly(o) - self

    def __mul__(self, o):
        o = as_poly(o)
        r = {}
        for m1, c1 in self.t.items():
            for m2, c2 in o.t.items():
                m = _mmul(m1, m2)
                v = r.get(m, 0) + c1 * c2
                if v == 0:
                    r.pop(m, None)
                else:
                    r[m] = v
        return Poly(r)

    __rmul__ = __mul__

    def __pow__(self, k):
        if k < 0:
            inv = self.inverse()
            if inv is None:
                if self.is_zero():
                    raise ValueError("no inverse")
                inv = opaque("inv", [self])
            return inv ** (-k)
        r = Poly.const(1)
        for _ in range(k):
            r = r * self
        return r

    def inverse(self):
        """Inverse if self is a single monomial term, else None."""
        if len(self.t) != 1:
            return None
        (m, c), = self.t.items()
        return Poly({tuple((a, -e) for a, e in m): 1 / c})

    def div(self, o):
        """self / o: exact when o is a monomial; otherwise an `inv[...]` atom is used."""
        o = as_poly(o)
        inv = o.inverse()
        if inv is not None:
            return self * inv
        if o.is_zero():
            return opaque("div0", [self])
        if self.is_zero():
            return Poly()
        # exact polynomial division when it happens to be a scalar multiple
        return self * opaque("inv", [o])

    # ---- structure
    def subst(self, mapping):
        """Replace atoms by polynomials (simultaneously)."""
        if not any(a in mapping for a in self.atoms()):
            return self
        r = Poly()
        for m, c in self.t.items():
            term = Poly.const(c)
            for a, e in m:
                if a in mapping:
                    term = term * (as_poly(mapping[a]) ** e)
                else:
                    term = term * Poly({((a, e),): Fraction(1)})
            r = r + term
        return r

    def collect(self, atom):
        """dict power -> Poly coefficient (w.r.t. one atom)"""
        out = {}
        for m, c in self.t.items():
            p = 0
            rest = []
            for a, e in m:
                if a == atom:
                    p = e
                else:
                    rest.append((a, e))
            out.setdefault(p, {})
            rest = tuple(rest)
            out[p][rest] = out[p].get(rest, 0) + c
        return {p: Poly({m: c for m, c in d.items() if c != 0}) for p, d in out.items()}

    def linear_in(self, atoms):
        """Decompose as sum_a coef_a * a + rest where a in atoms, each monomial has at most one
        such atom at power 1, and coefficients are free of `atoms`. Returns (dict, rest) or None."""
        atoms = set(atoms)
        co = {}
        rest = {}
        for m, c in self.t.items():
            hit = [(a, e) for a, e in m if a in atoms]
            if not hit:
                rest[m] = c
                continue
            if len(hit) != 1 or hit[0][1] != 1:
                return None
            a = hit[0][0]
            mm = tuple(x for x in m if x[0] != a)
            co.setdefault(a, {})
            co[a][mm] = co[a].get(mm, 0) + c
        return {a: Poly(d) for a, d in co.items()}, Poly(rest)

    def __repr__(self):
        if not self.t:
            return "0"
        parts = []
        for m in sorted(self.t, key=lambda m: (len(m), m)):
            c = self.t[m]
            ms = "*".join(a if e == 1 else "%s^%d" % (a, e) for a, e in m)
            if not ms:
                parts.append(str(c))
            elif c == 1:
                parts.append(ms)
            elif c == -1:
                parts.append("-" + ms)
            else:
                parts.append("%s*%s" % (c, ms))
        return " + ".join(parts)


def _mmul(m1, m2):
    if not m1:
        return m2
    if not m2:
        return m1
    d = dict(m1)
    for a, e in m2:
        v = d.get(a, 0) + e
        if v == 0:
            d.pop(a, None)
        else:
            d[a] = v
    return tuple(sorted(d.items()))


def as_poly(x):
    if isinstance(x, Poly):
        return x
    if isinstance(x, (int, Fraction)):
        return Poly.const(x)
    raise TypeError("not a poly: %r" % (x,))


def opaque(op, args, tag=None):
    """Hash-consed opaque application atom."""
    name = "%s[%s]" % (op, ",".join(repr(a) for a in args))
    if tag is not None:
        name += "#" + str(tag)
    if len(name) > 400:
        import hashlib
        name = "%s[..%s]" % (op, hashlib.sha1(name.encode()).hexdigest()[:16])
    if name not in DEFS:
        DEFS[name] = (op, list(args))
    return Poly.atom(name)


_fresh = [0]


def fresh(prefix, inputs=None, op="phi"):
    _fresh[0] += 1
    name = "%s#%d" % (prefix, _fresh[0])
    if inputs is not None:
        DEFS[name] = (op, [x for x in inputs if isinstance(x, Poly)])
    return Poly.atom(name)


def reaches(p, pred, seen=None):
    """True if some atom satisfying pred is reachable from poly p through DEFS."""
    if seen is None:
        seen = set()
    stack = list(p.atoms())
    while stack:
        a = stack.pop()
        if a in seen:
            continue
        seen.add(a)
        if pred(a):
            return True
        d = DEFS.get(a)
        if d:
            for x in d[1]:
                if isinstance(x, Poly):
                    stack.extend(x.atoms())
    return False


def lit_fraction(text):
    """Exact value of a Rust float / int literal as written."""
    t = text.replace("_", "")
    return Fraction(Decimal(t))


def const_ratio(d, s):
    """Fraction q with d == q*s, or None"""
    if s.is_zero():
        return None
    if d.is_zero():
        return Fraction(0)
    m0 = next(iter(s.t))
    if m0 not in d.t:
        return None
    q = d.t[m0] / s.t[m0]
    return q if (d - s * Poly.const(q)).is_zero() else None
