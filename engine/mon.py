"""MON: monitor automata over structured control flow (all paths).

A rule supplies a Monitor: hashable states, `step(state, event) -> iterable of states`
(empty = path pruned), and reports violations through `self.violate`. The interpreter
walks the TAST in evaluation order and carries, per program point, the *set* of monitor
states reachable there (with one witness trail each). Loops run to a fix-point.

Events delivered to Monitor.step (kind, node, extra):
  ("node", n)            after the sub-expressions of n were evaluated (any expression/stmt kind)
  ("pre", n)             before a Loop / For / If / Match is entered
  ("then", if) ("else", if)      on entering a branch (use for refinement; return [] to prune)
  ("arm", match, j)      on entering arm j
  ("loop_head", loop)    each time control reaches the head of a `loop`/`while`
  ("for_head", for)      head of a `for`
  ("break", n) ("continue", n) ("return", n)
  ("fn_end", body)       normal end of the function body
"""

MAX_TRAIL = 14
FACTS = None      # set by facts.load(): lets the walker step into private crate-local helpers (see inlinable())


class Monitor:
    init = (0,)

    def __init__(self):
        self.violations = []   # (key, msg, node, trail)
        self._seen = set()

    def step(self, st, ev):
        return (st,)

    def violate(self, key, msg, node=None, trail=()):
        if key in self._seen:
            return
        self._seen.add(key)
        self.violations.append((key, msg, node, trail))

    def describe(self, ev):
        """text appended to the witness trail when the event changes the state"""
        n = ev[1]
        sp = n.get("sp") if isinstance(n, dict) else None
        return "%s@%s" % (ev[0] if ev[0] != "node" else n.get("k"), sp)


class Flow:
    """Set of monitor states with witness trails."""

    def __init__(self, d=None):
        self.d = d or {}

    def states(self):
        return self.d.keys()

    def empty(self):
        return not self.d

    def union(self, o):
        if o is None or o.empty():
            return self
        if self.empty():
            return o
        d = dict(self.d)
        for s, t in o.d.items():
            if s not in d or len(t) < len(d[s]):
                d[s] = t
        return Flow(d)

    def same_states(self, o):
        return set(self.d) == set(o.d)


EMPTY = Flow()


class Runner:
    def __init__(self, monitor, enter_closures=False, inline=True):
        self.m = monitor
        self.exits = []   # stack of dicts: ('break'|'continue', id) / 'return' -> Flow
        self.enter_closures = enter_closures
        self.max_iter = 40
        self.inline = inline
        self._inl = []    # stack of helper defs being walked in place
        self._sites = []  # the call nodes through which the walker entered them
        self._pmap = []   # per helper: parameter id -> argument expression at the call site
        monitor.runner = self

    def site(self):
        """identifies the calling context of the node being visited (a push inside a helper counts once per call site)"""
        return tuple(id(x) for x in self._sites)

    def resolve(self, e):
        """an expression that is a parameter of a helper walked in place stands for the caller's argument"""
        for _ in range(4):
            inner = e
            while inner.get("k") in ("AddrOf", "Cast"):
                inner = inner["e"]
            if inner.get("k") == "Path" and inner.get("res") == "local":
                for pm in reversed(self._pmap):
                    if inner["id"] in pm:
                        e = pm[inner["id"]]
                        break
                else:
                    return e
            else:
                return e
        return e

    def inline_target(self, n):
        """body of the private crate-local helper called by n, if the walker should step into it (a few lines extracted
        into a helper are still part of the function as far as pairing / ordering rules are concerned)"""
        if not self.inline or FACTS is None or n.get("k") not in ("Call", "MethodCall"):
            return None
        d = n.get("def") or ""
        if d in self._inl or len(self._inl) >= 2 or not FACTS.inlinable(d):
            return None
        return FACTS.bodies.get(d)

    # ---- event delivery
    def deliver(self, flow, ev):
        if flow.empty():
            return flow
        out = {}
        for st, trail in flow.d.items():
            self.m.cur_trail = trail
            res = self.m.step(st, ev)
            if res is None:
                res = (st,)
            for ns in res:
                t = trail
                if ns != st:
                    t = (trail + (self.m.describe(ev),))[-MAX_TRAIL:]
                if ns not in out or len(t) < len(out[ns]):
                    out[ns] = t
        return Flow(out)

    # ---- exits
    def add_exit(self, key, flow):
        if flow.empty():
            return
        frame = self.exits[-1]
        frame[key] = frame.get(key, EMPTY).union(flow)

    def run_fn(self, body, init_states=None):
        """Returns (fallthrough flow at fn end merged with returns)."""
        self.exits.append({})
        f = Flow({s: () for s in (init_states or self.m.init)})
        out = self.ex(body["body"], f)
        out = self.deliver(out, ("fn_end", body))
        frame = self.exits.pop()
        ret = frame.get("return", EMPTY)
        return out.union(ret), frame

    # ---- expression evaluation (evaluation order!)
    def ex(self, n, f):
        if n is None or f.empty():
            return f
        k = n.get("k")
        m = getattr(self, "x_" + k, None)
        if m is not None:
            return m(n, f)
        # generic: children in field order, then the node itself
        for key in ORDER.get(k, ()):
            v = n.get(key)
            if isinstance(v, list):
                for x in v:
                    if isinstance(x, dict) and "k" in x:
                        f = self.ex(x, f)
                    elif isinstance(x, dict) and "e" in x:
                        f = self.ex(x["e"], f)
            elif isinstance(v, dict):
                f = self.ex(v, f)
        callee = self.inline_target(n)
        if callee is not None and not f.empty():
            self._inl.append(n.get("def"))
            self._sites.append(n)
            actual = ([n["recv"]] if n.get("k") == "MethodCall" else []) + list(n.get("args", []))
            self._pmap.append({p_["id"]: a_ for p_, a_ in zip(callee.get("params", []), actual) if p_.get("k") == "PBind"})
            self.exits.append({})
            out = self.ex(callee["body"], f)
            frame = self.exits.pop()
            self._inl.pop()
            self._sites.pop()
            self._pmap.pop()
            f = out.union(frame.pop("return", EMPTY))
        return self.deliver(f, ("node", n))

    def x_Block(self, n, f):
        labelled = n.get("bid")
        if labelled:
            self.exits.append({})
        for s in n["stmts"]:
            if f.empty():
                break
            if s["k"] == "Let":
                f = self.ex(s.get("init"), f)
                if s.get("els") is not None:
                    # else-block diverges
                    self.ex(s["els"], f)
                f = self.deliver(f, ("node", s))
            elif s["k"] == "ExprStmt":
                f = self.ex(s["e"], f)
        if not f.empty() and n.get("tail") is not None:
            f = self.ex(n["tail"], f)
        if labelled:
            frame = self.exits.pop()
            f = f.union(frame.pop(("break", labelled), EMPTY))
            for kk, vv in frame.items():
                self.add_exit(kk, vv)
        return f

    def x_Closure(self, n, f):
        if self.enter_closures:
            # the closure may or may not run; both possibilities
            g = self.ex(n["body"], f)
            f = f.union(g)
        return self.deliver(f, ("node", n))

    def x_Binary(self, n, f):
        if n["op"] in ("And", "Or"):
            f = self.ex(n["l"], f)
            g = self.ex(n["r"], f)
            f = f.union(g)
            return self.deliver(f, ("node", n))
        f = self.ex(n["l"], f)
        f = self.ex(n["r"], f)
        return self.deliver(f, ("node", n))

    def x_Assign(self, n, f):
        f = self.ex(n["r"], f)
        f = self.ex(n["l"], f)
        return self.deliver(f, ("node", n))

    def x_AssignOp(self, n, f):
        f = self.ex(n["r"], f)
        f = self.ex(n["l"], f)
        return self.deliver(f, ("node", n))

    def x_If(self, n, f):
        f = self.deliver(f, ("pre", n))
        f = self.ex(n["cond"], f)
        ft = self.deliver(f, ("then", n))
        ft = self.ex(n["then"], ft)
        fe = self.deliver(f, ("else", n))
        if n.get("else") is not None:
            fe = self.ex(n["else"], fe)
        out = ft.union(fe)
        return self.deliver(out, ("node", n))

    def x_Match(self, n, f):
        f = self.deliver(f, ("pre", n))
        f = self.ex(n["scrut"], f)
        out = EMPTY
        for j, a in enumerate(n["arms"]):
            fa = self.deliver(f, ("arm", n, j))
            if a.get("guard") is not None:
                fa = self.ex(a["guard"], fa)
            fa = self.ex(a["body"], fa)
            out = out.union(fa)
        return self.deliver(out, ("node", n))

    def x_Loop(self, n, f):
        lid = n["id"]
        f = self.deliver(f, ("pre", n))
        head = EMPTY
        incoming = f
        breaks = EMPTY
        it = 0
        while True:
            it += 1
            new_head = head.union(incoming)
            if it > 1 and new_head.same_states(head):
                break
            if it > self.max_iter:
                self.m.violate("fixpoint:" + str(lid), "monitor did not reach a fix-point at this loop", n)
                break
            # run the body only from states not seen before at the head
            fresh_states = Flow({s: t for s, t in new_head.d.items() if s not in head.d})
            head = new_head
            self.exits.append({})
            h = self.deliver(fresh_states, ("loop_head", n))
            out = self.ex(n["body"], h)
            frame = self.exits.pop()
            incoming = out.union(frame.pop(("continue", lid), EMPTY))
            incoming = self.deliver(incoming, ("latch", n))
            breaks = breaks.union(frame.pop(("break", lid), EMPTY))
            for kk, vv in frame.items():
                self.add_exit(kk, vv)
        return self.deliver(breaks, ("node", n))

    def x_For(self, n, f):
        lid = n["id"]
        f = self.ex(n["iter"], f)
        f = self.deliver(f, ("pre", n))
        head = EMPTY
        incoming = f
        breaks = EMPTY
        it = 0
        while True:
            it += 1
            new_head = head.union(incoming)
            if it > 1 and new_head.same_states(head):
                break
            if it > self.max_iter:
                self.m.violate("fixpoint:" + str(lid), "monitor did not reach a fix-point at this loop", n)
                break
            fresh_states = Flow({s: t for s, t in new_head.d.items() if s not in head.d})
            head = new_head
            self.exits.append({})
            h = self.deliver(fresh_states, ("for_head", n))
            out = self.ex(n["body"], h)
            frame = self.exits.pop()
            incoming = out.union(frame.pop(("continue", lid), EMPTY))
            breaks = breaks.union(frame.pop(("break", lid), EMPTY))
            for kk, vv in frame.items():
                self.add_exit(kk, vv)
        # the iterator may be exhausted at any head visit
        return self.deliver(head.union(breaks), ("node", n))

    def x_Break(self, n, f):
        f = self.ex(n.get("e"), f)
        f = self.deliver(f, ("break", n))
        self.add_exit(("break", n.get("target")), f)
        return EMPTY

    def x_Continue(self, n, f):
        f = self.deliver(f, ("continue", n))
        self.add_exit(("continue", n.get("target")), f)
        return EMPTY

    def x_Return(self, n, f):
        f = self.ex(n.get("e"), f)
        # a return inside a helper walked in place ends the helper, not the analysed function
        f = self.deliver(f, ("callee_return" if self._inl else "return", n))
        self.add_exit("return", f)
        return EMPTY


ORDER = {
    "Call": ("f", "args"),
    "MethodCall": ("recv", "args"),
    "Unary": ("e",),
    "Field": ("e",),
    "Index": ("e", "i"),
    "AddrOf": ("e",),
    "Cast": ("e",),
    "Struct": ("fields", "base"),
    "Tuple": ("elems",),
    "Array": ("elems",),
    "Repeat": ("e",),
    "LetExpr": ("init",),
    "ExprStmt": ("e",),
}


# ---------------------------------------------------------------- helpers for rules
def is_lit_int(e):
    if e.get("k") == "Lit" and e.get("lk") == "Int":
        return int(e["v"])
    return None


def field_of(e):
    """fdef of a (possibly nested) field lvalue"""
    if e.get("k") == "Field":
        return e.get("fdef")
    return None
