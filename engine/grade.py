"""GRADE: homogeneity degrees of symbolic values.

grade = (deg_m, deg_s):  deg_m = degree in the number of identical copies of the system (a sum over components adds 1,
`n`/len() has degree 1), deg_s = degree in the scale of the state (y, f, k*, atol have degree 1; rtol, h, x degree 0).
Constants are grade-polymorphic (None). Mixed sums / min / max of different grades are INCONSISTENT.
"""
import re
from fractions import Fraction

from poly import Poly, DEFS

POLY = None          # polymorphic (a literal constant)
BAD = "inconsistent"
UNKNOWN = "unknown"


class Grader:
    def __init__(self, atom_grade, call_grade=None):
        self.atom_grade = atom_grade      # fn(atom name) -> (dm, ds) | POLY | UNKNOWN | 'recurse'
        self.call_grade = call_grade      # fn(op, arg grades, args) -> grade or UNKNOWN
        self.memo = {}
        self.issues = []                  # (what, detail)
        self.unknown_atoms = []
        self.strict_sum = False           # a sum over components may only add terms of state-scale degree 0

    def poly(self, p, depth=0):
        if not isinstance(p, Poly):
            return UNKNOWN
        gs = []
        for m, c in p.t.items():
            g = self.mono(m, depth)
            if g == BAD:
                return BAD
            gs.append((g, m))
        return self.combine([g for g, m in gs], "sum", p)

    def combine(self, gs, what, ctx):
        """all non-polymorphic grades must agree"""
        real = [g for g in gs if g is not POLY]
        if any(g == BAD for g in real):
            return BAD
        if any(g == UNKNOWN for g in real):
            return UNKNOWN
        if not real:
            return POLY
        first = real[0]
        for g in real[1:]:
            if g != first:
                self.issues.append((what, "operands of grades %s and %s are combined: %s" % (first, g, repr(ctx)[:160])))
                return BAD
        return first

    def mono(self, m, depth):
        dm, ds = Fraction(0), Fraction(0)
        poly_only = True
        for a, e in m:
            g = self.atom(a, depth)
            if g in (BAD, UNKNOWN):
                return g
            if g is POLY:
                continue
            poly_only = False
            dm += g[0] * e
            ds += g[1] * e
        if poly_only:
            return POLY      # a constant, or a product of grade-polymorphic atoms (literal-like constants, integers)
        return (dm, ds)

    def atom(self, a, depth=0):
        if a in self.memo:
            return self.memo[a]
        self.memo[a] = UNKNOWN
        g = self.atom_grade(a)
        if g == "recurse":
            g = self.by_def(a, depth)
        self.memo[a] = g
        return g

    def by_def(self, a, depth):
        d = DEFS.get(a)
        if d is None or depth > 50:
            return UNKNOWN
        op, xs = d
        args = [x for x in xs if isinstance(x, Poly)]
        ev = lambda x: self.poly(x, depth + 1)
        base = op.split(":")[0]
        if base in ("abs", "neg", "vec", "idx", "proj", "unwrap", "Some", "armval", "as_ref", "elt"):
            return ev(args[0]) if args else UNKNOWN
        if base == "inv":
            g = ev(args[0])
            return g if g in (BAD, UNKNOWN, POLY) else (-g[0], -g[1])
        if base == "sqrt":
            g = ev(args[0])
            return g if g in (BAD, UNKNOWN, POLY) else (g[0] / 2, g[1] / 2)
        if base == "sum":
            g = ev(args[0])
            if g in (BAD, UNKNOWN):
                return g
            if g is POLY:
                return (Fraction(1), Fraction(0))
            if self.strict_sum and g[1] != 0:
                self.issues.append(("sum", "a sum over the components adds terms of state-scale degree %s: components are added before they are divided by their own tolerance scale, "
                                    "so one component's scale decides for all of them: %s" % (g[1], a[:140])))
                return BAD
            return (g[0] + 1, g[1])
        if base in ("powf", "powi"):
            g = ev(args[0])
            e = args[1].const_value() if len(args) > 1 else None
            if g in (BAD, UNKNOWN, POLY):
                return g
            if g == (0, 0):
                return g
            if e is None:
                eg = ev(args[1])
                # exponent that is itself a graded quantity (e.g. 1/iord): treat as unknown constant > 0
                self.issues.append(("powf", "a quantity of grade %s is raised to a non-constant power: %s" % (g, a[:120])))
                return BAD
            return (g[0] * e, g[1] * e)
        if base in ("max", "min", "clamp"):
            gs = [ev(x) for x in args]
            # ordering a state-scaled quantity against a non-zero constant (an absolute floor / ceiling) is not homogeneous:
            # scaling the state by 2^-k pushes the quantity below the floor. (A replacement of an exact zero, which `phi`
            # models, is a different thing: zero is a fixed point of the scaling.)
            real = [g for g in gs if g not in (POLY, BAD, UNKNOWN)]
            if real and any(g[1] != 0 for g in real):
                for x, g in zip(args, gs):
                    if g is POLY and not (x.is_const() and x.const_value() == 0):
                        self.issues.append((base, "a quantity of state-scale degree %s is ordered against the absolute constant %r (%s): %s" % (
                            [g_[1] for g_ in real if g_[1] != 0][0], x, base, a[:120])))
                        return BAD
            return self.combine(gs, base, Poly.atom(a))
        if base in ("phi", "widen"):
            return self.combine([ev(x) for x in args], base, Poly.atom(a))
        if base == "signum":
            g = ev(args[0])
            return g if g in (BAD, UNKNOWN) else (Fraction(0), Fraction(0))
        if base in ("lt", "le", "gt", "ge", "eq", "ne"):
            g = self.combine([ev(x) for x in args], "comparison", Poly.atom(a))
            return g if g == BAD else (Fraction(0), Fraction(0))
        if self.call_grade is not None:
            g = self.call_grade(op, [ev(x) for x in args], args, a)
            if g == UNKNOWN:
                self.unknown_atoms.append(a[:100])
            return g
        self.unknown_atoms.append(a[:100])
        return UNKNOWN


def fmt(g):
    if g is POLY:
        return "const"
    if g in (BAD, UNKNOWN):
        return g
    return "(copies^%s, scale^%s)" % (g[0], g[1])
