"""CX: exact evaluation of small numeric helpers with concrete control and symbolic data.

Integers, booleans and container shapes are concrete (so every loop unrolls and every index is a number); floating-point
scalars are exact polynomials over named symbols (poly.Poly, rational coefficients - nothing is rounded).  The functions it
is applied to (difference-table rescaling, small dense products, coefficient recurrences) touch their float data only through
+, -, *, / and tests against 0/1, so one evaluation per value of the integer parameters is a polynomial IDENTITY in the
symbols, not a sample: it holds for every real value of the data.  Comparisons of non-constant polynomials are answered
for generic values (p == 0 only when p is the zero polynomial); an ordering test on symbolic data raises CxUnknown.

Nothing of the analysed program is executed: the interpreter walks the typed syntax tree produced by the driver.
"""
from fractions import Fraction

from poly import Poly, lit_fraction


class CxUnknown(Exception):
    pass


class _Break(Exception):
    def __init__(self, target=None):
        self.target = target


class _Continue(Exception):
    def __init__(self, target=None):
        self.target = target


class _Return(Exception):
    def __init__(self, value):
        self.value = value


class Cell:
    """a mutable reference to one element of a list"""
    __slots__ = ("lst", "i")

    def __init__(self, lst, i):
        self.lst, self.i = lst, i

    def get(self):
        return self.lst[self.i]

    def set(self, v):
        self.lst[self.i] = v


class Var:
    """a mutable reference to a local"""
    __slots__ = ("env", "key")

    def __init__(self, env, key):
        self.env, self.key = env, key

    def get(self):
        return self.env[self.key]

    def set(self, v):
        self.env[self.key] = v


def deref(v):
    while isinstance(v, (Cell, Var)):
        v = v.get()
    return v


def deep(v):
    if isinstance(v, list):
        return [deep(x) for x in v]
    return v


INT_TYS = ("usize", "isize", "i32", "i64", "u32", "u64", "u8", "i8", "u16", "i16")


POISON = object()     # a local whose value the evaluation could not determine


class Cx:
    def __init__(self, facts, max_steps=200000, extern=None):
        self.f = facts
        self.extern = extern      # fn(cx, node, def_path, env) -> value | NotImplemented : calls the analysis models itself
        self.steps = 0
        self.max_steps = max_steps
        self.consts = {}

    # ---- entry
    def call_fn(self, def_path, args):
        b = self.f.bodies.get(def_path)
        if b is None:
            raise CxUnknown("no body for %s" % def_path)
        env = {}
        ps = b.get("params", [])
        if len(ps) != len(args):
            raise CxUnknown("arity of %s" % def_path)
        for p, a in zip(ps, args):
            self.bind(p, a, env)
        try:
            return self.ev(b["body"], env)
        except _Return as r:
            return r.value

    # ---- patterns
    def bind(self, pat, v, env):
        k = pat.get("k")
        if k == "PBind":
            ty = pat.get("ty") or ""
            if not ty.startswith("&") and not isinstance(v, list):
                v = deref(v)
            env[pat["id"]] = v
            if pat.get("sub"):
                self.bind(pat["sub"], v, env)
            return
        if k == "PWild":
            return
        if k in ("PRef", "PDeref"):
            return self.bind(pat["pat"], deref(v) if not isinstance(deref(v), list) else deref(v), env)
        if k in ("PTuple",):
            v = deref(v)
            if not isinstance(v, tuple) or len(v) != len(pat["pats"]):
                raise CxUnknown("tuple pattern")
            for p, x in zip(pat["pats"], v):
                self.bind(p, x, env)
            return
        raise CxUnknown("pattern %s" % k)

    # ---- helpers
    def const_of(self, d):
        if d in self.consts:
            return self.consts[d]
        b = self.f.bodies.get(d)
        if b is None:
            raise CxUnknown("const %s" % d)
        v = self.ev(b["body"], {})
        self.consts[d] = v
        return v

    def tick(self):
        self.steps += 1
        if self.steps > self.max_steps:
            raise CxUnknown("evaluation budget exhausted")

    def num(self, v, ty):
        return v

    def truth(self, op, l, r):
        l, r = deref(l), deref(r)
        if isinstance(l, str) and isinstance(r, str):
            return {"Eq": l == r, "Ne": l != r, "Lt": l < r, "Le": l <= r, "Gt": l > r, "Ge": l >= r}[op]
        if isinstance(l, bool) or isinstance(r, bool):
            return {"Eq": l == r, "Ne": l != r}[op]
        if isinstance(l, int) and isinstance(r, int):
            return {"Lt": l < r, "Le": l <= r, "Gt": l > r, "Ge": l >= r, "Eq": l == r, "Ne": l != r}[op]
        lp = l if isinstance(l, Poly) else Poly.const(l)
        rp = r if isinstance(r, Poly) else Poly.const(r)
        d = lp - rp
        if d.is_const():
            c = d.const_value()
            return {"Lt": c < 0, "Le": c <= 0, "Gt": c > 0, "Ge": c >= 0, "Eq": c == 0, "Ne": c != 0}[op]
        if op == "Eq":
            return False      # a non-zero polynomial is non-zero for generic data
        if op == "Ne":
            return True
        if getattr(self, "oracle", None) is not None:
            # an ordering of symbolic magnitudes: the caller enumerates both outcomes (case analysis over the orderings)
            return bool(self.oracle(op, l, r))
        raise CxUnknown("ordering test on symbolic data: %r %s %r" % (l, op, r))

    # ---- lvalues
    def place(self, e, env):
        """-> object with get()/set()"""
        k = e.get("k")
        if k == "Path" and e.get("res") == "local":
            v = env.get(e["id"])
            if isinstance(v, (Cell, Var)):
                return v
            return Var(env, e["id"])
        if k == "Index":
            base = deref(self.ev(e["e"], env))
            idx = deref(self.ev(e["i"], env))
            if isinstance(base, list) and isinstance(idx, int):
                if not 0 <= idx < len(base):
                    raise CxUnknown("index %d out of bounds (len %d)" % (idx, len(base)))
                return Cell(base, idx)
            raise CxUnknown("index on %s" % type(base).__name__)
        if k == "Unary" and e.get("op") == "Deref":
            v = self.ev(e["e"], env)
            if isinstance(v, (Cell, Var)):
                return v
            if e["e"].get("k") == "Path":
                return Var(env, e["e"]["id"])
            raise CxUnknown("deref of a value")
        if k in ("DropTemps", "Paren"):
            return self.place(e["e"], env)
        raise CxUnknown("place %s" % k)

    # ---- expressions
    def ev(self, e, env):
        self.tick()
        k = e.get("k")
        m = getattr(self, "e_" + k, None)
        if m is None:
            raise CxUnknown("expression kind %s" % k)
        return m(e, env)

    def e_Lit(self, e, env):
        lk = e.get("lk")
        if lk == "Bool":
            return bool(e["v"])
        if lk == "Int":
            if (e.get("ty") or "") in ("f64", "f32"):
                return Poly.const(lit_fraction(str(e["v"])))
            import re
            m = re.match(r"^(\d+)", str(e["v"]).replace("_", ""))
            if not m:
                raise CxUnknown("integer literal %r" % (e["v"],))
            return int(m.group(1))
        if lk == "Float":
            return Poly.const(lit_fraction(str(e["v"])))
        if lk in ("Str", "Char"):
            return str(e["v"])
        raise CxUnknown("literal %s" % lk)

    def e_Path(self, e, env):
        if e.get("res") == "local":
            if e["id"] not in env:
                raise CxUnknown("unbound local %s" % e.get("name"))
            if env[e["id"]] is POISON:
                raise CxUnknown("local %s has no determined value" % e.get("name"))
            return env[e["id"]]
        if e.get("dk") in ("Const", "AssocConst"):
            d = e.get("def") or ""
            if d.endswith("::EPSILON") or d.endswith("::MIN_POSITIVE") or d.endswith("::INFINITY"):
                return Poly.atom("const:" + d.split("::")[-1])
            return self.const_of(d)
        raise CxUnknown("path %s" % e.get("def"))

    def e_Block(self, e, env):
        for st in e.get("stmts", []):
            self.ev(st, env)
        t = e.get("tail") if e.get("tail") is not None else e.get("expr")
        if t is not None:
            return self.ev(t, env)
        return None

    def e_Let(self, e, env):
        if e.get("init") is None:
            return None
        v = self.ev(e["init"], env)
        self.bind(e["pat"], v, env)
        return None

    def e_ExprStmt(self, e, env):
        self.ev(e["e"], env)
        return None

    e_Semi = e_ExprStmt

    def e_DropTemps(self, e, env):
        return self.ev(e["e"], env)

    e_Paren = e_DropTemps

    def e_Cast(self, e, env):
        v = deref(self.ev(e["e"], env))
        ty = e.get("ty") or ""
        if ty in ("f64", "f32"):
            if isinstance(v, int) and not isinstance(v, bool):
                return Poly.const(Fraction(v))
            return v
        if ty in INT_TYS:
            if isinstance(v, int):
                return v
            if isinstance(v, Poly) and v.is_const():
                return int(v.const_value())
            raise CxUnknown("cast of symbolic value to integer")
        return v

    def e_AddrOf(self, e, env):
        inner = e["e"]
        if inner.get("k") in ("Path", "Index", "Field"):
            v = self.ev(inner, env)
            if isinstance(deref(v), list):
                return deref(v)
            if e.get("mut"):
                return self.place(inner, env)
            return v
        return self.ev(inner, env)

    def e_Unary(self, e, env):
        op = e["op"]
        v = self.ev(e["e"], env)
        if op == "Deref":
            return deref(v)
        v = deref(v)
        if op == "Neg":
            return -v
        if op == "Not":
            return not v
        raise CxUnknown("unary %s" % op)

    def e_Binary(self, e, env):
        op = e["op"]
        if op == "And":
            return bool(deref(self.ev(e["l"], env))) and bool(deref(self.ev(e["r"], env)))
        if op == "Or":
            return bool(deref(self.ev(e["l"], env))) or bool(deref(self.ev(e["r"], env)))
        l, r = deref(self.ev(e["l"], env)), deref(self.ev(e["r"], env))
        return self.arith(op, l, r, e.get("ty"))

    def arith(self, op, l, r, ty=None):
        if op in ("Lt", "Le", "Gt", "Ge", "Eq", "Ne"):
            return self.truth(op, l, r)
        if isinstance(l, int) and isinstance(r, int) and not isinstance(l, bool):
            if op == "Add":
                return l + r
            if op == "Sub":
                if l - r < 0 and (ty or "usize").startswith("u"):
                    raise CxUnknown("unsigned subtraction underflows: %d - %d" % (l, r))
                return l - r
            if op == "Mul":
                return l * r
            if op == "Div":
                if r == 0:
                    raise CxUnknown("integer division by zero")
                return l // r
            if op == "Rem":
                return l % r
        lp = l if isinstance(l, Poly) else Poly.const(Fraction(l))
        rp = r if isinstance(r, Poly) else Poly.const(Fraction(r))
        if op == "Add":
            return lp + rp
        if op == "Sub":
            return lp - rp
        if op == "Mul":
            return lp * rp
        if op == "Div":
            if rp.is_zero():
                raise CxUnknown("division by zero")
            return lp.div(rp)
        raise CxUnknown("binary %s" % op)

    def e_Assign(self, e, env):
        v = self.ev(e["r"], env)
        v = deref(v) if not isinstance(deref(v), list) else deref(v)
        self.place(e["l"], env).set(v)
        return None

    def e_AssignOp(self, e, env):
        p = self.place(e["l"], env)
        r = deref(self.ev(e["r"], env))
        op = e["op"].replace("Assign", "")
        p.set(self.arith(op, deref(p.get()), r))
        return None

    def e_Index(self, e, env):
        base = deref(self.ev(e["e"], env))
        rng = self.range_of(e["i"], env)
        if rng is not None and isinstance(base, list):
            lo, hi = rng
            return base[(lo or 0):(len(base) if hi is None else hi)]     # NB: a copy; slices are only read in the analysed helpers
        idx = deref(self.ev(e["i"], env))
        if isinstance(base, list) and isinstance(idx, int):
            if not 0 <= idx < len(base):
                raise CxUnknown("index %d out of bounds (len %d)" % (idx, len(base)))
            return base[idx]
        raise CxUnknown("index")

    def e_Tuple(self, e, env):
        return tuple(self.ev(x, env) for x in e["elems"])

    def e_Array(self, e, env):
        return [deref(self.ev(x, env)) for x in e["elems"]]

    def e_Repeat(self, e, env):
        v = deref(self.ev(e["e"], env))
        n = e.get("n")
        if n is None and e.get("len") is not None:
            n = deref(self.ev(e["len"], env)) if isinstance(e["len"], dict) else e["len"]
        if n is None:
            ty = e.get("ty") or ""
            import re
            m = re.search(r";\s*(\d+)\]", ty)
            if not m:
                raise CxUnknown("array length")
            n = int(m.group(1))
        return [deep(v) for _ in range(int(n))]

    lenient_if = False   # opt-in: an undecidable test whose branches only assign makes what they assign undetermined

    def undecided_if(self, e, env, why):
        """neither branch is taken; every local either branch may write loses its value (reading it later is an error)"""
        import tast
        if not self.lenient_if or tast.contains(e, lambda z: z.get("k") in ("Break", "Continue", "Return")) or e.get("ty") not in (None, "()"):
            raise why
        for br in (e["then"], e.get("else")):
            if br is not None:
                for lid in written_locals(br):
                    env[lid] = POISON
        return None

    def e_If(self, e, env):
        c = e["cond"]
        if c.get("k") == "LetExpr":
            raise CxUnknown("if let")
        try:
            cv = deref(self.ev(c, env))
        except CxUnknown as ex:
            return self.undecided_if(e, env, ex)
        if cv:
            return self.ev(e["then"], env)
        if e.get("else") is not None:
            return self.ev(e["else"], env)
        return None

    def e_Return(self, e, env):
        raise _Return(self.ev(e["e"], env) if e.get("e") is not None else None)

    def e_Break(self, e, env):
        raise _Break(e.get("target"))

    def e_Continue(self, e, env):
        raise _Continue(e.get("target"))

    def e_Loop(self, e, env):
        while True:
            self.tick()
            try:
                self.ev(e["body"], env)
            except _Break as b:
                if b.target in (None, e.get("id")):
                    return None
                raise
            except _Continue as c_:
                if c_.target not in (None, e.get("id")):
                    raise

    def e_While(self, e, env):
        while deref(self.ev(e["cond"], env)):
            try:
                self.ev(e["body"], env)
            except _Break as b:
                if b.target in (None, e.get("id")):
                    return None
                raise
            except _Continue as c_:
                if c_.target not in (None, e.get("id")):
                    raise
        return None

    def e_For(self, e, env):
        for item in self.iterate(e["iter"], env):
            self.bind(e["pat"], item, env)
            try:
                self.ev(e["body"], env)
            except _Break as b:
                if b.target in (None, e.get("id")):
                    return None
                raise
            except _Continue as c_:
                if c_.target not in (None, e.get("id")):
                    raise
        return None

    # ---- iteration
    def range_of(self, e, env):
        if e.get("k") == "Struct" and (e.get("def") or "").startswith("std::ops::Range"):
            lo = hi = None
            for f in e["fields"]:
                if f["name"] == "start":
                    lo = deref(self.ev(f["e"], env))
                elif f["name"] == "end":
                    hi = deref(self.ev(f["e"], env))
            if e["def"].endswith("Inclusive") and hi is not None:
                hi += 1
            return (lo, hi)
        if e.get("k") == "Call" and "RangeInclusive" in (e.get("def") or "") and len(e["args"]) == 2:
            return (deref(self.ev(e["args"][0], env)), deref(self.ev(e["args"][1], env)) + 1)
        return None

    def iterate(self, it, env):
        k = it.get("k")
        r = self.range_of(it, env)
        if r is not None:
            lo, hi = r
            if not isinstance(lo, int) or not isinstance(hi, int):
                raise CxUnknown("symbolic range")
            return list(range(lo, hi))
        if k in ("DropTemps", "Paren"):
            return self.iterate(it["e"], env)
        if k == "AddrOf":
            v = deref(self.ev(it["e"], env))
            if isinstance(v, list):
                return [Cell(v, i) for i in range(len(v))] if it.get("mut") else list(v)
        if k == "MethodCall":
            nm, recv = it.get("name"), it["recv"]
            if nm in ("iter", "into_iter"):
                rr = self.range_of(recv, env) if recv.get("k") in ("Struct", "Call") else None
                if rr is not None:
                    return list(range(rr[0], rr[1]))
                if recv.get("k") == "MethodCall" and recv.get("name") in ("iter", "iter_mut", "rev", "zip", "enumerate", "take", "skip"):
                    return self.iterate(recv, env)
                v = deref(self.ev(recv, env))
                if isinstance(v, list):
                    return list(v)
            if nm == "iter_mut":
                v = deref(self.ev(recv, env))
                if isinstance(v, list):
                    return [x if isinstance(x, Cell) else Cell(v, i) for i, x in enumerate(v)]
            if nm == "rev" and not it["args"]:
                return list(reversed(self.iterate(recv, env)))
            if nm in ("copied", "cloned", "by_ref") and not it["args"]:
                return [deref(x) for x in self.iterate(recv, env)]
            if nm == "enumerate" and not it["args"]:
                return [(i, x) for i, x in enumerate(self.iterate(recv, env))]
            if nm == "zip" and len(it["args"]) == 1:
                return list(zip(self.iterate(recv, env), self.iterate(it["args"][0], env)))
            if nm == "take" and len(it["args"]) == 1:
                n = deref(self.ev(it["args"][0], env))
                return self.iterate(recv, env)[:n]
            if nm == "skip" and len(it["args"]) == 1:
                n = deref(self.ev(it["args"][0], env))
                return self.iterate(recv, env)[n:]
        if k in ("Path", "Index", "Field"):
            v = deref(self.ev(it, env))
            if isinstance(v, list):
                return [Cell(v, i) for i in range(len(v))] if "&mut" in (it.get("ty") or "") else list(v)
        raise CxUnknown("iteration over %s" % k)

    # ---- calls
    def e_Call(self, e, env):
        d = e.get("def") or ""
        if self.extern is not None:
            r = self.extern(self, e, d, env)
            if r is not NotImplemented:
                return r
        if d in ("std::vec::from_elem", "alloc::vec::from_elem") and len(e["args"]) == 2:
            v = deref(self.ev(e["args"][0], env))
            n = deref(self.ev(e["args"][1], env))
            if not isinstance(n, int):
                raise CxUnknown("symbolic vector length")
            return [deep(v) for _ in range(n)]
        if "RangeInclusive" in d:
            r = self.range_of(e, env)
            return list(range(r[0], r[1]))
        if d in self.f.bodies:
            return self.call_fn(d, [self.ev(a, env) for a in e["args"]])
        if d.endswith("::into_vec") or d.endswith("slice::<impl [T]>::into_vec") or d.endswith("box_new") or d.endswith("Box::<T>::new"):
            return deref(self.ev(e["args"][0], env))
        if d in ("std::convert::From::from", "std::convert::Into::into") and len(e["args"]) == 1:
            # a conversion implemented in the crate: the impl is named by the target and the argument type
            to = (e.get("ty") or "")
            aty = (e["args"][0].get("ty") or "")
            for cand in ("<%s as std::convert::From<%s>>::from" % (to, aty), "<%s as std::convert::From<%s>>::from" % (to, aty.lstrip("&"))):
                if cand in self.f.bodies:
                    return self.call_fn(cand, [self.ev(e["args"][0], env)])
            # lossless primitive conversions: bool -> integer, integer widening, integer / f32 -> f64
            v = deref(self.ev(e["args"][0], env))
            if isinstance(v, bool) and to in ("usize", "u8", "u16", "u32", "u64", "u128", "isize", "i8", "i16", "i32", "i64", "i128"):
                return int(v)
            if isinstance(v, int) and not isinstance(v, bool) and to in ("usize", "u16", "u32", "u64", "u128", "isize", "i16", "i32", "i64", "i128"):
                return v
            if isinstance(v, int) and not isinstance(v, bool) and to in ("f64", "f32"):
                return Poly.const(Fraction(v))
            if isinstance(v, Poly) and to in ("f64",):
                return v
        raise CxUnknown("call %s" % d)

    def e_MethodCall(self, e, env):
        nm = e.get("name")
        d = e.get("def") or ""
        if self.extern is not None:
            r = self.extern(self, e, d, env)
            if r is not NotImplemented:
                return r
        if d in self.f.bodies:
            return self.call_fn(d, [self.ev(e["recv"], env)] + [self.ev(a, env) for a in e["args"]])
        recv = self.ev(e["recv"], env)
        rv = deref(recv)
        args = e["args"]
        if isinstance(rv, list):
            if nm == "len":
                return len(rv)
            if nm == "fill" and len(args) == 1:
                v = deref(self.ev(args[0], env))
                for i in range(len(rv)):
                    rv[i] = deep(v)
                return None
            if nm in ("copy_from_slice", "clone_from_slice") and len(args) == 1:
                src = deref(self.ev(args[0], env))
                if not isinstance(src, list) or len(src) != len(rv):
                    raise CxUnknown("%s: length mismatch (%s vs %d)" % (nm, len(src) if isinstance(src, list) else "?", len(rv)))
                for i in range(len(rv)):
                    rv[i] = deep(src[i])
                return None
            if nm in ("clone", "to_vec", "to_owned"):
                return deep(rv)
            if nm in ("iter", "iter_mut", "into_iter"):
                return self.iterate(e, env)
            if nm == "is_empty":
                return len(rv) == 0
            if nm in ("first", "last", "first_mut", "last_mut") and not args:
                if not rv:
                    return {"__adt": "std::option::Option", "__variant": "std::option::Option::None"}
                return {"__adt": "std::option::Option", "__variant": "std::option::Option::Some", "0": rv[0] if nm.startswith("first") else rv[-1]}
            if nm in ("as_slice", "as_mut_slice", "as_ref", "as_mut", "borrow", "deref", "deref_mut") and not args:
                return rv
            if nm == "swap" and len(args) == 2:
                i, j = deref(self.ev(args[0], env)), deref(self.ev(args[1], env))
                rv[i], rv[j] = rv[j], rv[i]
                return None
        if isinstance(rv, str):
            # string values (names matched by the option / method parsers)
            if nm in ("to_uppercase", "to_ascii_uppercase"):
                return rv.upper()
            if nm in ("to_lowercase", "to_ascii_lowercase"):
                return rv.lower()
            if nm in ("as_str", "to_string", "to_owned", "clone", "as_ref", "borrow", "into", "deref"):
                return rv
            if nm == "trim":
                return rv.strip()
            if nm == "len":
                return len(rv)
            if nm == "is_empty":
                return rv == ""
            if nm in ("eq_ignore_ascii_case", "eq", "ne", "starts_with", "ends_with", "contains") and len(args) == 1:
                o = deref(self.ev(args[0], env))
                if isinstance(o, str):
                    return {"eq_ignore_ascii_case": rv.lower() == o.lower(), "eq": rv == o, "ne": rv != o, "starts_with": rv.startswith(o),
                            "ends_with": rv.endswith(o), "contains": o in rv}[nm]
        if isinstance(rv, int) and not isinstance(rv, bool):
            if nm in ("min", "max") and len(args) == 1:
                o = deref(self.ev(args[0], env))
                return min(rv, o) if nm == "min" else max(rv, o)
            if nm == "clone":
                return rv
            if nm in ("cmp", "partial_cmp") and len(args) == 1:
                o = deref(self.ev(args[0], env))
                if isinstance(o, int) and not isinstance(o, bool):
                    ordv = {"__adt": "std::cmp::Ordering", "__variant": "std::cmp::Ordering::" + ("Less" if rv < o else "Greater" if rv > o else "Equal")}
                    return ordv if nm == "cmp" else {"__adt": "std::option::Option", "__variant": "std::option::Option::Some", "0": ordv}
            if nm == "signum" and not args:
                return (rv > 0) - (rv < 0)
            if nm == "abs" and not args:
                return abs(rv)
            if nm in ("saturating_sub", "saturating_add", "wrapping_add", "wrapping_sub") and len(args) == 1:
                o = deref(self.ev(args[0], env))
                if isinstance(o, int):
                    r_ = rv - o if "sub" in nm else rv + o
                    if nm.startswith("saturating") and (e["recv"].get("ty") or "").lstrip("&").startswith("u"):
                        r_ = max(r_, 0)
                    return r_
            if nm in ("is_positive", "is_negative") and not args:
                return rv > 0 if nm == "is_positive" else rv < 0
        if isinstance(rv, Poly):
            if nm == "clone":
                return rv
            if nm == "abs":
                if rv.is_const():
                    return Poly.const(abs(rv.const_value()))
                if self.lenient_if:
                    from poly import opaque
                    return opaque("abs", [rv])       # kept symbolic: exact identities about it are not claimed, tests on it are undecided
                raise CxUnknown("abs of symbolic data")
            if nm in ("round", "floor", "ceil", "trunc") and rv.is_const():
                import math
                c_ = rv.const_value()
                return Poly.const(Fraction({"round": lambda z: math.floor(z + Fraction(1, 2)) if z >= 0 else -math.floor(-z + Fraction(1, 2)),
                                            "floor": math.floor, "ceil": math.ceil, "trunc": math.trunc}[nm](c_)))
            if nm == "clamp" and len(args) == 2 and rv.is_const():
                lo, hi = deref(self.ev(args[0], env)), deref(self.ev(args[1], env))
                if isinstance(lo, Poly) and isinstance(hi, Poly) and lo.is_const() and hi.is_const():
                    return Poly.const(min(max(rv.const_value(), lo.const_value()), hi.const_value()))
            if nm in ("min", "max") and len(args) == 1 and rv.is_const():
                o = deref(self.ev(args[0], env))
                if isinstance(o, Poly) and o.is_const():
                    return Poly.const((min if nm == "min" else max)(rv.const_value(), o.const_value()))
            if nm in ("mul_add",) and len(args) == 2:
                return rv * deref(self.ev(args[0], env)) + deref(self.ev(args[1], env))
            if nm == "powi" and len(args) == 1:
                n = deref(self.ev(args[0], env))
                return rv ** n if n >= 0 else (rv ** (-n)).inverse()
        raise CxUnknown("method %s on %s" % (nm, type(rv).__name__))

    def e_ItemStmt(self, e, env):
        return None          # a nested item (const / fn) declares nothing at run time

    def e_Field(self, e, env):
        raise CxUnknown("field access")

    def e_Closure(self, e, env):
        raise CxUnknown("closure")

    def e_Match(self, e, env):
        # only irrefutable destructuring (the expansion of assert_eq! / debug_assert_eq!)
        arms = e.get("arms", [])
        if len(arms) == 1 and arms[0]["pat"].get("k") in ("PTuple", "PBind") and arms[0].get("guard") is None:
            v = self.ev(e["scrut"], env)
            self.bind(arms[0]["pat"], v, env)
            return self.ev(arms[0]["body"], env)
        raise CxUnknown("match")


def written_locals(st):
    """ids of the locals a statement may write: let-bound names, assignment bases, receivers / &mut arguments of calls"""
    import tast
    out = set()

    def base(e):
        while e is not None and e.get("k") in ("Index", "Field", "Unary", "DropTemps", "Paren", "AddrOf", "MethodCall"):
            e = e.get("e") if e.get("k") != "MethodCall" else e.get("recv")
        return e["id"] if e is not None and e.get("k") == "Path" and e.get("res") == "local" else None
    for q in tast.find(st, lambda z: z.get("k") in ("Let", "Assign", "AssignOp", "MethodCall", "Call", "For")):
        k = q["k"]
        if k == "Let":
            for pb in tast.find(q["pat"], lambda z: z.get("k") == "PBind"):
                out.add(pb["id"])
        elif k in ("Assign", "AssignOp"):
            b = base(q["l"])
            if b:
                out.add(b)
        elif k == "For":
            for pb in tast.find(q["pat"], lambda z: z.get("k") == "PBind"):
                out.add(pb["id"])
        else:
            if k == "MethodCall":
                b = base(q["recv"])
                if b and q.get("name") in ("fill", "copy_from_slice", "clone_from_slice", "push", "clear", "swap", "resize", "truncate", "extend", "iter_mut",
                                           "split_at_mut", "chunks_mut", "chunks_exact_mut", "as_mut_slice", "last_mut", "first_mut", "get_mut", "split_first_mut", "split_last_mut",
                                           "sort", "sort_by", "reverse", "rotate_left", "rotate_right", "insert", "remove", "pop", "retain", "drain", "append"):
                    out.add(b)
            for a in q.get("args", []):
                if a.get("k") == "AddrOf" and a.get("mut"):
                    b = base(a["e"])
                    if b:
                        out.add(b)
    return out


def run_best_effort(cx, stmts, env):
    """evaluate statements in order; a statement the interpreter cannot follow poisons the locals it may write.
    Returns the list of (statement, reason) that were not evaluated."""
    skipped = []
    for st in stmts:
        snap = {k: deep(v) if isinstance(v, list) else v for k, v in env.items()}
        try:
            cx.ev(st, env)
        except CxUnknown as ex:
            env.clear()
            env.update(snap)
            for w in written_locals(st):
                env[w] = POISON
            skipped.append((st, str(ex)))
        except (_Break, _Continue, _Return):
            env.clear()
            env.update(snap)
            for w in written_locals(st):
                env[w] = POISON
            skipped.append((st, "control leaves the region"))
    return skipped
