"""Verdict collection, known-finding matching, evidence and replay files."""
import json
import os
import sys
import time

VERIF = os.path.dirname(os.path.dirname(os.path.abspath(__file__)))
# corpus / self-test runs analyse scratch copies and must not overwrite the real evidence
EVDIR = os.environ.get("IVP_EVIDENCE_DIR", os.path.join(VERIF, "evidence"))


def load_known():
    p = os.path.join(VERIF, "known_findings.json")
    if not os.path.exists(p):
        return []
    with open(p) as fh:
        return json.load(fh).get("findings", [])


class Report:
    def __init__(self, prop, tier, level="other"):
        self.prop = prop
        self.tier = tier
        self.level = level
        self.t0 = time.time()
        self.discharged = []     # (rule, key, detail)
        self.violations = []     # dict
        self.inconclusive = []   # dict
        self.notes = []
        self.samples = []
        self.functions = set()
        self.rules = {}          # rule -> text
        self.assumptions = []
        self.explanation = ""
        self.trusted_base = []
        self.extra = {}
        self.nontrivial = set()

    # ---- recording
    def rule(self, rid, text):
        self.rules[rid] = text

    def ok(self, rule, key, detail="", nontrivial=True):
        self.discharged.append((rule, key, detail))
        if nontrivial:
            self.nontrivial.add(key)

    def violation(self, rule, key, msg, span=None, **extra):
        self.violations.append(dict(rule=rule, key=key, msg=msg, span=span, **extra))

    def inconc(self, rule, key, msg, span=None):
        self.inconclusive.append(dict(rule=rule, key=key, msg=msg, span=span))

    def note(self, msg):
        self.notes.append(msg)

    def sample(self, s):
        if len(self.samples) < 40:
            self.samples.append(s)

    def fn(self, f):
        self.functions.add(f)

    # ---- finishing
    def finish(self):
        known = [k for k in load_known() if k.get("property") == self.prop]
        known_keys = {k["key"]: k for k in known if k.get("status") == "known"}
        new = []
        kf = []
        for v in self.violations:
            if v["key"] in known_keys:
                kf.append(v)
            else:
                new.append(v)
        out = []
        for v in kf:
            out.append("KNOWN-FINDING: property=%s %s %s" % (self.prop, v["key"], known_keys[v["key"]].get("what", v["msg"])))
        os.makedirs(os.path.join(EVDIR, "replay"), exist_ok=True)
        # replay files describe the violations of THIS run only
        import glob
        for old in glob.glob(os.path.join(EVDIR, "replay", "%s-*.json" % self.prop)):
            os.remove(old)
        for i, v in enumerate(new):
            rp = os.path.join(EVDIR, "replay", "%s-%d.json" % (self.prop, i))
            with open(rp, "w") as fh:
                json.dump(dict(property=self.prop, **{k: (str(x) if not isinstance(x, (str, int, float, list, dict, type(None))) else x) for k, x in v.items()}), fh, indent=1, default=str)
            out.append("VIOLATION property=%s replay=%s" % (self.prop, rp))
            out.append("  rule=%s key=%s" % (v["rule"], v["key"]))
            out.append("  at %s: %s" % (v.get("span"), v["msg"]))
        for v in self.inconclusive:
            out.append("INCONCLUSIVE property=%s rule=%s key=%s at %s: %s" % (self.prop, v["rule"], v["key"], v.get("span"), v["msg"]))
        for n in self.notes:
            out.append("NOTE property=%s %s" % (self.prop, n))
        n_ob = len(self.discharged) + len(self.violations)
        wall = time.time() - self.t0
        cov = dict(
            obligations=n_ob,
            discharged=len(self.discharged),
            evaluations=n_ob,
            distinct_nontrivial=len(self.nontrivial | {v["key"] for v in self.violations}),
            rule="one obligation per rule instance (rule:function:instance); an instance is non-trivial when the rule had to "
                 "inspect a construct of the analysed program to discharge it (not a vacuous match); instances are distinct by key",
            samples=self.samples[:40] or [dict(rule=r, key=k, detail=d) for r, k, d in self.discharged[:10]],
            explanation=self.explanation,
            checker_cmd="./check %s %s" % (self.prop, self.tier),
            trusted_base=self.trusted_base or ["rustc nightly HIR/typeck/MIR for the analysed cfg", "driver/ivp-facts serializer",
                                               "engine/*.py abstract interpreters"],
            rules=self.rules,
            functions_analysed=sorted(self.functions),
            known_findings_reported=[v["key"] for v in kf],
            inconclusive=[v["key"] for v in self.inconclusive],
            exhaustive=True,
        )
        cov.update(self.extra)
        ev = dict(
            property_id=self.prop,
            tier=self.tier,
            seed=int(os.environ.get("VERIF_SEED", "0") or 0),
            level=self.level,
            coverage=cov,
            assumptions=self.assumptions,
            wall_s=round(wall, 3),
            violations=len(new),
        )
        with open(os.path.join(EVDIR, "%s.json" % self.prop), "w") as fh:
            json.dump(ev, fh, indent=1, default=str)
        print("\n".join(out))
        print("SUMMARY property=%s tier=%s obligations=%d discharged=%d known=%d new_violations=%d inconclusive=%d wall=%.1fs"
              % (self.prop, self.tier, n_ob, len(self.discharged), len(kf), len(new), len(self.inconclusive), wall))
        if new:
            return 1
        if self.inconclusive:
            return 2
        return 0
