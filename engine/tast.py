"""Helpers over the TAST JSON."""


def walk(n, fn, parents=None):
    """Pre-order walk; fn(node, parents) for every dict node with a 'k'."""
    if parents is None:
        parents = []
    if isinstance(n, list):
        for x in n:
            walk(x, fn, parents)
        return
    if not isinstance(n, dict):
        return
    has_k = "k" in n
    if has_k:
        fn(n, parents)
        parents.append(n)
    for k, v in n.items():
        if isinstance(v, (dict, list)) and not k.startswith("_"):
            walk(v, fn, parents)     # keys starting with "_" are caches the interpreters hang on nodes, not program text
    if has_k:
        parents.pop()


def within(root, node):
    """node (or, for a node an interpreter synthesised from another one - a boolean `match` read as an `if` - the node it
    stands for) occurs in the tree under root"""
    of = node.get("_of_id") if isinstance(node, dict) else None
    return contains(root, lambda x: x is node or (of is not None and id(x) == of))


def find(n, pred):
    out = []
    walk(n, lambda x, p: out.append(x) if pred(x) else None)
    return out


def find_with_parents(n, pred):
    out = []
    walk(n, lambda x, p: out.append((x, list(p))) if pred(x) else None)
    return out


def is_field_write(n, fdef_suffix):
    """`<..>.field += ..` / `= ..` on a field whose ADT::field path ends with fdef_suffix"""
    if n.get("k") in ("Assign", "AssignOp"):
        l = n["l"]
        return l.get("k") == "Field" and (l.get("fdef") or "").endswith(fdef_suffix)
    return False


def contains(n, pred):
    found = [False]

    def f(x, p):
        if pred(x):
            found[0] = True

    walk(n, f)
    return found[0]


def calls(n, def_name):
    return find(n, lambda x: x.get("k") in ("Call", "MethodCall") and x.get("def") == def_name)


def render(e, depth=0):
    """Source-like rendering of an expression (messages / evidence only)."""
    if e is None:
        return ""
    if depth > 8:
        return "…"
    k = e.get("k")
    r = lambda x: render(x, depth + 1)
    if k == "Lit":
        return str(e.get("v"))
    if k == "Path":
        return e.get("name") or (e.get("def") or "?").split("::")[-1]
    if k == "Field":
        return "%s.%s" % (r(e["e"]), e["name"])
    if k == "Index":
        return "%s[%s]" % (r(e["e"]), r(e["i"]))
    if k == "Binary":
        ops = {"Add": "+", "Sub": "-", "Mul": "*", "Div": "/", "Lt": "<", "Le": "<=", "Gt": ">", "Ge": ">=",
               "Eq": "==", "Ne": "!=", "And": "&&", "Or": "||", "Rem": "%"}
        return "(%s %s %s)" % (r(e["l"]), ops.get(e["op"], e["op"]), r(e["r"]))
    if k == "Unary":
        return {"Neg": "-", "Not": "!", "Deref": "*"}.get(e["op"], e["op"]) + r(e["e"])
    if k == "MethodCall":
        return "%s.%s(%s)" % (r(e["recv"]), e["name"], ", ".join(r(a) for a in e["args"]))
    if k == "Call":
        return "%s(%s)" % ((e.get("def") or "?").split("::")[-1], ", ".join(r(a) for a in e["args"]))
    if k == "AddrOf":
        return ("&mut " if e.get("mut") else "&") + r(e["e"])
    if k == "Cast":
        return "%s as %s" % (r(e["e"]), e.get("ty"))
    if k == "Assign":
        return "%s = %s" % (r(e["l"]), r(e["r"]))
    if k == "AssignOp":
        return "%s %s= %s" % (r(e["l"]), e["op"], r(e["r"]))
    if k == "Struct":
        return "%s{..}" % (e.get("def") or "?").split("::")[-1]
    if k == "Closure":
        return "|..| …"
    if k == "Tuple":
        return "(%s)" % ", ".join(r(a) for a in e["elems"])
    return "<%s>" % k


def short_fn(def_path):
    return def_path.replace("methods::", "")


def render_block(b):
    """Normalised rendering of a block's statements (names kept, spans dropped)."""
    out = []
    if b.get("k") != "Block":
        return [render(b)]
    for st in b["stmts"]:
        if st["k"] == "Let":
            out.append("let %s = %s" % (st["pat"].get("name", "_"), render(st.get("init"))))
        elif st["k"] == "ExprStmt":
            e = st["e"]
            if e.get("k") == "For":
                out.append("for %s in %s {%s}" % (e["pat"].get("name", "_"), render(e["iter"]), ";".join(render_block(e["body"]))))
            else:
                out.append(render(e))
    if b.get("tail") is not None:
        out.append(render(b["tail"]))
    return out
