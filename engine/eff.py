"""EFF: MIR call graph, reachability, effect queries."""
import re


class CallGraph:
    def __init__(self, facts):
        self.facts = facts
        self.edges = {}      # def -> list of (callee, resolved, trait, span, mx)
        for d, m in facts.mir.items():
            out = []
            for b in m["blocks"]:
                t = b["term"]
                if t.get("k") == "Call":
                    out.append((t.get("callee"), t.get("resolved"), t.get("trait"), t.get("sp"), t.get("mx", False), t))
            self.edges[d] = out

    def callees(self, d):
        return self.edges.get(d, [])

    def local_targets(self, d):
        """crate-local bodies directly called from d (after resolution when available)"""
        out = set()
        for callee, resolved, trait, sp, mx, t in self.callees(d):
            for c in (resolved, callee):
                if c and c in self.facts.mir:
                    out.add(c)
                    break
        # closures defined in d are separate MIR bodies named d::{closure#k}
        for k in self.facts.mir:
            if k.startswith(d + "::{closure"):
                out.add(k)
        return out

    def reachable(self, root):
        seen = set()
        stack = [root]
        while stack:
            d = stack.pop()
            if d in seen:
                continue
            seen.add(d)
            stack.extend(self.local_targets(d))
        return seen

    def reaches_call(self, root, pred):
        """list of (fn, callee, span) for calls satisfying pred reachable from root"""
        hits = []
        for d in self.reachable(root):
            for callee, resolved, trait, sp, mx, t in self.callees(d):
                if pred(callee or "", resolved or "", trait or ""):
                    hits.append((d, callee, sp))
        return hits
