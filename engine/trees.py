"""Rooted trees and Runge-Kutta order conditions (B-series theory; Hairer-Norsett-Wanner II.2).

A tree is a sorted tuple of its child subtrees; the single vertex is ().
"""
from fractions import Fraction
from functools import lru_cache
from itertools import combinations_with_replacement


@lru_cache(None)
def trees_of_order(n):
    """All rooted trees with n vertices, canonical form."""
    if n == 1:
        return ((),)
    out = set()
    # children multiset with total order n-1
    def parts(total, maxpart):
        if total == 0:
            yield ()
            return
        for p in range(min(total, maxpart), 0, -1):
            for rest in parts(total - p, p):
                yield (p,) + rest
    for part in parts(n - 1, n - 1):
        # choose trees for each part size (multisets for equal sizes)
        def build(idx, acc):
            if idx == len(part):
                out.add(tuple(sorted(acc)))
                return
            # group equal sizes
            size = part[idx]
            j = idx
            while j < len(part) and part[j] == size:
                j += 1
            cnt = j - idx
            for combo in combinations_with_replacement(trees_of_order(size), cnt):
                build(j, acc + list(combo))
        build(0, [])
    return tuple(sorted(out))


@lru_cache(None)
def order(t):
    return 1 + sum(order(c) for c in t)


@lru_cache(None)
def gamma(t):
    g = order(t)
    for c in t:
        g *= gamma(c)
    return g


def tree_str(t):
    return "[" + "".join(tree_str(c) for c in t) + "]"


def all_trees(maxorder):
    out = []
    for n in range(1, maxorder + 1):
        out.extend(trees_of_order(n))
    return out


COUNTS = [1, 1, 2, 4, 9, 20, 48, 115]


def elementary_weights(A, maxorder):
    """A: list of dict j->Fraction rows (strictly lower triangular by construction order).
    Returns dict tree -> list Phi_i(tree) for every stage i."""
    s = len(A)
    phi = {}
    # psi[t][i] = sum_j a_ij Phi_j(t)
    psi = {}
    for n in range(1, maxorder + 1):
        for t in trees_of_order(n):
            vals = []
            for i in range(s):
                v = Fraction(1)
                for c in t:
                    v *= psi[c][i]
                    if v == 0:
                        break
                vals.append(v)
            phi[t] = vals
            if n < maxorder:
                pv = []
                for i in range(s):
                    acc = Fraction(0)
                    for j, a in A[i].items():
                        if vals[j] != 0:
                            acc += a * vals[j]
                    pv.append(acc)
                psi[t] = pv
    return phi


def check_order(A, b, p, tol=Fraction(0)):
    """Residuals of all order conditions up to p: list of (tree, residual)."""
    phi = elementary_weights(A, p)
    res = []
    for t, vals in phi.items():
        lhs = sum((b.get(i, 0) * vals[i] for i in range(len(A)) if b.get(i, 0) != 0), Fraction(0))
        res.append((t, lhs - Fraction(1, gamma(t))))
    return res


def self_test():
    for n, c in enumerate(COUNTS, 1):
        assert len(trees_of_order(n)) == c, (n, len(trees_of_order(n)))
    # classical RK4
    F = Fraction
    A = [{}, {0: F(1, 2)}, {1: F(1, 2)}, {2: F(1)}]
    b = {0: F(1, 6), 1: F(1, 3), 2: F(1, 3), 3: F(1, 6)}
    assert all(r == 0 for _, r in check_order(A, b, 4))
    assert any(r != 0 for _, r in check_order(A, b, 5))
    return True


if __name__ == "__main__":
    print(self_test())
