"""Extraction of the method an explicit stepper actually implements (rules R-AFF-*).

For `X::solve` the main loop body is interpreted once, from a generic loop-head state
(state buffer = Y, derivative slot = F0 = f(x, Y), everything else written in the loop is
havocked), along the accepted path with the callback returning a chosen ControlFlag.
The result is the stage table, the update weights, the forms fed to the error norm, the
dense-output blocks and the latch state.
"""
from fractions import Fraction

import os
import tast
from poly import Poly, opaque, DEFS, fresh
from symx import SymExec, Hooks, Buf, Ref

ODE = "ivp::IVP::ode"
SOLOUT = "solout::SolOut::solout"
INTERP_NEW = "dense::StepInterpolant::<'a>::new"
FLAG_PREFIX = "solout::ControlFlag::"


class AnalysisError(Exception):
    pass


def is_dense_cond(node, cond_value=None):
    """the condition depends on the stepper's own dense_output flag (syntactically, or through a local flag)"""
    from poly import reaches
    c = node["cond"]
    if tast.contains(c, lambda x: x.get("k") == "Field" and (x.get("fdef") or "").endswith("::dense_output")):
        return True
    return isinstance(cond_value, Poly) and reaches(cond_value, lambda a: a == "self.dense_output")


class StepHooks(Hooks):
    def __init__(self, fn_body, flag="Continue", init_flag="Continue", solout_present=True, accept="then"):
        self.accept = accept
        self.dense = "then"
        self.head_assume = {}
        self.forced = {}
        self.flag = flag
        self.init_flag = init_flag
        self.solout_present = solout_present
        self.stages = []          # dicts: name, T, arg, node, cond_depth, in_loop
        self.solout_calls = []
        self.interp_calls = []
        self.divs = []
        self.in_main = False
        self.main_loop = None
        self.head = None
        self.latch = None
        self.breaks = None
        self.accept_if = None
        self.loop_depth = 0
        self.pre_state = None
        # accept test: innermost If whose then-subtree writes Steps::accepted while the else does not
        cands = []
        for node, parents in tast.find_with_parents(fn_body, lambda x: x.get("k") == "If"):
            w_then = tast.contains(node["then"], lambda x: tast.is_field_write(x, "Steps::accepted"))
            w_else = node.get("else") is not None and tast.contains(node["else"], lambda x: tast.is_field_write(x, "Steps::accepted"))
            if w_then and not w_else:
                cands.append((len(parents), node))
        self.accept_branch = "then"    # the branch of accept_if on which the step is accepted
        if cands:
            cands.sort(key=lambda t: -t[0])
            self.accept_if = cands[0][1]
        else:
            # reject-first form: `if <rejected> { ...; continue }` followed, in the same block, by the accepted-step code
            for node, parents in tast.find_with_parents(fn_body, lambda x: x.get("k") == "If" and x.get("else") is None):
                if tast.contains(node["then"], lambda x: tast.is_field_write(x, "Steps::accepted")):
                    continue
                stl = node["then"].get("stmts", []) if node["then"].get("k") == "Block" else []
                last = stl[-1] if stl else None
                if last is not None and last.get("k") in ("ExprStmt", "Semi"):
                    last = last.get("e")
                tail = node["then"].get("tail") if node["then"].get("k") == "Block" else None
                ends = tail if tail is not None else last
                if ends is None or ends.get("k") != "Continue":
                    continue
                if not tast.contains(node["then"], lambda x: tast.is_field_write(x, "Steps::rejected")):
                    continue
                blk = next((p for p in reversed(parents) if p.get("k") == "Block"), None)
                if blk is None:
                    continue
                sib = list(blk.get("stmts", [])) + ([blk["tail"]] if blk.get("tail") is not None else [])
                pos = next((i for i, st in enumerate(sib) if tast.contains(st, lambda z: z is node)), None)
                if pos is None:
                    continue
                if any(tast.contains(st, lambda x: tast.is_field_write(x, "Steps::accepted")) for st in sib[pos + 1:]):
                    cands.append((len(parents), node))
            if len(cands) == 1:
                self.accept_if = cands[0][1]
                self.accept_branch = "else"

    # ---- trial-run rollback (inner loops are interpreted to a fix-point)
    LISTS = ("stages", "solout_calls", "interp_calls", "divs")

    def snapshot(self):
        return ({k: list(getattr(self, k)) for k in self.LISTS}, self.in_main)

    def restore(self, snap):
        lists, in_main = snap
        for k, v in lists.items():
            setattr(self, k, list(v))
        self.in_main = in_main

    # ---- selectors
    def select_if(self, sx, node, cond):
        if id(node) in self.forced:
            return self.forced[id(node)]
        if node is self.accept_if:
            if self.accept_branch == "then":
                return self.accept
            return {"then": "else", "else": "then"}.get(self.accept, self.accept)
        c = node["cond"]
        if is_dense_cond(node, cond):
            if self.dense == "else" and tast.contains(c, lambda x: x.get("k") == "Binary" and x["op"] == "Or"):
                return None   # `dense_output || event`: event may still be true
            return self.dense   # None = join both branches
        if c.get("k") == "LetExpr" and "ControlFlag" in (c["init"].get("ty") or "") and c["init"].get("k") == "Path":
            # `if let ControlFlag::XOut(xo) = flag` on the bound answer of the callback
            try:
                fl = self._flag_of(sx.eval(c["init"]))
            except Exception:
                fl = None
            if fl is not None:
                return "then" if self._pat_is_flag(c["pat"], fl) else "else"
        if c.get("k") == "LetExpr":
            init = c["init"]
            if "SolOut" in init.get("ty", "") or tast.contains(init, lambda x: x.get("k") == "Path" and "Option<&mut S>" in x.get("ty", "")):
                return "then" if self.solout_present else "else"
        # `flag == ControlFlag::Interrupt` / `flag != ..` on the bound answer of the callback
        neg = False
        cc = c
        while cc.get("k") == "Unary" and cc.get("op") == "Not":
            cc = cc["e"]
            neg = not neg
        if cc.get("k") == "Binary" and cc.get("op") in ("Eq", "Ne") and "ControlFlag" in ((cc["l"].get("ty") or "") + (cc["r"].get("ty") or "")):
            for a_, b_ in ((cc["l"], cc["r"]), (cc["r"], cc["l"])):
                bb = b_
                while bb.get("k") in ("DropTemps", "Paren", "AddrOf"):
                    bb = bb["e"]
                d_ = bb.get("def") or ""
                aa = a_
                while aa.get("k") in ("DropTemps", "Paren", "AddrOf"):
                    aa = aa["e"]
                if d_.startswith(FLAG_PREFIX) and aa.get("k") == "Path" and aa.get("res") == "local":
                    try:
                        fl = self._flag_of(sx.eval(aa))
                    except Exception:
                        fl = None
                    if fl is not None:
                        holds = (fl == d_[len(FLAG_PREFIX):]) == (cc["op"] == "Eq")
                        if neg:
                            holds = not holds
                        return "then" if holds else "else"
        return None

    @staticmethod
    def _pat_is_flag(pat, want):
        if pat.get("k") == "POr":
            return any(StepHooks._pat_is_flag(q, want) for q in pat.get("pats", []))
        if pat.get("k") in ("PRef", "PDeref") and pat.get("pat") is not None:
            return StepHooks._pat_is_flag(pat["pat"], want)
        if pat.get("k") == "PBind" and pat.get("sub") is not None:      # `flag @ (A | B)`
            return StepHooks._pat_is_flag(pat["sub"], want)
        return (pat.get("def") or "").startswith(FLAG_PREFIX + want) or (pat.get("ctor_of") or "") == FLAG_PREFIX + want

    @staticmethod
    def _flag_of(v):
        a = v.single_atom() if isinstance(v, Poly) else None
        return a[5:] if a and a.startswith("flag:") else None

    def select_arms(self, sx, node, scrut):
        s = node["scrut"]
        # the callback's answer, matched directly or through a local it was bound to
        via_local = self._flag_of(scrut)
        if (s.get("k") == "MethodCall" and s.get("def") == SOLOUT) or via_local is not None:
            want = via_local or (self.flag if self.in_main else self.init_flag)
            idx = [j for j, a in enumerate(node["arms"]) if self._pat_is_flag(a["pat"], want)]
            if idx:
                return idx
            # wildcard arm
            idx = [j for j, a in enumerate(node["arms"]) if a["pat"]["k"] == "PWild" or (a["pat"]["k"] == "PBind" and a["pat"].get("sub") is None)]
            return idx or None
        return None

    # ---- calls
    def call(self, sx, node, d):
        if d == ODE and node["k"] == "MethodCall" and len(node["args"]) == 3:
            T = sx.eval(node["args"][0])
            V = sx.eval(node["args"][1])
            arg = None
            if isinstance(V, Ref):
                b = sx.get(V.key)
                if isinstance(b, Buf):
                    arg = b.get(V.block if V.block is not None else 0)
            elif isinstance(V, Buf):
                arg = V.get(0)
            out = sx.lvalue(node["args"][2])
            name = "F%d" % (len(self.stages) + 1)
            st = dict(name=name, T=T, arg=arg, node=node, cond_depth=sx.cond_depth, in_main=self.in_main,
                      out=out, comp=bool(sx.comp))
            self.stages.append(st)
            atom = Poly.atom(name)
            if out[0] == "key" and isinstance(sx.get(out[1]), Buf):
                b = sx.get(out[1])
                sx.st[out[1]] = Buf(b.name, {0: atom}, b.len, b.unit, None)
            elif out[0] == "slice" and isinstance(sx.get(out[1]), Buf):
                sx.st[out[1]] = sx.get(out[1]).with_block(out[2], atom, out[3])
            elif len(out) > 1 and out[1] is not None:
                sx.havoc_key(out[1], "odeout")
            sx.log("ode", stage=st)
            return Poly.atom("unit")
        if d == SOLOUT and node["k"] == "MethodCall" and len(node["args"]) == 4:
            xold = sx.eval(node["args"][0])
            xlv = sx.lvalue(node["args"][1])
            ylv = sx.lvalue(node["args"][2])
            xv = sx.read_lv(xlv)
            yv = sx.read_lv(ylv)
            interp = sx.eval(node["args"][3])
            rec = dict(xold=xold, x=xv, y=yv.get(0) if isinstance(yv, Buf) else yv, interp=interp, node=node,
                       in_main=self.in_main, xkey=xlv[1] if xlv[0] == "key" else None,
                       ykey=ylv[1] if ylv[0] == "key" else None, state=dict(sx.st), cond_depth=sx.cond_depth)
            self.solout_calls.append(rec)
            want = self.flag if self.in_main else self.init_flag
            if want == "ModifiedSolution":
                if rec["xkey"]:
                    sx.set(rec["xkey"], Poly.atom("XM"))
                if rec["ykey"]:
                    b = sx.get(rec["ykey"])
                    sx.st[rec["ykey"]] = Buf("YM", {0: Poly.atom("YM")}, b.len if isinstance(b, Buf) else None)
            sx.log("solout", rec=rec)
            return Poly.atom("flag:" + want)
        if d == INTERP_NEW and len(node["args"]) == 4:
            c = sx.eval(node["args"][0])
            cb = sx.get(c.key) if isinstance(c, Ref) else c
            xold = sx.eval(node["args"][1])
            h = sx.eval(node["args"][2])
            fn = node["args"][3]
            fdef = fn.get("def") if fn.get("k") == "Path" else None
            rec = dict(cont=cb, xold=xold, h=h, fn=fdef, node=node, in_main=self.in_main, state=dict(sx.st))
            self.interp_calls.append(rec)
            return opaque("interp", [Poly.const(len(self.interp_calls))])
        return NotImplemented

    # ---- main loop
    def loop_head(self, sx, node, roots):
        self.loop_depth += 1
        return None

    def head_override(self, sx, node, roots):
        if node.get("k") != "Loop":
            return None
        if self.main_loop is None:
            self.main_loop = node
            self.pre_state = dict(sx.st)
            self.pre_roots = set(roots)
            self.stages_pre = list(self.stages)
            # identify the state buffer and the time variable from the callback sites in the loop body
            ysite = xsite = None
            for c in tast.calls(node, SOLOUT):
                a = c["args"]
                if a[2].get("k") == "AddrOf" and a[2]["e"].get("k") == "Path":
                    ysite = a[2]["e"]["id"]
                if a[1].get("k") == "AddrOf" and a[1]["e"].get("k") == "Path":
                    xsite = a[1]["e"]["id"]
            self.ykey, self.xkey = ysite, xsite
            if ysite is None or xsite is None:
                raise AnalysisError("no SolOut::solout call with `&mut x, &mut y` in the main loop of %s" % sx.fn_def)
            pre_y = self.pre_state.get(ysite)
            pre_x = self.pre_state.get(xsite)
            # derivative slots: buffers holding f(x, y) at loop entry
            slots = []
            for k, v in self.pre_state.items():
                if isinstance(v, Buf) and len(v.blocks) == 1 and 0 in v.blocks and isinstance(v.blocks[0], Poly):
                    a = v.blocks[0].single_atom()
                    if a:
                        for s in self.stages_pre:
                            if s["name"] == a and isinstance(pre_y, Buf) and s["arg"] == pre_y.get(0) and s["T"] == pre_x:
                                slots.append(k)
            self.slots = slots
            self.pre_slot_ok = bool(slots)
        if node is not self.main_loop:
            return None
        self.in_main = True
        # every vector buffer written in the loop is generic garbage at the head (only the state and the
        # derivative slot carry an invariant); scalars are generalised by the interpreter's widening
        for r in roots:
            v = sx.st.get(r)
            if isinstance(v, Buf) and r != self.ykey and r not in self.slots:
                sx.havoc_key(r, "head")
        yb = sx.st.get(self.ykey)
        sx.st[self.ykey] = Buf("Y", {0: Poly.atom("Y")}, yb.len if isinstance(yb, Buf) else None)
        sx.st[self.xkey] = Poly.atom("X")
        f0 = dict(name="F0", T=Poly.atom("X"), arg=Poly.atom("Y"), node=None, cond_depth=0, in_main=True, out=None, head=True)
        self.stages = [f0]
        for k in self.slots:
            b = sx.st.get(k)
            sx.st[k] = Buf(b.name if isinstance(b, Buf) else "slot", {0: Poly.atom("F0")}, b.len if isinstance(b, Buf) else None)
        fixed = {self.ykey, self.xkey} | set(self.slots)
        fixed |= {r for r in roots if isinstance(sx.st.get(r), Buf)}
        # flags raised where a step is rejected (`reject = true`) are false before the loop and on every accepting path, so
        # the widening would leave them false at the head: the iteration AFTER a rejected one would never be analysed.
        # They get an unknown value (both branches of `if reject` are then interpreted and joined).
        if os.environ.get("IVP_NO_REJECT_HAVOC") != "1" and self.accept_if is not None:
            rej = self.accept_if.get("else") if self.accept_branch == "then" else self.accept_if.get("then")
            if rej is not None:
                for a_ in tast.find(rej, lambda z: z.get("k") == "Assign" and z["l"].get("k") == "Path" and z["l"].get("ty") == "bool"
                                    and z["r"].get("k") == "Lit" and str(z["r"].get("v")).lower() == "true"):
                    k_ = a_["l"]["id"]
                    if k_ not in self.head_assume and sx.st.get(k_) == sx.FALSE:
                        sx.st[k_] = Poly.atom("flag~%s" % a_["l"].get("name"))
                        fixed.add(k_)
        for k, v in self.head_assume.items():
            sx.st[k] = v
            fixed.add(k)
        self.head = dict(sx.st)
        return fixed

    def loop_latch(self, sx, node, latch, breaks):
        self.loop_depth -= 1
        if node is self.main_loop:
            self.in_main = False
            self.latch = latch
            self.breaks = breaks


def analyse_solve(facts, fn_def, flag="Continue", init_flag="Continue", solout_present=True, accept="then", forced=None, dense="then",
                  head_assume=None):
    body = facts.body(fn_def)
    hk = StepHooks(body["body"], flag, init_flag, solout_present, accept)
    hk.forced = dict(forced or {})
    hk.dense = dense
    hk.head_assume = dict(head_assume or {})
    sx = SymExec(facts, fn_def, hk)
    sx.bind_params()
    # log every float division inside component loops (tolerance-scaled vectors)
    orig_binop = sx.binop

    def binop(op, l, r, e=None):
        if op == "Div" and sx.comp and isinstance(l, Poly) and isinstance(r, Poly):
            hk.divs.append(dict(num=l, den=r, node=e, in_main=hk.in_main))
        return orig_binop(op, l, r, e)

    sx.binop = binop
    sx.eval(body["body"])
    if hk.main_loop is None:
        raise AnalysisError("no main loop found in %s" % fn_def)
    return sx, hk


def interest_keys(body):
    """locals whose merge at a join loses relations that matter for landing/segment reasoning:
    everything the stage abscissae depend on, plus boolean flags"""
    tv = set()
    for c in tast.calls(body["body"], ODE):
        if c.get("k") == "MethodCall" and c["args"]:
            for p in tast.find(c["args"][0], lambda z: z.get("k") == "Path" and z.get("res") == "local"):
                tv.add(p["id"])
    for c in tast.calls(body["body"], SOLOUT):
        for a in c["args"][:2]:
            for p in tast.find(a, lambda z: z.get("k") == "Path" and z.get("res") == "local"):
                tv.add(p["id"])
    changed = True
    while changed:
        changed = False
        for n in tast.find(body["body"], lambda z: (z.get("k") == "Let" and z["pat"].get("k") == "PBind" and z["pat"].get("id") in tv and z.get("init") is not None)
                           or (z.get("k") in ("Assign", "AssignOp") and z["l"].get("k") == "Path" and z["l"].get("id") in tv)):
            src = n.get("init") if n["k"] == "Let" else n["r"]
            # only through affine-looking right-hand sides (copies, sums, products of locals/literals)
            if tast.contains(src, lambda z: z.get("k") in ("MethodCall", "Call", "If", "Match", "Block", "Index") or (z.get("k") == "Binary" and z["op"] not in ("Add", "Sub", "Mul"))):
                continue
            for p in tast.find(src, lambda z: z.get("k") == "Path" and z.get("res") == "local" and z.get("ty") in ("f64", "f32")):
                if p["id"] not in tv:
                    tv.add(p["id"])
                    changed = True
    for l in tast.find(body["body"], lambda z: z.get("k") == "Let" and z["pat"].get("k") == "PBind" and z["pat"].get("ty") == "bool"):
        tv.add(l["pat"]["id"])
    return tv


_VCACHE = {}


def analyse_variants(facts, fn_def, max_split=None, **kw):
    if max_split is None:
        max_split = int(os.environ.get("IVP_MAX_SPLIT", "5"))
    ck = (id(facts), fn_def, max_split, repr(sorted((k, repr(v)) for k, v in kw.items())))
    if ck not in _VCACHE:
        _VCACHE[ck] = _analyse_variants(facts, fn_def, max_split, **kw)
    return _VCACHE[ck]


def _analyse_variants(facts, fn_def, max_split=5, **kw):
    """Path variants: `if`s inside the main loop whose join would merge >= 2 scalars, at least one of
    which the stage abscissae / callback times depend on (or a boolean flag), are split instead of
    joined, so relations such as x_new = x + h or last => h = xend - x survive. Returns [(tag, sx, hk)]."""
    sx, hk = analyse_solve(facts, fn_def, **kw)
    interest = interest_keys(facts.body(fn_def))
    scored = []
    for ev in sx.trace:
        if ev["kind"] == "joinphi" and hk.main_loop is not None and tast.within(hk.main_loop, ev["node"]):
            c = ev["node"]["cond"]
            tested = {p["id"] for p in tast.find(c, lambda z: z.get("k") == "Path" and z.get("res") == "local" and z.get("ty") == "bool")}
            polys = [k for k, v in ev["created"].items() if isinstance(v, Poly) and k not in tested]
            hit = [k for k in polys if k in interest]
            if len(polys) >= 2 and hit:
                if not any(c2 is ev["node"] for _, c2 in scored):
                    scored.append((len(hit), ev["node"]))
    # NaN guards are always split: the two branches must not be merged for NaN reasoning
    is_guard = lambda z: z.get("k") == "If" and tast.contains(
        z["cond"], lambda q: q.get("k") == "MethodCall" and q.get("name") in ("is_nan", "is_finite", "is_infinite"))
    guards = list(tast.find(hk.main_loop, is_guard))
    # `match v { x if x.is_nan() => .., x => .. }` is the same guard written as a match: the interpreter runs it as an if-chain
    from symx import guard_chain_if
    match_of = {}
    for m_ in tast.find(hk.main_loop, lambda z: z.get("k") == "Match" and any(a.get("guard") is not None for a in z.get("arms", []))):
        gi = guard_chain_if(m_)
        if gi is not None and is_guard(gi):
            guards.append(gi)
            match_of[id(gi)] = m_
    # ... also inside private helpers the interpreter steps into from the main loop (an error norm moved into a helper)
    for c_ in tast.find(hk.main_loop, lambda z: z.get("k") in ("Call", "MethodCall") and facts.inlinable(z.get("def") or "")):
        guards += tast.find(facts.bodies[c_["def"]]["body"], is_guard)
    seen_g = set()
    for n in guards:
        if id(n) in seen_g:
            continue
        seen_g.add(id(n))
        if not any(c2 is n for _, c2 in scored):
            scored.append((100, n))
        # conditionals that enclose a NaN guard (up to the accept test) decide whether the guard runs at all
        anchor = match_of.get(id(n), n)
        for anc, parents in tast.find_with_parents(hk.main_loop, lambda z, anchor=anchor: z is anchor):
            for a in parents:
                if a.get("k") == "If" and a is not hk.accept_if and a is not n and not any(c2 is a for _, c2 in scored):
                    if tast.contains(a["then"], lambda z: z is anchor) or (a.get("else") is not None and tast.contains(a["else"], lambda z: z is anchor)):
                        scored.append((90, a))
    # a let-bound boolean tested by several `if`s of one iteration (`let last = ..; if last {h = ..} .. x = if last {..} else {..}`):
    # joining after the first test would lose the correlation with the later ones, so the first test is split
    if hk.main_loop is not None:
        flag_ifs = {}
        for i_ in tast.find(hk.main_loop, lambda z: z.get("k") == "If"):
            c = i_["cond"]
            while c.get("k") == "Unary" and c.get("op") == "Not":
                c = c["e"]
            if c.get("k") == "Path" and c.get("res") == "local" and c.get("ty") == "bool":
                flag_ifs.setdefault(c["id"], []).append(i_)
        # `match flag { true => .., false => .. }` is a test of the flag as well
        for m_ in tast.find(hk.main_loop, lambda z: z.get("k") == "Match" and z["scrut"].get("k") == "Path" and z["scrut"].get("res") == "local" and z["scrut"].get("ty") == "bool"):
            if m_["scrut"]["id"] in flag_ifs:
                flag_ifs[m_["scrut"]["id"]].append(m_)
        let_ids = {l["pat"]["id"] for l in tast.find(hk.main_loop, lambda z: z.get("k") == "Let" and z["pat"].get("k") == "PBind" and z["pat"].get("ty") == "bool" and z.get("init") is not None)}
        assigned = {a["l"]["id"] for a in tast.find(hk.main_loop, lambda z: z.get("k") == "Assign" and z["l"].get("k") == "Path")}
        for fid, ifs_ in flag_ifs.items():
            if fid in let_ids and fid not in assigned and len(ifs_) >= 2:
                first = ifs_[0]
                if first is not hk.accept_if and not any(c2 is first for _, c2 in scored) and tast.contains(first, lambda z: z.get("k") in ("Assign", "AssignOp")):
                    scored.append((80, first))
    scored.sort(key=lambda t: -t[0])
    cands = [n for _, n in scored[:max_split]]
    if not cands:
        return [("join", sx, hk)]
    out = []
    import itertools
    for combo in itertools.product(("then", "else"), repeat=len(cands)):
        forced = {id(n): b for n, b in zip(cands, combo)}
        tag = ",".join("%s@%s" % (b, n.get("sp", "?").split(":")[-2]) for n, b in zip(cands, combo))
        s2, h2 = analyse_solve(facts, fn_def, forced=forced, **kw)
        out.append((tag, s2, h2))
    return out


def imprecise_in_main(sx, hk):
    """constructs inside the main loop that the interpreter could not model precisely (e.g. `for` over iterator adaptors
    over tracked buffers): verdicts that rest on the ABSENCE of a derived fact must then be INCONCLUSIVE, not violations"""
    out = []
    if hk.main_loop is None:
        return out
    for what, node in sx.imprecise:
        if tast.contains(hk.main_loop, lambda z: z is node):
            # only loops that touch f64 data matter
            if tast.contains(node, lambda z: z.get("ty") in ("f64", "&f64", "&mut f64")):
                out.append("%s at %s" % (what, node.get("sp")))
    return out


def step_atom(hk, latch_state):
    """The step actually taken: latch x - X must be a single atom (1*H)."""
    xl = latch_state.get(hk.xkey)
    if not isinstance(xl, Poly):
        return None, xl
    d = xl - Poly.atom("X")
    return d.single_atom(), d


def stage_rows(hk, H):
    """Butcher rows from the recorded in-loop stages. Returns (names, c, A, problems)."""
    names = [s["name"] for s in hk.stages]
    idx = {n: i for i, n in enumerate(names)}
    c = []
    A = []
    problems = []
    for s in hk.stages:
        if s.get("head"):
            c.append(Fraction(0))
            A.append({})
            continue
        T = s["T"]
        tau = None
        if isinstance(T, Poly):
            d = T - Poly.atom("X")
            q = d.div(Poly.atom(H))
            tau = q.const_value()
        if tau is None:
            problems.append("stage %s: abscissa %r is not X + tau*%s" % (s["name"], T, H))
        c.append(tau)
        row = {}
        arg = s["arg"]
        ok = False
        if isinstance(arg, Poly):
            d = arg - Poly.atom("Y")
            lin = d.linear_in(names)
            if lin is not None:
                co, rest = lin
                if rest.is_zero():
                    ok = True
                    for a, p in co.items():
                        q = p.div(Poly.atom(H)).const_value()
                        if q is None:
                            ok = False
                            problems.append("stage %s: coefficient of %s is %r, not a constant multiple of the step" % (s["name"], a, p))
                        elif idx[a] >= idx[s["name"]]:
                            ok = False
                            problems.append("stage %s uses later stage %s" % (s["name"], a))
                        else:
                            row[idx[a]] = q
        if not ok and not any(p.startswith("stage %s" % s["name"]) for p in problems):
            problems.append("stage %s: argument %r is not Y + h*sum(a*F)" % (s["name"], arg))
        A.append(row)
    return names, c, A, problems


def weights_of(form, names, H, base="Y", hpow=1):
    """form == base + H^hpow * sum b_j F_j  -> dict j->b (Fractions) or None"""
    if not isinstance(form, Poly):
        return None
    d = form - (Poly.atom(base) if base else Poly())
    lin = d.linear_in(names)
    if lin is None:
        return None
    co, rest = lin
    if not rest.is_zero():
        return None
    idx = {n: i for i, n in enumerate(names)}
    out = {}
    hp = Poly.atom(H) ** hpow if hpow else Poly.const(1)
    for a, p in co.items():
        q = p.div(hp).const_value()
        if q is None:
            return None
        out[idx[a]] = q
    return out


def theta_weights(form, names, H, TH, base="Y"):
    """form == base + H * sum b_j(theta) F_j -> dict j -> {power: Fraction}"""
    d = form - Poly.atom(base)
    lin = d.linear_in(names)
    if lin is None:
        return None
    co, rest = lin
    if not rest.is_zero():
        return None
    idx = {n: i for i, n in enumerate(names)}
    out = {}
    for a, p in co.items():
        q = p.div(Poly.atom(H))
        coll = q.collect(TH)
        w = {}
        for pw, cp in coll.items():
            cv = cp.const_value()
            if cv is None:
                return None
            if cv != 0:
                w[pw] = cv
        out[idx[a]] = w
    return out


def analyse_interpolate(facts, fn_def):
    """Symbolic value written to `yi` by X::interpolate with xi = XOLD + TH*HH."""
    body = facts.body(fn_def)
    sx = SymExec(facts, fn_def, Hooks())
    params = body["params"]
    if len(params) != 5:
        raise AnalysisError("%s: expected 5 parameters" % fn_def)
    names = [p.get("name") for p in params]
    TH, HH, XO = Poly.atom("TH"), Poly.atom("HH"), Poly.atom("XOLD")
    ov = {names[0]: XO + TH * HH, names[3]: XO, names[4]: HH}
    sx.bind_params(ov)
    ck = params[2]["id"]
    yk = params[1]["id"]
    sx.st[ck] = Buf("cont", {}, Poly.atom("len(cont)"))
    sx.st[yk] = Buf("yi", {}, Poly.atom("len(yi)"))
    sx.eval(body["body"])
    if sx.st is None:
        raise AnalysisError("%s: no normal exit" % fn_def)
    out = sx.st[yk]
    # early returns: (path condition, value of yi[0] at the return); the fall-through value alone is not the whole function
    sx.early_returns = []
    for ev in sx.trace:
        if ev.get("kind") == "return" and isinstance(ev.get("state"), dict):
            o2 = ev["state"].get(yk)
            sx.early_returns.append((ev.get("pc") or [], o2.get(0) if isinstance(o2, Buf) else None, ev.get("node")))
    return out.get(0) if isinstance(out, Buf) else None, sx
