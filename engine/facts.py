"""Build / load the fact files produced by driver/ivp-facts for /repo's current tree.

Freshness: the driver is re-run whenever the hash of the analysed source set differs from
the one the cached fact file was produced from (or the driver binary changed); after
loading, the per-file hashes recorded *by the compiler* are compared with the files on
disk. A missing or stale fact file is a hard error (exit 2), never a pass.
"""
import glob
import hashlib
import json
import os
import shutil
import subprocess
import sys
import time

VERIF = os.path.dirname(os.path.dirname(os.path.abspath(__file__)))
REPO = os.environ.get("IVP_REPO", "/repo")
CACHE = os.environ.get("IVP_VERIF_CACHE", os.path.join(VERIF, ".cache"))
DRIVER = os.path.join(VERIF, "driver", "target", "release", "ivp-facts")

CONFIGS = {
    "default": ["--lib"],
    "python": ["--lib", "--features", "python"],
}


class FactsError(Exception):
    pass


def _sysroot():
    return subprocess.check_output(["rustc", "+nightly", "--print", "sysroot"], text=True).strip()


def tree_hash(repo=REPO):
    h = hashlib.sha256()
    paths = [os.path.join(repo, "Cargo.toml"), os.path.join(repo, "Cargo.lock")]
    for root in ("src",):
        for dp, dn, fn in os.walk(os.path.join(repo, root)):
            dn.sort()
            for f in sorted(fn):
                paths.append(os.path.join(dp, f))
    for p in sorted(paths):
        if os.path.exists(p):
            h.update(os.path.relpath(p, repo).encode())
            h.update(b"\0")
            with open(p, "rb") as fh:
                h.update(fh.read())
            h.update(b"\0")
    if os.path.exists(DRIVER):
        with open(DRIVER, "rb") as fh:
            h.update(hashlib.sha256(fh.read()).digest())
    return h.hexdigest()


def ensure_driver():
    if not os.path.exists(DRIVER):
        env = dict(os.environ, CARGO_NET_OFFLINE="true")
        r = subprocess.run(
            ["cargo", "+nightly", "build", "--release", "--offline"],
            cwd=os.path.join(VERIF, "driver"), env=env, capture_output=True, text=True)
        if r.returncode != 0 or not os.path.exists(DRIVER):
            raise FactsError("driver build failed:\n" + r.stderr[-2000:])


def build(cfg="default", repo=REPO, cache=CACHE):
    """Run the driver over `repo` for one configuration; returns the fact file path.
    Concurrent checks share the cache, so generation is serialised per configuration by a file lock."""
    import fcntl
    os.makedirs(cache, exist_ok=True)
    with open(os.path.join(cache, "facts-%s.lock" % cfg), "w") as lk:
        fcntl.flock(lk, fcntl.LOCK_EX)
        try:
            return _build_locked(cfg, repo, cache)
        finally:
            fcntl.flock(lk, fcntl.LOCK_UN)


def _build_locked(cfg, repo, cache):
    ensure_driver()
    th = tree_hash(repo)
    outdir = os.path.join(cache, "facts", cfg + "-" + th[:24])
    marker = os.path.join(outdir, "DONE")
    if os.path.exists(marker):
        fs = glob.glob(os.path.join(outdir, "ivp-lib-*.json"))
        if len(fs) == 1:
            return fs[0], th, True
    # drop older fact dirs of this cfg (disk hygiene)
    for d in glob.glob(os.path.join(cache, "facts", cfg + "-*")):
        shutil.rmtree(d, ignore_errors=True)
    os.makedirs(outdir, exist_ok=True)
    target = os.path.join(cache, "target-" + cfg)
    os.makedirs(target, exist_ok=True)
    # cargo's freshness cache would skip the wrapper for an up-to-date member
    for d in glob.glob(os.path.join(target, "debug", ".fingerprint", "ivp-*")):
        shutil.rmtree(d, ignore_errors=True)
    env = dict(os.environ)
    env.update({
        "LD_LIBRARY_PATH": _sysroot() + "/lib:" + env.get("LD_LIBRARY_PATH", ""),
        "RUSTFLAGS": "-Zmir-opt-level=0 -Awarnings",
        "RUSTC_WORKSPACE_WRAPPER": DRIVER,
        "CARGO_TARGET_DIR": target,
        "CARGO_NET_OFFLINE": "true",
        "IVP_FACTS_OUT": outdir,
        "IVP_FACTS_ONLY": "ivp",
        "IVP_FACTS_TAG": cfg,
    })
    env.pop("RUSTC_WRAPPER", None)
    cmd = ["cargo", "+nightly", "check", "--offline"] + CONFIGS[cfg]
    r = subprocess.run(cmd, cwd=repo, env=env, capture_output=True, text=True)
    if r.returncode != 0:
        raise FactsError("cargo check failed for cfg %s (the tree does not compile):\n%s"
                         % (cfg, r.stderr[-3000:]))
    fs = glob.glob(os.path.join(outdir, "ivp-lib-*.json"))
    if len(fs) != 1:
        raise FactsError("expected exactly one fact file in %s, found %d" % (outdir, len(fs)))
    with open(marker, "w") as fh:
        fh.write(th)
    return fs[0], th, False


def _file_hash_ok(repo, rec):
    kind, _, hexv = rec["hash"].partition("=")
    p = os.path.join(repo, rec["name"])
    if not os.path.exists(p):
        return False
    with open(p, "rb") as fh:
        data = fh.read()
    try:
        h = hashlib.new(kind)
    except ValueError:
        return None
    h.update(data)
    return h.hexdigest() == hexv


class Facts:
    def __init__(self, path, tree, cfg, repo=REPO):
        with open(path) as fh:
            d = json.load(fh)
        self.path = path
        self.tree = tree
        self.cfg = cfg
        self.raw = d
        self.files = d["files"]
        self.files = [f for f in self.files if not f["name"].startswith("<")]
        if len(self.files) < 10:
            raise FactsError("fact file lists only %d source files" % len(self.files))
        bad = [f["name"] for f in self.files if _file_hash_ok(repo, f) is False]
        if bad:
            raise FactsError("stale facts: compiler-recorded hash differs from disk for %s" % bad)
        self.bodies = {}
        for b in d["bodies"]:
            self.bodies.setdefault(b["def"], b)
        self.body_list = d["bodies"]
        self.mir = {}
        for m in d["mir"]:
            self.mir.setdefault(m["def"], m)
        self.items = d["items"]
        self.consts = {c["def"]: c for c in d["items"]["consts"]}
        self.adts = {a["def"]: a for a in d["items"]["adts"]}
        self.fns = {f["def"]: f for f in d["items"]["fns"]}

    OPAQUE_HELPERS = ("methods::bdf::weighted_rms_scaled", "methods::bdf::change_d", "methods::bdf::compute_r", "methods::bdf::matmul", "matrix::", "<matrix::", "dense::", "<dense::", "methods::hinit", "methods::Tolerance", "<methods::Tolerance")

    def inlinable(self, d):
        """crate-private helper functions that the interpreters step into (helpers the rules model themselves stay opaque)"""
        rec = self.fns.get(d)
        if rec is None or d not in self.bodies or not str(rec.get("vis", "")).startswith("Restricted"):
            return False
        if d.startswith(self.OPAQUE_HELPERS) or "::{closure" in d:
            return False
        return rec.get("dk") in ("Fn", "AssocFn") and bool(rec.get("has_body"))

    def body(self, def_path):
        b = self.bodies.get(def_path)
        if b is None:
            raise FactsError("anchor missing: no body for %s" % def_path)
        return b


_cache = {}


def load(cfg="default", repo=REPO):
    if cfg == "default":
        # thorough tier: the same rules on the other build configuration
        cfg = os.environ.get("IVP_CFG_OVERRIDE", "default")
    key = (cfg, repo)
    if key in _cache:
        return _cache[key]
    t0 = time.time()
    path, th, cached = build(cfg, repo)
    f = Facts(path, th, cfg, repo)
    f.build_s = time.time() - t0
    f.cached = cached
    _cache[key] = f
    try:
        import mon
        mon.FACTS = f
    except ImportError:
        pass
    return f


if __name__ == "__main__":
    cfg = sys.argv[1] if len(sys.argv) > 1 else "default"
    try:
        f = load(cfg)
    except FactsError as e:
        print("INCONCLUSIVE facts:", e)
        sys.exit(2)
    print(f.path, "bodies", len(f.body_list), "mir", len(f.mir), "cached", f.cached, "%.1fs" % f.build_s)
