"""Symbolic abstract interpreter over the TAST (engine AFF of DESIGN.md).

Values are exact polynomials over atoms (poly.Poly); vector buffers are maps
block -> Poly describing *one generic component*. Control flow is structured: `if`/`match`
are joined (differing values become fresh phi atoms) unless a rule-supplied selector picks
a branch; loops are interpreted once from a havocked head state (sound for every
iteration); component loops `for i in 0..n` are interpreted once with a generic `i`.
Anything not understood becomes an opaque atom - never a guess.
"""
from fractions import Fraction
from poly import Poly, opaque, fresh, lit_fraction, DEFS, ATOM_TY, as_poly
import tast


class Buf:
    """A vector buffer. blocks: int -> Poly (value of the generic component of block k,
    where a block is `unit` consecutive entries). len: Poly or None."""
    __slots__ = ("name", "blocks", "len", "unit", "base")

    def __init__(self, name, blocks=None, length=None, unit=None, base=None):
        self.name = name
        self.blocks = blocks if blocks is not None else {}
        self.len = length
        self.unit = unit
        self.base = base  # default for unwritten blocks: None -> lazily named atom

    def get(self, k):
        if k in self.blocks:
            return self.blocks[k]
        if self.base is not None:
            return self.base
        a = "%s@%d" % (self.name, k)
        if self.name in DEFS and a not in DEFS:
            DEFS[a] = DEFS[self.name]
        return Poly.atom(a)

    def with_block(self, k, v, unit=None):
        b = dict(self.blocks)
        b[k] = v
        return Buf(self.name, b, self.len, self.unit if self.unit is not None else unit, self.base)

    def __eq__(self, o):
        return isinstance(o, Buf) and self.name == o.name and self.blocks == o.blocks and self.base == o.base

    def __hash__(self):
        return hash(self.name)

    def __repr__(self):
        return "Buf(%s,%r)" % (self.name, self.blocks)


class Ref:
    """Reference to an lvalue: key (+ optional block for sub-slices)."""
    __slots__ = ("key", "block", "mut", "unit", "elem")

    def __init__(self, key, block=None, mut=False, unit=None, elem=False):
        self.key = key
        self.block = block
        self.mut = mut
        self.unit = unit
        self.elem = elem   # reference to the generic component of the block (iterator element), not to the sub-slice

    def __eq__(self, o):
        return isinstance(o, Ref) and (self.key, self.block) == (o.key, o.block)

    def __hash__(self):
        return hash((self.key, self.block))

    def __repr__(self):
        return "Ref(%s,%s)" % (self.key, self.block)


class Coll:
    """A growable collection abstracted by the set of element values pushed into it."""
    __slots__ = ("elems",)

    def __init__(self, elems=()):
        self.elems = tuple(elems)

    def add(self, v):
        if any(type(v) is type(x) and v == x for x in self.elems):
            return self
        return Coll(self.elems + (v,))

    def __eq__(self, o):
        return isinstance(o, Coll) and self.elems == o.elems

    def __hash__(self):
        return hash(len(self.elems))

    def __repr__(self):
        return "Coll%r" % (self.elems,)


FACTS = "$facts"


VEC_TYPES = ("std::vec::Vec<f64>", "&[f64]", "&mut [f64]", "&std::vec::Vec<f64>", "&mut std::vec::Vec<f64>",
             "[f64]", "methods::Tolerance", "&methods::Tolerance", "&mut methods::Tolerance")


def is_vec_ty(ty):
    return ty in VEC_TYPES


class Exit(Exception):
    pass


class SymExec:
    def __init__(self, facts, fn_def, hooks=None):
        self.facts = facts
        self.fn = facts.body(fn_def)
        self.fn_def = fn_def
        self.h = hooks
        self.st = {}
        self.names = {}       # key -> source name (messages only)
        self.exits = []       # (kind, target, state, value)
        self.bound0 = {}      # binding id -> the value it was first bound to (the state forgets it at a join)
        self.comp = []        # stack of (i_atom, unit_poly)
        self.trace = []       # events in interpretation order
        self.cond_depth = 0   # number of enclosing joined (unresolved) conditionals
        self.const_cache = {}
        self.notes = []
        self.key_ty = {}
        self.lazy = {}     # key -> value it got when first read without ever being assigned
        self._loop_heads = {}
        self._refined = []
        self.imprecise = []   # constructs the interpreter could only over-approximate (rules downgrade absence-based verdicts)
        self.flagfacts = {}  # (bool key, value) -> tuple of fact sets, one per assignment of that literal (alternatives)
        self.pc = []       # path condition: (if-node, branch, cond value) of the enclosing conditionals
        self._inline_stack = []
        self._inline_sites = []
        self.closure_nodes = {}
        self.inlined = []     # (callee def, call node) of crate-local helpers interpreted in place

    # ------------------------------------------------------------------ utilities
    def log(self, kind, **kw):
        kw["kind"] = kind
        kw["cond_depth"] = self.cond_depth
        if self._inline_sites and kind in ("push", "store", "assign", "interp", "events", "call", "return_value", "copy") and "node" in kw:
            # events raised inside a helper interpreted in place are attributed to the call site in the analysed function
            kw["inner_node"] = kw["node"]
            kw["node"] = self._inline_sites[0]
        self.trace.append(kw)

    def fresh(self, prefix):
        return fresh(prefix)

    @property
    def cond_phis(self):
        t = self.__dict__.get("_cond_phis")
        if t is None:
            t = self.__dict__["_cond_phis"] = {}
        return t

    def const_value(self, def_path):
        if def_path in self.const_cache:
            return self.const_cache[def_path]
        b = self.facts.bodies.get(def_path)
        if b is None or b["dk"] not in ("Const", "AssocConst"):
            v = Poly.atom("const:" + def_path)
        else:
            sub = SymExec(self.facts, def_path)
            sub.const_cache = self.const_cache
            sub.st = {}
            try:
                v = sub.eval(b["body"])
            except Exception:
                v = Poly.atom("const:" + def_path)
            if not isinstance(v, Poly) or not v.is_const():
                if not isinstance(v, Poly):
                    v = Poly.atom("const:" + def_path)
        self.const_cache[def_path] = v
        return v

    def param_value(self, pat, name_hint=None):
        """Initial symbolic value for a parameter pattern; binds into self.st."""
        if pat["k"] == "PBind":
            key = pat["id"]
            name = pat["name"]
            self.names[key] = name
            ty = pat["ty"]
            if is_vec_ty(ty):
                v = Buf(name, length=Poly.atom("len(%s)" % name))
            else:
                v = Poly.atom(name)
            self.st[key] = v
            return v
        return None

    def bind_params(self, overrides=None):
        overrides = overrides or {}
        for p in self.fn["params"]:
            if p["k"] == "PBind" and p["name"] in overrides:
                self.st[p["id"]] = overrides[p["name"]]
                self.names[p["id"]] = p["name"]
            else:
                self.param_value(p)

    def key_by_name(self, name):
        ks = [k for k, n in self.names.items() if n == name]
        return ks

    # ------------------------------------------------------------------ state helpers
    def get(self, key, name=None, ty=None):
        if key in self.st:
            return self.st[key]
        # lazily created value for never-assigned keys (fields of params etc.)
        nm = name or self.names.get(key, key)
        ty = ty or self.key_ty.get(key)
        if ty is not None and is_vec_ty(ty):
            v = Buf(nm, length=Poly.atom("len(%s)" % nm))
        else:
            v = Poly.atom(nm)
        self.st[key] = v
        self.lazy[key] = v
        return v

    def set(self, key, v):
        # assigning a whole struct invalidates tracked field keys
        pref = key + "."
        for k in [k for k in self.st if k.startswith(pref)]:
            del self.st[k]
        self.st[key] = v

    def havoc_key(self, key, why="havoc", inputs=None, op="callout"):
        old = self.st.get(key)
        nm = self.names.get(key, key)
        if inputs is not None:
            prev = [old] if isinstance(old, Poly) else ([old.get(0)] if isinstance(old, Buf) and (not old.blocks or list(old.blocks) == [0]) else
                                                          [v for v in old.blocks.values() if isinstance(v, Poly)] if isinstance(old, Buf) else [])
            inputs = list(inputs) + prev
        if isinstance(old, Buf):
            f = fresh("%s~%s" % (nm, why), inputs, op)
            self.set(key, Buf(f.single_atom(), {}, old.len, old.unit, base=None))
        else:
            self.set(key, fresh("%s~%s" % (nm, why), inputs, op))

    @staticmethod
    def join_val(a, b, tag):
        if a is None or b is None:
            return fresh("phi~" + tag)
        if isinstance(a, Buf) and isinstance(b, Buf):
            if a == b:
                return a
            blocks = {}
            for k in set(a.blocks) | set(b.blocks):
                va, vb = a.get(k), b.get(k)
                blocks[k] = va if va == vb else fresh("phi~%s@%d" % (tag, k), [va, vb])
            if a.name == b.name and a.base == b.base:
                return Buf(a.name, blocks, a.len, a.unit, a.base)
            f = fresh("phi~" + tag)
            return Buf(f.single_atom(), blocks, a.len if a.len == b.len else None, a.unit)
        if type(a) is not type(b):
            return fresh("phi~" + tag)
        if a == b:
            return a
        if isinstance(a, Coll):
            c = a
            for x in b.elems:
                c = c.add(x)
            return c
        return fresh("phi~" + tag, [a, b])

    def join_states(self, states):
        states = [s for s in states if s is not None]
        if not states:
            return None
        if len(states) == 1:
            return states[0]
        out = {}
        keys = set()
        for s in states:
            keys |= set(s)
        for k in keys:
            if k == FACTS:
                fs = [s.get(FACTS, frozenset()) for s in states]
                out[k] = frozenset.intersection(*fs)
                continue
            vals = [s.get(k, self.lazy.get(k)) for s in states]
            v = vals[0]
            for w in vals[1:]:
                v = self.join_val(v, w, self.names.get(k, k))
            out[k] = v
        return out

    def add_fact(self, cond, truth):
        if self.st is None or not isinstance(cond, Poly):
            return
        self.st[FACTS] = self.st.get(FACTS, frozenset()) | {(cond, truth)}

    def path_facts(self, st=None):
        st = self.st if st is None else st
        return st.get(FACTS, frozenset()) if st is not None else frozenset()

    # ------------------------------------------------------------------ lvalues
    def lvalue(self, e):
        """Resolve an lvalue expression to ('key', key) | ('elem', key, block, unit) |
        ('slice', key, block, unit) | ('unknown', rootkey|None)"""
        k = e["k"]
        if k == "Path" and e.get("res") == "local":
            key = e["id"]
            self.names.setdefault(key, e.get("name", key))
            v = self.st.get(key)
            if isinstance(v, Ref):
                if v.block is not None:
                    if v.elem:
                        return ("elem", v.key, v.block, v.unit)
                    return ("slice", v.key, v.block, v.unit)
                return ("key", v.key)
            return ("key", key)
        if k == "Field":
            base = self.lvalue(e["e"])
            if base[0] == "key":
                key = base[1] + "." + e["name"]
                self.names.setdefault(key, self.names.get(base[1], base[1]) + "." + e["name"])
                if e.get("ty"):
                    self.key_ty.setdefault(key, e["ty"])
                return ("key", key)
            return ("unknown", base[1] if len(base) > 1 else None)
        if k == "Unary" and e["op"] == "Deref":
            return self.lvalue(e["e"])
        if k == "Index":
            base = self.lvalue(e["e"])
            root = base[1] if len(base) > 1 else None
            if base[0] == "slice" and self.comp and self.range_of(e["i"]) is None:
                # element of a sub-slice `&v[k*n..(k+1)*n]` indexed by the component variable
                p0 = self.eval(e["i"])
                if isinstance(p0, Poly):
                    blk0 = self.classify_index(p0)
                    if blk0 is not None and blk0[0] == 0:
                        return ("elem", base[1], base[2], base[3])
                return ("unknown", root)
            if base[0] != "key":
                return ("unknown", root)
            idx = e["i"]
            rng = self.range_of(idx)
            if rng is not None:
                lo, hi, incl = rng
                if lo is None or hi is None:
                    return ("unknown", root)
                if incl:
                    hi = hi + 1
                unit = hi - lo
                if unit.is_zero():
                    return ("unknown", root)
                q = lo.div(unit)
                c = q.const_value()
                if c is not None and c.denominator == 1:
                    return ("slice", root, int(c), unit)
                return ("unknown", root)
            p = self.eval(idx)
            if isinstance(p, Poly) and self.comp:
                blk = self.classify_index(p)
                if blk is not None:
                    return ("elem", root, blk[0], blk[1])
            if isinstance(p, Poly):
                c = p.const_value()
                if c is not None and c.denominator == 1:
                    return ("const_elem", root, int(c), None)
            return ("unknown", root)
        if k == "MethodCall" and e.get("name") in ("as_mut", "as_ref", "as_slice", "as_mut_slice", "borrow", "borrow_mut"):
            return self.lvalue(e["recv"])
        if k == "AddrOf":
            return self.lvalue(e["e"])
        return ("unknown", None)

    def classify_index(self, p):
        """p == k*U + i for the innermost component loop (i, U) -> (k, U)"""
        for i_atom, unit in reversed(self.comp):
            d = p - Poly.atom(i_atom)
            if i_atom in d.atoms():
                continue
            if d.is_zero():
                return (0, unit)
            if unit is None:
                return None
            q = d.div(unit)
            c = q.const_value()
            if c is not None and c.denominator == 1:
                return (int(c), unit)
            return None
        return None

    def range_of(self, e):
        """(lo, hi, inclusive) polys if e is a range literal"""
        if e.get("k") == "Struct" and e.get("def") in ("std::ops::Range", "std::ops::RangeInclusive",
                                                          "std::ops::RangeFrom", "std::ops::RangeTo", "std::ops::RangeFull"):
            lo = hi = None
            for f in e["fields"]:
                if f["name"] == "start":
                    lo = self.eval(f["e"])
                elif f["name"] == "end":
                    hi = self.eval(f["e"])
            return (lo, hi, e["def"].endswith("Inclusive"))
        if e.get("k") == "Call" and "RangeInclusive" in (e.get("def") or "") and len(e["args"]) == 2:
            return (self.eval(e["args"][0]), self.eval(e["args"][1]), True)
        return None

    def read_lv(self, lv, e=None):
        kind = lv[0]
        if kind == "key":
            v = self.get(lv[1])
            return v
        if kind in ("elem", "slice", "const_elem"):
            b = self.get(lv[1])
            if isinstance(b, Buf):
                if kind == "elem":
                    return b.get(lv[2])
                if kind == "const_elem":
                    return opaque("elt", [Poly.atom(b.name), Poly.const(lv[2])])
                return Ref(lv[1], lv[2], unit=lv[3])
            if isinstance(b, Poly) and isinstance(lv[2], int):
                # a literal array held in a local, indexed by a constant: that element
                bd = DEFS.get(b.single_atom()) if b.single_atom() else None
                for _ in range(3):
                    if bd and bd[0] in ("unwrap", "as_ref", "deref", "addr") and bd[1] and isinstance(bd[1][0], Poly) and bd[1][0].single_atom():
                        bd = DEFS.get(bd[1][0].single_atom())
                    else:
                        break
                if bd and bd[0] == "array" and 0 <= lv[2] < len(bd[1]) and isinstance(bd[1][lv[2]], Poly):
                    return bd[1][lv[2]]
            return opaque("idx", [as_poly(b) if isinstance(b, Poly) else Poly.atom(str(b)), Poly.const(lv[2])])
        return self.fresh("unk")

    def write_lv(self, lv, v):
        kind = lv[0]
        if kind == "key":
            self.set(lv[1], v)
            return
        if kind == "elem":
            b = self.get(lv[1])
            if isinstance(b, Buf) and isinstance(v, Poly):
                self.st[lv[1]] = b.with_block(lv[2], v, lv[3])
                self.log("store", key=lv[1], block=lv[2], value=v)
                return
            self.havoc_key(lv[1], "badstore")
            return
        if kind in ("slice",):
            b = self.get(lv[1])
            if isinstance(b, Buf):
                val = v.get(0) if isinstance(v, Buf) else v
                if isinstance(val, Poly):
                    self.st[lv[1]] = b.with_block(lv[2], val, lv[3])
                    return
            self.havoc_key(lv[1], "badslice")
            return
        if len(lv) > 1 and lv[1] is not None:
            self.havoc_key(lv[1], "w")

    # ------------------------------------------------------------------ expressions
    def eval(self, e):
        if e is None:
            return Poly.atom("unit")
        m = getattr(self, "e_" + e["k"], None)
        if m is None:
            return opaque("node", [Poly.atom(e["k"])], tag=e.get("sp"))
        return m(e)

    def e_Lit(self, e):
        lk = e["lk"]
        if lk in ("Int", "Float"):
            return Poly.const(lit_fraction(e["v"]))
        if lk == "Bool":
            return Poly.atom("true" if e["v"] else "false")
        return opaque("lit", [Poly.atom(repr(e["v"]))])

    def e_Path(self, e):
        if e.get("res") == "local":
            lv = self.lvalue(e)
            return self.read_lv(lv, e)
        d = e.get("def", "?")
        dk = e.get("dk")
        if dk in ("Const", "AssocConst"):
            return self.const_value(d)
        return Poly.atom("def:" + d)

    def e_Cast(self, e):
        return self.eval(e["e"])

    def e_Unary(self, e):
        op = e["op"]
        if op == "Deref":
            v = self.eval(e["e"])
            if isinstance(v, Ref):
                if v.block is None:
                    return self.get(v.key)
                return v
            return v
        v = self.eval(e["e"])
        if op == "Neg" and isinstance(v, Poly):
            return -v
        if isinstance(v, Poly):
            return opaque(op.lower(), [v])
        return self.fresh("un")

    def e_Binary(self, e):
        op = e["op"]
        if op in ("And", "Or"):
            l = self.eval(e["l"])
            # the right operand may not execute; it has no side effects in this code base
            # that we track, but evaluate it on a copy to be safe
            saved = dict(self.st) if self.st is not None else None
            # short-circuit: the right operand runs only when the left one is true (&&) / false (||)
            if self.st is not None and isinstance(l, Poly):
                self.add_fact(l, op == "And")
            r = self.eval(e["r"])
            if saved is not None and self.st is not None:
                self.st = self.join_states([self.st, saved])
            return opaque(op.lower(), [self._p(l), self._p(r)])
        l = self.eval(e["l"])
        r = self.eval(e["r"])
        return self.binop(op, l, r, e)

    def _p(self, v):
        if isinstance(v, Poly):
            return v
        if isinstance(v, Buf):
            if not v.blocks or list(v.blocks) == [0]:
                return opaque("vec", [v.get(0)])
            return Poly.atom("buf:" + v.name)
        if isinstance(v, Ref):
            tgt = self.st.get(v.key) if self.st is not None else None
            if isinstance(tgt, Buf):
                return opaque("vec", [tgt.get(v.block if v.block is not None else 0)])
            return Poly.atom("ref:%s" % self.names.get(v.key, v.key))
        if isinstance(v, Coll):
            return opaque("coll", [self._p(x) for x in v.elems])
        return Poly.atom(str(v))

    def binop(self, op, l, r, e=None):
        if not isinstance(l, Poly) or not isinstance(r, Poly):
            return opaque(op.lower(), [self._p(l), self._p(r)])
        if op == "Add":
            return l + r
        if op == "Sub":
            return l - r
        if op == "Mul":
            return l * r
        if op == "Div":
            if e is not None and e.get("ty") in ("usize", "i32", "i64", "u32", "u64", "isize"):
                # integer division is exact only when the result is a polynomial with
                # integer content; keep it exact for monomial divisors (n*5/5), opaque otherwise
                c = r.const_value()
                if c is not None and c != 0:
                    q = l * Poly.const(1 / c)
                    return q
                return opaque("idiv", [l, r])
            return l.div(r)
        if op == "Rem":
            return opaque("rem", [l, r])
        if op in ("Lt", "Le", "Gt", "Ge", "Eq", "Ne"):
            # constant folding (incl. +infinity) so that infeasible branches are not explored
            def num(p):
                c = p.const_value()
                if c is not None:
                    return float(c)
                a = p.single_atom()
                if a and a.endswith("::INFINITY"):
                    return float("inf")
                if a and a.endswith("::NEG_INFINITY"):
                    return float("-inf")
                return None
            a, b = num(l), num(r)
            if a is not None and b is not None:
                res = {"Lt": a < b, "Le": a <= b, "Gt": a > b, "Ge": a >= b, "Eq": a == b, "Ne": a != b}[op]
                return self.TRUE if res else self.FALSE
        return opaque(op.lower(), [l, r])

    def e_Tuple(self, e):
        vs = [self._p(self.eval(x)) for x in e["elems"]]
        if not vs:
            return Poly.atom("unit")
        return opaque("tuple", vs)

    def e_Array(self, e):
        vs = [self._p(self.eval(x)) for x in e["elems"]]
        return opaque("array", vs)

    def e_Repeat(self, e):
        return opaque("repeat", [self._p(self.eval(e["e"]))])

    def e_AddrOf(self, e):
        inner = e["e"]
        lv = self.lvalue(inner)
        if lv[0] == "key":
            v = self.st.get(lv[1])
            if isinstance(v, Buf) or inner["k"] in ("Path", "Field"):
                return Ref(lv[1], None, e.get("mut", False))
        if lv[0] == "slice":
            return Ref(lv[1], lv[2], e.get("mut", False), lv[3])
        if lv[0] == "elem" and e.get("mut", False):
            # `&mut buf[k*n + i]` handed to a helper: a reference to that element (writes through it reach the buffer)
            return Ref(lv[1], lv[2], True, lv[3], True)
        v = self.eval(inner)
        return v

    def e_Field(self, e):
        lv = self.lvalue(e)
        if lv[0] == "key":
            return self.get(lv[1])
        b = self.eval(e["e"])
        return opaque("field", [self._p(b), Poly.atom(e["name"])])

    def e_Index(self, e):
        lv = self.lvalue(e)
        if lv[0] in ("elem", "slice", "const_elem"):
            return self.read_lv(lv, e)
        b = self.eval(e["e"])
        i = self.eval(e["i"]) if self.range_of(e["i"]) is None else Poly.atom("range")
        # a literal array / tuple indexed by a constant is that element (`let w = [a, b, c]; w[1]`)
        ba = b.single_atom() if isinstance(b, Poly) else None
        bd = DEFS.get(ba) if ba else None
        for _ in range(3):
            if bd and bd[0] in ("unwrap", "as_ref", "deref", "addr") and bd[1] and isinstance(bd[1][0], Poly) and bd[1][0].single_atom():
                bd = DEFS.get(bd[1][0].single_atom())
            else:
                break
        ic = i.const_value() if isinstance(i, Poly) else None
        if bd and bd[0] == "array" and ic is not None and ic.denominator == 1 and 0 <= int(ic) < len(bd[1]) and isinstance(bd[1][int(ic)], Poly):
            return bd[1][int(ic)]
        return opaque("idx", [self._p(b), self._p(i)])

    def e_Assign(self, e):
        v = self.eval(e["r"])
        lv = self.lvalue(e["l"])
        if isinstance(v, Ref) and v.block is None and isinstance(self.st.get(v.key), Buf) and lv[0] != "key":
            v = self.st[v.key]
        self.log("assign", lv=lv, value=v, node=e)
        if lv[0] == "key" and isinstance(v, Poly) and v in (self.TRUE, self.FALSE) and self.st is not None:
            fk = (lv[1], v == self.TRUE)
            cur = self.st.get(FACTS, frozenset())
            self.flagfacts[fk] = self.flagfacts.get(fk, ()) + (cur,)
        self.write_lv(lv, v)
        return Poly.atom("unit")

    def e_AssignOp(self, e):
        lv = self.lvalue(e["l"])
        old = self.read_lv(lv)
        r = self.eval(e["r"])
        op = e["op"].replace("Assign", "")
        v = self.binop(op, old, r) if isinstance(old, Poly) else self.fresh("aop")
        self.log("assign", lv=lv, value=v, node=e, op=op, rhs=r)
        self.write_lv(lv, v)
        return Poly.atom("unit")

    def e_Block(self, e):
        return self.exec_block(e)

    def exec_block(self, b):
        for s in b["stmts"]:
            if self.st is None:
                return Poly.atom("never")
            k = s["k"]
            if k == "Let":
                v = self.eval(s["init"]) if s.get("init") is not None else None
                if self.st is None:
                    return Poly.atom("never")
                if s.get("els") is not None:
                    # let-else: else branch diverges
                    saved = self.st
                    self.st = dict(saved)
                    self.exec_block(s["els"])
                    self.st = saved
                self.bind_pat(s["pat"], v)
            elif k == "ExprStmt":
                self.eval(s["e"])
        if self.st is None:
            return Poly.atom("never")
        if b.get("tail") is not None:
            return self.eval(b["tail"])
        return Poly.atom("unit")

    def bind_pat(self, pat, v):
        k = pat["k"]
        if k == "PBind":
            key = pat["id"]
            self.names[key] = pat["name"]
            self.key_ty[key] = pat.get("ty")
            if v is None:
                # declared, not initialised
                self.st.pop(key, None)
                if is_vec_ty(pat["ty"]):
                    self.st[key] = Buf(pat["name"])
                return
            if isinstance(v, Ref) and v.block is None and "&" not in pat["ty"]:
                v = self.get(v.key)
            if isinstance(v, Buf) and not pat["ty"].startswith("&"):
                # a fresh owned buffer takes the binding's name (values are copied)
                v = Buf(v.name, dict(v.blocks), v.len, v.unit, v.base)
            self.st[key] = v
            self.bound0.setdefault(key, v)
            if isinstance(v, Poly) and v in (self.TRUE, self.FALSE):
                fk = (key, v == self.TRUE)
                cur = self.st.get(FACTS, frozenset())
                self.flagfacts[fk] = self.flagfacts.get(fk, ()) + (cur,)
            if pat.get("sub"):
                self.bind_pat(pat["sub"], v)
            return
        if k == "PWild":
            return
        if k in ("PTuple", "PTupleStruct"):
            d = None
            if isinstance(v, Poly):
                a = v.single_atom()
                if a and a in DEFS and DEFS[a][0] in ("tuple",):
                    d = DEFS[a][1]
                elif a and a in DEFS and DEFS[a][0] == "phi":
                    leaves = phi_leaves(v)
                    tl = []
                    for lf in leaves:
                        la = lf.single_atom()
                        if la and la in DEFS and DEFS[la][0] == "tuple" and len(DEFS[la][1]) == len(pat["pats"]):
                            tl.append(DEFS[la][1])
                        else:
                            tl = None
                            break
                    if tl:
                        d = []
                        for j in range(len(pat["pats"])):
                            comps = [t[j] for t in tl]
                            if all(c == comps[0] for c in comps):
                                d.append(comps[0])
                            else:
                                d.append(fresh("phi~comp%d" % j, comps))
            for j, p in enumerate(pat["pats"]):
                if d is not None and len(d) == len(pat["pats"]):
                    self.bind_pat(p, d[j])
                else:
                    self.bind_pat(p, opaque("proj", [self._p(v) if v is not None else Poly.atom("?"), Poly.const(j)]))
            return
        if k == "PStruct":
            for f in pat["fields"]:
                self.bind_pat(f["pat"], opaque("proj", [self._p(v) if v is not None else Poly.atom("?"), Poly.atom(f["name"])]))
            return
        if k in ("PRef", "PDeref", "PGuard"):
            self.bind_pat(pat["pat"], v)
            return
        if k == "POr":
            for p in pat["pats"]:
                self.bind_pat(p, v)
            return

    # ---- control flow
    def e_LetExpr(self, e):
        v = self.eval(e["init"])
        self.bind_pat(e["pat"], opaque("unwrap", [self._p(v)]))
        return opaque("matches", [self._p(v), Poly.atom(pat_name(e["pat"]))])

    TRUE = Poly.atom("true")
    FALSE = Poly.atom("false")

    def refine(self, cnode, cval, truth):
        """Refine the current state with the knowledge that condition `cnode` evaluated to `truth`."""
        if self.st is None:
            return
        k = cnode.get("k")
        if k == "Unary" and cnode.get("op") == "Not":
            return self.refine(cnode["e"], None, not truth)
        if k in ("Path", "Field") and cnode.get("ty") == "bool":
            lv = self.lvalue(cnode)
            if lv[0] == "key":
                self.st[lv[1]] = self.TRUE if truth else self.FALSE
                self._refined.append((lv[1], truth))
                if (lv[1], truth) in self.flagfacts:
                    self.st[FACTS] = self.st.get(FACTS, frozenset()) | {(Poly.atom("flag:%s" % lv[1]), truth)}
            return
        if k == "Binary" and cnode["op"] == "And" and truth:
            self.refine(cnode["l"], None, True)
            self.refine(cnode["r"], None, True)
            return
        if k == "Binary" and cnode["op"] == "Or" and not truth:
            self.refine(cnode["l"], None, False)
            self.refine(cnode["r"], None, False)
            return
        if k == "Binary" and ((cnode["op"] == "Eq" and truth) or (cnode["op"] == "Ne" and not truth)) and cnode["l"].get("ty") in ("f64", "f32"):
            # `a == b` holds: substitute the plain variable side by the other side's value
            for va, vb in ((cnode["l"], cnode["r"]), (cnode["r"], cnode["l"])):
                if va.get("k") == "Path" and va.get("res") == "local":
                    lv = self.lvalue(va)
                    if lv[0] == "key":
                        other = self.eval(vb)
                        cur = self.st.get(lv[1])
                        if isinstance(other, Poly) and isinstance(cur, Poly) and not other.is_const() \
                                and not (cur.atoms() & other.atoms() and cur.single_atom() is None):
                            self.st[lv[1]] = other
                            self.log("eq_refine", key=lv[1], value=other, node=cnode)
                            return

    def e_If(self, e):
        cond = self.eval(e["cond"])
        if self.st is None:
            return Poly.atom("never")
        sel = self.h.select_if(self, e, cond) if self.h else None
        if isinstance(cond, Poly) and ((cond == self.FALSE and sel == "then") or (cond == self.TRUE and sel == "else")):
            # the rule asked for a branch that is infeasible on this path
            self.log("infeasible", node=e, cond=cond, sel=sel)
            self.st = None
            return Poly.atom("never")
        if sel is None and isinstance(cond, Poly):
            if cond == self.TRUE:
                sel = "then"
            elif cond == self.FALSE:
                sel = "else"
            elif not cond.is_const():
                # the same (symbolic) condition was decided earlier on this path: `let last = ..; if last {..} .. if last {..}`
                fs = self.path_facts()
                if (cond, True) in fs and (cond, False) not in fs:
                    sel = "then"
                elif (cond, False) in fs and (cond, True) not in fs:
                    sel = "else"
        self.log("if", node=e, cond=cond, sel=sel)
        if sel == "then":
            self.pc.append((e, "then", cond))
            self.add_fact(cond, True)
            self.refine(e["cond"], cond, True)
            v = self.eval(e["then"])
            self.pc.pop()
            return v
        if sel == "else":
            self.pc.append((e, "else", cond))
            self.add_fact(cond, False)
            self.refine(e["cond"], cond, False)
            v = self.eval(e["else"]) if e.get("else") is not None else Poly.atom("unit")
            self.pc.pop()
            return v
        base = self.st
        self.cond_depth += 1
        self.st = dict(base)
        self.pc.append((e, "then", cond))
        self.add_fact(cond, True)
        n_ref = len(self._refined)
        self.refine(e["cond"], cond, True)
        refined_then = self._refined[n_ref:]
        del self._refined[n_ref:]
        ckey, cpol = self._cond_key(cond)
        self._apply_cond_phis(ckey, cpol)
        v1 = self.eval(e["then"])
        self.pc.pop()
        s1 = self.st
        self.st = dict(base)
        self.pc.append((e, "else", cond))
        self.add_fact(cond, False)
        self.refine(e["cond"], cond, False)
        self._apply_cond_phis(ckey, not cpol if ckey is not None else cpol)
        v2 = self.eval(e["else"]) if e.get("else") is not None else Poly.atom("unit")
        self.pc.pop()
        s2 = self.st
        self.cond_depth -= 1
        self.st = self.join_states([s1, s2])
        if s1 is not None and s2 is not None:
            # a boolean that was only *refined* by this test (true in one branch, false in the other, never assigned)
            # has its original symbolic value again after the join
            for k_, t_ in refined_then:
                want1 = self.TRUE if t_ else self.FALSE
                want2 = self.FALSE if t_ else self.TRUE
                if s1.get(k_) == want1 and s2.get(k_) == want2 and k_ in base:
                    self.st[k_] = base[k_]
        if s1 is not None and s2 is not None and ckey is not None and self.cond_phis.get(ckey):
            # what neither branch touched is, after the join, what it was before the test: the substitution of earlier
            # joins on the same condition (made on entering each branch) is undone
            known_ = self.cond_phis.get(ckey)
            sub_t = {P: (pt if cpol else pe) for P, pt, pe in known_}
            sub_e = {P: (pe if cpol else pt) for P, pt, pe in known_}
            for k_, bv in base.items():
                if k_ == FACTS or not isinstance(bv, (Poly, Buf)):
                    continue
                a_, b_ = s1.get(k_), s2.get(k_)
                if a_ is None or b_ is None or type(a_) is not type(bv) or type(b_) is not type(bv):
                    continue
                if (a_ != bv or b_ != bv) and a_ == self._subst_val(bv, sub_t) and b_ == self._subst_val(bv, sub_e):
                    self.st[k_] = bv
                    s1[k_] = bv
                    s2[k_] = bv
        if s1 is not None and s2 is not None:
            created = {}
            for k, v in self.st.items():
                a, b = s1.get(k, self.lazy.get(k)), s2.get(k, self.lazy.get(k))
                if a is None or b is None:
                    continue
                if type(a) is type(b) and a == b:
                    continue
                created[k] = v
            # values joined under a condition that was joined on before in the same way differ from the earlier phi by a
            # common offset: reuse it (x = if c {xend} else {x + h} after if c {h = xend - x}  gives  x = X + phi_h)
            if ckey is not None:
                known = self.cond_phis.get(ckey, [])
                for k in list(created):
                    a, b = s1.get(k, self.lazy.get(k)), s2.get(k, self.lazy.get(k))
                    if not (isinstance(a, Poly) and isinstance(b, Poly)):
                        continue
                    vt, ve = (a, b) if cpol else (b, a)
                    for P, pt, pe in known:
                        r1, r2 = vt - pt, ve - pe
                        if r1 == r2 and P not in r1.atoms():
                            self.st[k] = Poly.atom(P) + r1
                            created[k] = self.st[k]
                            break
                    else:
                        pa = created[k].single_atom() if isinstance(created[k], Poly) else None
                        if pa and pa in DEFS and DEFS[pa][0] == "phi":
                            self.cond_phis.setdefault(ckey, []).append((pa, vt, ve))
            if created:
                self.log("joinphi", node=e, created=created)
            nphi = sum(1 for k in self.st if isinstance(self.st[k], Poly) and isinstance(s1.get(k), Poly) and isinstance(s2.get(k), Poly)
                       and s1.get(k) != s2.get(k))
            if nphi >= 2:
                self.log("multijoin", node=e, n=nphi)
        self.log("ifval", node=e, v1=v1 if s1 is not None else None, v2=v2 if s2 is not None else None)
        if s1 is None:
            return v2
        if s2 is None:
            return v1
        if isinstance(v1, Poly) and isinstance(v2, Poly) and v1 != v2 and ckey is not None:
            vt, ve = (v1, v2) if cpol else (v2, v1)
            for P, pt, pe in self.cond_phis.get(ckey, []):
                r1, r2 = vt - pt, ve - pe
                if r1 == r2 and P not in r1.atoms():
                    return Poly.atom(P) + r1
            res = self.join_val(v1, v2, "if")
            pa = res.single_atom() if isinstance(res, Poly) else None
            if pa and pa in DEFS and DEFS[pa][0] == "phi":
                self.cond_phis.setdefault(ckey, []).append((pa, vt, ve))
                self.log("ifexpr_phi", node=e, cond=cond, atom=pa, v_then=v1, v_else=v2)
            return res
        return self.join_val(v1, v2, "if") if not (isinstance(v1, Poly) and v1 == v2) else v1

    def _cond_key(self, cond):
        """(name of the condition's atom with negations stripped, polarity) or (None, True)"""
        pol = True
        c = cond
        for _ in range(4):
            a = c.single_atom() if isinstance(c, Poly) else None
            if a is None or a in ("true", "false"):
                return None, True
            d = DEFS.get(a)
            if d and d[0] == "not" and len(d[1]) == 1 and isinstance(d[1][0], Poly):
                c = d[1][0]
                pol = not pol
                continue
            return a, pol
        return None, True

    @staticmethod
    def _subst_val(v, sub):
        keys = set(sub)
        if isinstance(v, Poly):
            return v.subst(sub) if (v.atoms() & keys) else v
        if isinstance(v, Buf):
            if any(isinstance(b_, Poly) and (b_.atoms() & keys) for b_ in list(v.blocks.values()) + [v.base]):
                nb = {i_: (b_.subst(sub) if isinstance(b_, Poly) and (b_.atoms() & keys) else b_) for i_, b_ in v.blocks.items()}
                base = v.base.subst(sub) if isinstance(v.base, Poly) and (v.base.atoms() & keys) else v.base
                return Buf(v.name, nb, v.len, v.unit, base)
        return v

    def _apply_cond_phis(self, ckey, truth):
        """entering a branch of a test on a condition that was tested (and joined) before: the phis created by that join
        have the value of the corresponding branch here"""
        if ckey is None or self.st is None:
            return
        known = self.cond_phis.get(ckey)
        if not known:
            return
        sub = {P: (pt if truth else pe) for P, pt, pe in known}
        keys = set(sub)
        for k, v in list(self.st.items()):
            if isinstance(v, Poly) and (v.atoms() & keys):
                self.st[k] = v.subst(sub)
            elif isinstance(v, Buf) and any(isinstance(b_, Poly) and (b_.atoms() & keys) for b_ in list(v.blocks.values()) + [v.base]):
                nb = {i_: (b_.subst(sub) if isinstance(b_, Poly) and (b_.atoms() & keys) else b_) for i_, b_ in v.blocks.items()}
                base = v.base.subst(sub) if isinstance(v.base, Poly) and (v.base.atoms() & keys) else v.base
                self.st[k] = Buf(v.name, nb, v.len, v.unit, base)
        self.log("cond_refine", sub=dict(sub))

    def _bool_match_as_if(self, e):
        """`match b { true => A, false => B }` (or with a wildcard for one side) is an if-expression on b"""
        if (e["scrut"].get("ty") or "") != "bool" or len(e.get("arms", [])) != 2:
            return None
        def lit_of(p):
            if p.get("k") == "PLit":
                x = p.get("e") or p
                v = x.get("v") if isinstance(x, dict) else None
                if str(v).lower() in ("true", "false"):
                    return str(v).lower() == "true"
            if p.get("k") == "PWild":
                return "any"
            return None
        l0, l1 = lit_of(e["arms"][0]["pat"]), lit_of(e["arms"][1]["pat"])
        if any(a.get("guard") is not None for a in e["arms"]) or l0 is None or l1 is None or l0 == "any":
            return None
        if l1 == "any":
            l1 = not l0
        if l0 == l1:
            return None
        t_arm, f_arm = (e["arms"][0], e["arms"][1]) if l0 else (e["arms"][1], e["arms"][0])
        key = "_as_if"
        if key not in e:
            e[key] = {"k": "If", "cond": e["scrut"], "then": t_arm["body"], "else": f_arm["body"], "ty": e.get("ty"), "sp": e.get("sp"), "mx": e.get("mx"), "_of_id": id(e)}
        return e[key]

    def e_Match(self, e):
        as_if = self._bool_match_as_if(e)
        if as_if is not None:
            return self.e_If(as_if)
        if e.get("src") == "TryDesugar" and e["scrut"].get("k") == "Call" and (e["scrut"].get("def") or "").endswith("Try::branch") and len(e["scrut"].get("args", [])) == 1:
            # `x?`: the value is the payload of x; the other way out is an early return carrying the residual
            inner = self.eval(e["scrut"]["args"][0])
            if self.st is None:
                return Poly.atom("never")
            res = opaque("residual", [self._p(inner)])
            self.exits.append(("return", None, dict(self.st), res))
            self.log("return", node=e, value=res, state=dict(self.st), pc=list(self.pc), via="?")
            return opaque("unwrap", [self._p(inner)])
        scrut = self.eval(e["scrut"])
        if self.st is None:
            return Poly.atom("never")
        arms = e["arms"]
        gi = guard_chain_if(e)
        if gi is not None and isinstance(scrut, Poly):
            # `match v { x if g(x) => A, .., y => Z }`: every pattern takes the whole value, so this is an if / else-if chain
            for a in arms:
                if a["pat"].get("k") == "PBind":
                    self.bind_pat(a["pat"], scrut)
            return self.e_If(gi)
        sel = self.h.select_arms(self, e, scrut) if self.h else None
        idxs = sel if sel is not None else list(range(len(arms)))
        self.log("match", node=e, scrut=scrut, sel=sel)
        base = self.st
        outs = []
        vals = []
        arm_vals = []
        if len(idxs) > 1:
            self.cond_depth += 1
        for j in idxs:
            a = arms[j]
            self.st = dict(base)
            if a["pat"]["k"] in ("PTuple", "PBind") and isinstance(scrut, Poly):
                # irrefutable destructuring (e.g. the expansion of assert_eq!): bind the components themselves
                self.bind_pat(a["pat"], scrut)
            else:
                self.bind_pat(a["pat"], opaque("armval", [self._p(scrut), Poly.const(j)]))
            n_pc = len(self.pc)
            if a.get("guard") is not None:
                g = self.eval(a["guard"])
                if isinstance(g, Poly) and self.st is not None:
                    # inside the arm the guard holds: it is a path condition like the test of an `if`
                    gnode = {"k": "If", "cond": a["guard"], "then": a["body"], "else": None, "sp": a["guard"].get("sp"), "src": "MatchGuard"}
                    self.pc.append((gnode, "then", g))
                    self.add_fact(g, True)
            v = self.eval(a["body"])
            del self.pc[n_pc:]
            if self.st is not None:
                outs.append(self.st)
                vals.append(v)
                arm_vals.append((j, a["pat"], v))
        if len(idxs) > 1:
            self.cond_depth -= 1
        self.st = self.join_states(outs)
        self.log("matchval", node=e, arms=arm_vals)
        if not vals:
            return Poly.atom("never")
        v = vals[0]
        for w in vals[1:]:
            v = self.join_val(v, w, "match") if not (type(v) is type(w) and v == w) else v
        return v

    def e_Break(self, e):
        v = self.eval(e["e"]) if e.get("e") is not None else None
        self.exits.append(("break", e.get("target"), self.st, v))
        self.log("break", target=e.get("target"), node=e, state=self.st, pc=list(self.pc))
        self.st = None
        return Poly.atom("never")

    def e_Continue(self, e):
        self.exits.append(("continue", e.get("target"), self.st, None))
        self.log("continue", target=e.get("target"), node=e)
        self.st = None
        return Poly.atom("never")

    def e_Return(self, e):
        v = self.eval(e["e"]) if e.get("e") is not None else None
        self.exits.append(("return", None, self.st, v))
        self.log("return", node=e, value=v, state=self.st, pc=list(self.pc))
        self.st = None
        return Poly.atom("never")

    def e_Closure(self, e):
        v = opaque("closure", [Poly.atom(e.get("def", "?"))], tag=e.get("sp"))
        self.closure_nodes[v.single_atom()] = e
        return v

    def call_local_closure(self, e):
        """`let c = |..| ..; c(args)`: interpret the closure body in place (captured locals are the caller's)"""
        v = self.st.get(e.get("id")) if self.st is not None else None
        a = v.single_atom() if isinstance(v, Poly) else None
        cl = self.closure_nodes.get(a)
        if cl is None or len(self._inline_stack) >= 2 or cl.get("def") in self._inline_stack:
            return NotImplemented
        ps = cl.get("params") or []
        if len(ps) != len(e["args"]):
            return NotImplemented
        snap = (dict(self.st), len(self.exits), len(self.trace), list(self.pc), list(self.comp), self.h.snapshot() if self.h else None)
        self._inline_stack.append(cl.get("def"))
        self._inline_sites.append(e)
        try:
            vals = [self.eval(x) for x in e["args"]]
            for p_, v_ in zip(ps, vals):
                self.bind_pat(p_, v_)
            n_ex = len(self.exits)
            out = self.eval(cl["body"])
            rets = [x for x in self.exits[n_ex:] if x[0] == "return"]
            self.exits[n_ex:] = [x for x in self.exits[n_ex:] if x[0] != "return"]
            states = ([self.st] if self.st is not None else []) + [x[2] for x in rets]
            rvals = ([out] if self.st is not None else []) + [x[3] for x in rets]
            self.st = self.join_states(states)
            res = rvals[0] if rvals else Poly.atom("never")
            for w in rvals[1:]:
                res = res if (type(res) is type(w) and res == w) else self.join_val(res, w, "ret")
            self.inlined.append((cl.get("def"), e))
            self.log("inline", callee=cl.get("def"), node=e, args=[self._p(x) for x in vals], closure=cl)
            return res if res is not None else Poly.atom("unit")
        except Exception:
            st0, n_ex0, n_tr0, pc0, comp0, hs = snap
            self.st = st0
            del self.exits[n_ex0:]
            del self.trace[n_tr0:]
            self.pc = pc0
            self.comp = comp0
            if self.h and hs is not None:
                self.h.restore(hs)
            return NotImplemented
        finally:
            self._inline_stack.pop()
            self._inline_sites.pop()

    def e_Struct(self, e):
        fs = []
        raw = {}
        for f in e["fields"]:
            v = self.eval(f["e"])
            if isinstance(v, Ref) and v.block is None and isinstance(self.st.get(v.key), Buf):
                v = self.st[v.key]
            raw[f["name"]] = v
            fs.append(self._p(v))
        if e.get("base") is not None:
            # functional update `S { a, ..base }`: the remaining fields come from the base value; if the base was built by
            # a literal seen in this interpretation (e.g. an inlined constructor), take them from there
            bv = self._p(self.eval(e["base"]))
            for ev in reversed(self.trace):
                if ev["kind"] == "struct" and ev["node"].get("def") == e.get("def") and ev.get("value") == bv:
                    for k_, v_ in ev["fields"].items():
                        raw.setdefault(k_, v_)
                    break
            fs.append(bv)
        val = opaque("struct:" + e.get("def", "?"), fs, tag=e.get("sp"))
        self.log("struct", node=e, fields=raw, facts=self.path_facts(), value=val)
        return val

    def e_ConstBlock(self, e):
        return self.fresh("constblock")

    def e_Unsupported(self, e):
        return self.fresh("unsupported")

    # ---- loops
    def assigned_roots(self, node):
        """Keys (roots) possibly written anywhere inside node (syntactic, conservative)."""
        roots = set()

        def root_of(x):
            while True:
                k = x.get("k")
                if k == "Path" and x.get("res") == "local":
                    return x["id"]
                if k in ("Field", "Index", "AddrOf", "Cast"):
                    x = x["e"]
                    continue
                if k == "Unary" and x["op"] == "Deref":
                    x = x["e"]
                    continue
                if k == "MethodCall" and x.get("name") in ("as_mut", "as_mut_slice", "iter_mut", "borrow_mut"):
                    x = x["recv"]
                    continue
                return None

        def field_key(x):
            # `a.b.c` -> 'id.b.c'
            k = x.get("k")
            if k == "Path" and x.get("res") == "local":
                return x["id"]
            if k == "Field":
                b = field_key(x["e"])
                return None if b is None else b + "." + x["name"]
            if k == "Unary" and x["op"] == "Deref":
                return field_key(x["e"])
            return None

        def walk(x):
            if isinstance(x, list):
                for y in x:
                    walk(y)
                return
            if not isinstance(x, dict):
                return
            k = x.get("k")
            if k in ("Assign", "AssignOp"):
                fk = field_key(x["l"])
                if fk is not None:
                    roots.add(fk)
                else:
                    r = root_of(x["l"])
                    if r is not None:
                        roots.add(r)
            elif k == "AddrOf" and x.get("mut"):
                fk = field_key(x["e"])
                r = fk if fk is not None else root_of(x["e"])
                if r is not None:
                    roots.add(r)
            elif k == "MethodCall" and "M" in (x["recv"].get("adj") or ""):
                fk = field_key(x["recv"])
                r = fk if fk is not None else root_of(x["recv"])
                if r is not None:
                    roots.add(r)
            elif k == "MethodCall" and x["recv"].get("ty", "").startswith("&mut") :
                r = root_of(x["recv"])
                if r is not None:
                    roots.add(r)
            for kk, vv in x.items():
                if isinstance(vv, (dict, list)) and kk != "pat" and not kk.startswith("_"):
                    walk(vv)

        walk(node)
        return roots

    def havoc_roots(self, roots, why):
        for r in roots:
            # r is 'owner.local' or 'owner.local.field...'; through a Ref the real key differs
            parts = r.split(".")
            root = ".".join(parts[:2])
            rest = r[len(root):]
            v = self.st.get(root)
            if isinstance(v, Ref):
                self.havoc_key(v.key + rest, why)
            else:
                self.havoc_key(r, why)

    def run_loop_body(self, node, body_eval, loop_id):
        """Single-pass loop interpretation from a generalised head state.

        The head state starts as the pre-loop state; every key whose value at the latch
        differs from the head is havocked and the body is re-run (widening after one
        iteration), until the head is a post-fixpoint. Keys written only on paths that
        leave the loop therefore keep their pre-loop value at the head. Rule hooks may
        install their own head (main loops)."""
        roots = self.assigned_roots(node)
        custom = self.h.loop_head(self, node, roots) if self.h else None
        if custom is not None:
            n_ex = len(self.exits)
            body_eval()
            latch, breaks = self._split_exits(n_ex, loop_id)
            if self.h:
                self.h.loop_latch(self, node, latch, breaks)
            return latch, breaks
        pre = dict(self.st)
        hav = {}
        for _round in range(12):
            snap = self.h.snapshot() if self.h else None
            ff_snap = dict(self.flagfacts)
            n_ex = len(self.exits)
            n_tr = len(self.trace)
            self.st = dict(pre)
            for k, v in hav.items():
                self.st[k] = v
            fixed = (self.h.head_override(self, node, roots) if self.h else None) or set()
            head = dict(self.st)
            self._loop_heads[id(node)] = head
            body_eval()
            latch, breaks = self._split_exits(n_ex, loop_id)
            L = self.join_states(latch)
            new = []
            if L is not None:
                for k in set(L) | set(head):
                    if k == FACTS:
                        common = head.get(FACTS, frozenset()) & L.get(FACTS, frozenset())
                        if common != head.get(FACTS, frozenset()):
                            pre[FACTS] = common
                            new.append(FACTS)
                        continue
                    if k in hav or k in fixed:
                        continue
                    a, b = head.get(k), L.get(k)
                    if a is None and b is not None:
                        # first defined inside the loop: only matters if read before written; skip
                        continue
                    if b is None:
                        continue
                    if type(a) is not type(b) or a != b:
                        new.append(k)
            if not new:
                if self.h:
                    self.h.loop_latch(self, node, latch, breaks)
                return latch, breaks
            # roll back the trial run (its log, its exits towards outer targets, its flag facts) and widen
            del self.trace[n_tr:]
            del self.exits[n_ex:]
            self.flagfacts = ff_snap
            if self.h and snap is not None:
                self.h.restore(snap)
            for k in new:
                if k == FACTS:
                    continue
                old = pre.get(k)
                nm = self.names.get(k, k)
                if isinstance(old, Buf):
                    lb = L.get(k)
                    ins = [v for v in ([old.get(0)] if not old.blocks else list(old.blocks.values())) if isinstance(v, Poly)]
                    if isinstance(lb, Buf):
                        ins += [v for v in ([lb.get(0)] if not lb.blocks else list(lb.blocks.values())) if isinstance(v, Poly)]
                    f = fresh("%s~loop" % nm, ins, op="widen")
                    hav[k] = Buf(f.single_atom(), {}, old.len, old.unit, None)
                else:
                    lv_ = L.get(k)
                    # provenance only ("widen"): NOT a value description - the atom stands for every iteration
                    hav[k] = fresh("%s~loop" % nm, [x for x in (old, lv_) if isinstance(x, Poly)], op="widen")
                    if self.key_ty.get(k):
                        ATOM_TY[hav[k].single_atom()] = self.key_ty[k]
        # did not stabilise: fall back to havocking every syntactic root
        self.st = dict(pre)
        self.havoc_roots(roots, "loop")
        n_ex = len(self.exits)
        body_eval()
        latch, breaks = self._split_exits(n_ex, loop_id)
        if self.h:
            self.h.loop_latch(self, node, latch, breaks)
        return latch, breaks

    def _split_exits(self, n_ex, loop_id):
        latch = [self.st] if self.st is not None else []
        breaks = []
        rest = []
        for ex in self.exits[n_ex:]:
            kind, target, st, val = ex
            if target == loop_id and kind == "break":
                breaks.append(st)
            elif target == loop_id and kind == "continue":
                latch.append(st)
            else:
                rest.append(ex)
        self.exits[n_ex:] = rest
        return latch, breaks

    def e_Loop(self, e):
        lid = e["id"]
        latch, breaks = self.run_loop_body(e, lambda: self.exec_block(e["body"]), lid)
        self.st = self.join_states(breaks)
        if e.get("src") == "While" and self.st is None:
            self.st = None
        return Poly.atom("unit")

    def e_For(self, e):
        rng = self.range_of(e["iter"])
        pat = e["pat"]
        lid = e["id"]
        if rng is not None and pat["k"] == "PBind" and rng[0] is not None and rng[1] is not None:
            lo, hi, incl = rng
            clo, chi = lo.const_value(), hi.const_value()
            if clo is not None and chi is not None and clo.denominator == 1 and chi.denominator == 1:
                a, b = int(clo), int(chi) + (1 if incl else 0)
                if b - a <= 64:
                    return self.for_unrolled(e, a, b)
            if clo == 0 and not incl and self.uses_index(e["body"], pat["id"]):
                return self.for_component(e, hi)
        shape = self.iter_shape(e["iter"])
        if shape is not None:
            unit = self.shape_unit(shape)
            return self.for_component(e, unit, binder=lambda i: self.bind_iter_pat(pat, self.shape_value(shape, i)))
        scan = self.scan_shape(e["iter"])
        if scan is not None:
            return self.for_scan(e, scan)
        # generic loop (zero or more iterations): element values are opaque -> whatever is computed from them is imprecise
        self.imprecise.append(("for-over-iterator", e))
        self.eval_iter_side_effects(e["iter"])

        itv = None
        try:
            lvit = self.lvalue(e["iter"])
            if lvit[0] == "key" and isinstance(self.st.get(lvit[1]), Coll):
                itv = self.st[lvit[1]]
        except Exception:
            itv = None

        def body():
            if itv is not None and itv.elems:
                el = itv.elems[0]
                for x in itv.elems[1:]:
                    el = self.join_val(el, x, "elem")
                self.log("iter_elem", node=e, elems=itv.elems)
                self.bind_pat(pat, el)
            else:
                self.bind_pat(pat, self.fresh("it"))
            self.eval(e["body"])
        latch, breaks = self.run_loop_body(e, body, lid)
        # exit happens at a head visit: the generalised head is covered by join(pre, latch)
        outs = list(latch) + list(breaks)
        hd = self._loop_heads.get(id(e))
        self.st = self.join_states(outs + [hd]) if hd is not None else self.join_states(outs)
        return Poly.atom("unit")

    # ---- sequential scans: `for x in coll.iter().skip(n).take_while(p).filter(q) { .. }`
    SCAN_PASS = ("iter", "into_iter", "copied", "cloned", "by_ref", "peekable", "fuse")
    SCAN_PRED = ("take_while", "filter", "skip_while")

    def scan_shape(self, it, depth=0):
        """(base collection expression, [predicate closures that hold for every element the body sees]) for an iterator
        chain over an opaque (not element-tracked) collection; a local holding such a chain is looked through"""
        if it is None or depth > 8:
            return None
        k = it.get("k")
        if k in ("DropTemps", "Paren"):
            return self.scan_shape(it["e"], depth + 1)
        if k == "AddrOf":
            return (it["e"], [])
        if k == "Path" and it.get("res") == "local" and "std::" in (it.get("ty") or "") and ("iter::" in it["ty"] or "Iter<" in it["ty"]):
            body = self.facts.bodies.get(self.fn_def, {}).get("body")
            lets = tast.find(body, lambda z: z.get("k") == "Let" and z["pat"].get("k") == "PBind" and z["pat"].get("id") == it.get("id") and z.get("init") is not None) if body else []
            if len(lets) == 1:
                return self.scan_shape(lets[0]["init"], depth + 1)
            return None
        if k != "MethodCall":
            return None
        nm = it.get("name")
        if nm in self.SCAN_PASS and not it["args"]:
            if nm in ("iter", "into_iter") and it["recv"].get("k") != "MethodCall":
                return (it["recv"], [])
            return self.scan_shape(it["recv"], depth + 1) or ((it["recv"], []) if nm in ("iter", "into_iter") else None)
        if nm == "skip" and len(it["args"]) == 1:
            return self.scan_shape(it["recv"], depth + 1)
        if nm in self.SCAN_PRED and len(it["args"]) == 1 and it["args"][0].get("k") == "Closure":
            sub = self.scan_shape(it["recv"], depth + 1)
            if sub is None:
                return None
            # skip_while's predicate says nothing about the elements that are seen
            return (sub[0], sub[1] + ([it["args"][0]] if nm != "skip_while" else []))
        return None

    def for_scan(self, e, scan):
        """the body runs for elements coll[k] (k unknown, increasing) that satisfy the chain's predicates; zero or more times"""
        base_node, preds = scan
        lid = e["id"]
        try:
            base = self.eval(base_node)
        except Exception:
            base = None
        if not isinstance(base, Poly):
            self.imprecise.append(("for-over-iterator", e))
            base = self.fresh("coll")
        self.eval_iter_side_effects(e["iter"])
        pat = e["pat"]

        def body():
            kidx = self.fresh("k~scan")
            el = opaque("idx", [self._p(base), kidx])
            n_pc = len(self.pc)
            for cl in preds:
                ps = cl.get("params") or []
                if len(ps) != 1:
                    continue
                self.bind_iter_pat(ps[0], el)
                g = self.eval(cl["body"])
                if isinstance(g, Poly) and self.st is not None:
                    gnode = {"k": "If", "cond": cl["body"], "then": e["body"], "else": None, "sp": cl.get("sp"), "src": "ScanPredicate"}
                    self.pc.append((gnode, "then", g))
                    self.add_fact(g, True)
                    self.log("if", node=gnode, cond=g, sel="then")
            self.log("scan_elem", node=e, base=base, index=kidx, elem=el)
            self.bind_iter_pat(pat, el)
            self.eval(e["body"])
            del self.pc[n_pc:]
        latch, breaks = self.run_loop_body(e, body, lid)
        outs = list(latch) + list(breaks)
        hd = self._loop_heads.get(id(e))
        self.st = self.join_states(outs + [hd]) if hd is not None else self.join_states(outs)
        return Poly.atom("unit")

    def head_state_after_havoc(self, base, node):
        saved = self.st
        self.st = dict(base)
        self.havoc_roots(self.assigned_roots(node), "loop")
        out = self.st
        self.st = saved
        return out

    def eval_iter_side_effects(self, it):
        try:
            self.eval(it)
        except Exception:
            pass

    def uses_index(self, body, var_id):
        found = [False]

        def walk(x):
            if found[0]:
                return
            if isinstance(x, list):
                for y in x:
                    walk(y)
            elif isinstance(x, dict):
                if x.get("k") == "Index":
                    if mentions(x["i"], var_id):
                        found[0] = True
                        return
                for v in (vv_ for kk_, vv_ in x.items() if not kk_.startswith("_")):
                    if isinstance(v, (dict, list)):
                        walk(v)

        walk(body)
        return found[0]

    def for_unrolled(self, e, a, b):
        lid = e["id"]
        outs = []
        for j in range(a, b):
            if self.st is None:
                break
            n_ex = len(self.exits)
            self.bind_pat(e["pat"], Poly.const(j))
            self.eval(e["body"])
            rest = []
            cont_states = []
            for ex in self.exits[n_ex:]:
                kind, target, st, val = ex
                if target == lid and kind == "break":
                    outs.append(st)
                elif target == lid and kind == "continue":
                    cont_states.append(st)
                else:
                    rest.append(ex)
            self.exits[n_ex:] = rest
            if cont_states:
                self.st = self.join_states(([self.st] if self.st is not None else []) + cont_states)
        if outs:
            self.st = self.join_states(([self.st] if self.st is not None else []) + outs)
        return Poly.atom("unit")

    # ---- element-wise iterator chains: `a.iter().zip(b.iter()).enumerate()` is a component loop in disguise
    def iter_shape(self, it):
        k = it.get("k")
        if k == "AddrOf":
            return self.iter_shape_buf(it["e"], bool(it.get("mut")))
        if k == "MethodCall":
            nm = it.get("name")
            recv = it["recv"]
            if nm in ("iter", "iter_mut", "into_iter"):
                r = self.range_shape(recv)
                if r is not None:
                    return r
                sub = self.iter_shape(recv) if recv.get("k") == "MethodCall" else None
                if sub is not None:
                    return sub
                return self.iter_shape_buf(recv, nm == "iter_mut")
            if nm in ("copied", "cloned", "by_ref", "rev") and not it["args"]:
                return self.iter_shape(recv)
            if nm == "zip" and len(it["args"]) == 1:
                a = self.iter_shape(recv)
                b = self.iter_shape(it["args"][0])
                if a is not None and b is not None:
                    return ("zip", a, b)
                return None
            if nm == "enumerate" and not it["args"]:
                a = self.iter_shape(recv)
                return ("enum", a) if a is not None else None
            if nm == "map" and len(it["args"]) == 1 and it["args"][0].get("k") == "Closure":
                a = self.iter_shape(recv)
                return ("map", a, it["args"][0]) if a is not None else None
            return None
        r = self.range_shape(it)
        if r is not None:
            return r
        if k in ("Path", "Field"):
            return self.iter_shape_buf(it, "&mut" in (it.get("ty") or ""))
        return None

    def range_shape(self, it):
        rng = self.range_of(it)
        if rng is not None and rng[0] is not None and rng[1] is not None and not rng[2] and rng[0].is_zero():
            return ("range", rng[1])
        return None

    def iter_shape_buf(self, node, mut):
        try:
            lv = self.lvalue(node)
        except Exception:
            return None
        if lv[0] == "key":
            b = self.get(lv[1]) if (lv[1] in self.st or "." in lv[1]) else None
            if isinstance(b, Buf) and set(b.blocks) <= {0}:
                return ("buf", lv[1], 0, b.unit if b.unit is not None else b.len, mut)
            return None
        if lv[0] == "slice" and isinstance(self.st.get(lv[1]), Buf):
            return ("buf", lv[1], lv[2], lv[3], mut)
        return None

    def shape_unit(self, sh):
        if sh[0] == "range":
            return sh[1]
        if sh[0] == "buf":
            return sh[3]
        if sh[0] in ("enum", "map"):
            return self.shape_unit(sh[1])
        if sh[0] == "zip":
            return self.shape_unit(sh[1]) or self.shape_unit(sh[2])
        return None

    def shape_value(self, sh, i):
        if sh[0] == "range":
            return i
        if sh[0] == "buf":
            return Ref(sh[1], sh[2], mut=sh[4], unit=sh[3], elem=True)
        if sh[0] == "enum":
            return (i, self.shape_value(sh[1], i))
        if sh[0] == "zip":
            return (self.shape_value(sh[1], i), self.shape_value(sh[2], i))
        if sh[0] == "map":
            return self.apply_closure(sh[2], [self.shape_value(sh[1], i)])
        return self.fresh("it")

    def apply_closure(self, cl, vals):
        """interpret a closure literal in place (closures passed to iterator adaptors: pure, called once per element)"""
        ps = cl.get("params") or []
        if len(ps) != len(vals):
            raise ValueError("closure arity")
        for p_, v_ in zip(ps, vals):
            self.bind_iter_pat(p_, v_)
        return self.eval(cl["body"])

    def iter_reduce(self, e):
        """`<element-wise iterator>.fold(init, |acc, x| ..)`, `.sum()`, `.for_each(|x| ..)` as component loops"""
        name = e["name"]
        sh = self.iter_shape(e["recv"])
        if sh is None:
            return NotImplemented
        lid = "it%s" % (e.get("sp") or id(e))
        unit = self.shape_unit(sh)
        if name == "for_each" and len(e["args"]) == 1 and e["args"][0].get("k") == "Closure":
            cl = e["args"][0]
            pseudo = {"id": lid, "body": cl["body"], "pat": None}
            return self.for_component(pseudo, unit, binder=lambda i: [self.bind_iter_pat(p_, v_) for p_, v_ in zip(cl["params"], [self.shape_value(sh, i)])])
        i_atom = "i~%s" % lid
        if name == "sum" and not e["args"]:
            self.comp.append((i_atom, unit))
            try:
                term = self.shape_value(sh, Poly.atom(i_atom))
            finally:
                self.comp.pop()
            if isinstance(term, Ref) and term.elem:
                term = self.read_lv(("elem", term.key, term.block, term.unit))
            if not isinstance(term, Poly):
                return NotImplemented
            self.log("reduce", key=None, entry=Poly.const(0), term=term, loop=lid)
            return opaque("sum", [term])
        if name == "fold" and len(e["args"]) == 2 and e["args"][1].get("k") == "Closure":
            init = self.eval(e["args"][0])
            if not isinstance(init, Poly):
                return NotImplemented
            ph = "acc~fold~%s" % lid
            self.comp.append((i_atom, unit))
            try:
                v = self.apply_closure(e["args"][1], [Poly.atom(ph), self.shape_value(sh, Poly.atom(i_atom))])
            finally:
                self.comp.pop()
            if not isinstance(v, Poly):
                return NotImplemented
            g = v - Poly.atom(ph)
            if ph in g.atoms():
                return opaque("fold", [init, v])
            if g.is_zero():
                return init
            self.log("reduce", key=None, entry=init, term=g, loop=lid)
            return init + opaque("sum", [g])
        return NotImplemented

    def bind_iter_pat(self, pat, v):
        k = pat["k"]
        if k in ("PTuple",) and isinstance(v, tuple) and len(pat["pats"]) == len(v):
            for p, x in zip(pat["pats"], v):
                self.bind_iter_pat(p, x)
            return
        if k in ("PRef", "PDeref"):
            self.bind_iter_pat(pat["pat"], v)
            return
        if k == "PBind" and isinstance(v, Ref) and v.elem:
            key = pat["id"]
            self.names[key] = pat["name"]
            self.key_ty[key] = pat.get("ty")
            if "&" in (pat.get("ty") or ""):
                self.st[key] = v
            else:
                self.st[key] = self.read_lv(("elem", v.key, v.block, v.unit))
            return
        if isinstance(v, tuple):
            v = opaque("tuple", [self._p(x) if not isinstance(x, tuple) else Poly.atom("?") for x in v])
        self.bind_pat(pat, v)

    def for_component(self, e, hi, binder=None):
        """`for i in 0..hi` whose body indexes with i: interpret once for a generic i."""
        pat = e["pat"]
        lid = e["id"]
        i_atom = "i~%s" % lid
        roots = self.assigned_roots(e["body"])
        # outer scalars written in the body become accumulators
        acc = {}
        for r in roots:
            v = self.st.get(r)
            if isinstance(v, Ref):
                continue
            if isinstance(v, Buf):
                continue
            if r in self.st or "." in r:
                cur = self.get(r)
                if isinstance(cur, Poly):
                    ph = "acc~%s~%s" % (self.names.get(r, r), lid)
                    acc[r] = (cur, ph)
                    self.st[r] = Poly.atom(ph)
        self.comp.append((i_atom, hi))
        if binder is not None:
            binder(Poly.atom(i_atom))
        else:
            self.st[pat["id"]] = Poly.atom(i_atom)
            self.names[pat["id"]] = pat["name"]
        n_ex = len(self.exits)
        self.log("comp_enter", loop=lid, unit=hi)
        self.eval(e["body"])
        self.log("comp_exit", loop=lid)
        self.comp.pop()
        irregular = len(self.exits) > n_ex or self.st is None
        if irregular:
            # break/continue/return inside a component loop: give up on precision
            exs = self.exits[n_ex:]
            self.exits[n_ex:] = [x for x in exs if x[1] != lid]
            sts = [x[2] for x in exs if x[1] == lid] + ([self.st] if self.st is not None else [])
            self.st = self.join_states(sts)
            if self.st is None:
                return Poly.atom("never")
            self.havoc_roots(roots, "irregular")
            return Poly.atom("unit")
        phs = {ph for (_, ph) in acc.values()}
        for r, (entry, ph) in acc.items():
            v = self.st.get(r)
            if not isinstance(v, Poly):
                self.st[r] = self.fresh("fold")
                continue
            g = v - Poly.atom(ph)
            if g.atoms() & phs:
                self.st[r] = opaque("fold", [entry, v])
            elif g.is_zero():
                self.st[r] = entry
            else:
                red = opaque("sum", [g])
                self.log("reduce", key=r, entry=entry, term=g, loop=lid)
                self.st[r] = entry + red
        # buffers whose stored generic value mentions i outside an index, or an accumulator
        for k, v in list(self.st.items()):
            if isinstance(v, Buf):
                for blk, pv in list(v.blocks.items()):
                    if isinstance(pv, Poly) and (i_atom in pv.atoms() or (pv.atoms() & phs)):
                        self.st[k] = self.st[k].with_block(blk, fresh("%s~nonuniform" % v.name))
        return Poly.atom("unit")

    # ---- calls
    # crate-local helpers that rules model themselves (summaries, dedicated analyses); everything else that is private
    # to the crate is interpreted in place, so extracting a few lines into a helper does not change what a rule sees
    OPAQUE_HELPERS = ("methods::bdf::weighted_rms_scaled", "methods::bdf::change_d", "methods::bdf::compute_r", "methods::bdf::matmul", "matrix::", "<matrix::", "dense::", "<dense::", "methods::hinit", "methods::Tolerance", "<methods::Tolerance")

    def inline_ok(self, d, rec):
        if not str(rec.get("vis", "")).startswith("Restricted"):
            return False
        if d.startswith(self.OPAQUE_HELPERS) or "::{closure" in d:
            return False
        return rec.get("dk") in ("Fn", "AssocFn") and rec.get("has_body")

    def try_inline(self, e, d, arg_nodes):
        rec = self.facts.fns.get(d)
        body = self.facts.bodies.get(d)
        if rec is None or body is None or not self.inline_ok(d, rec):
            return NotImplemented
        if d in self._inline_stack or len(self._inline_stack) >= 2 or d == self.fn_def:
            return NotImplemented
        params = body.get("params") or []
        if len(params) != len(arg_nodes) or any(p.get("k") != "PBind" for p in params):
            return NotImplemented
        snap = (dict(self.st) if self.st is not None else None, len(self.exits), len(self.trace), list(self.pc), list(self.comp),
                self.h.snapshot() if self.h else None)
        self._inline_stack.append(d)
        pushed_site = False
        try:
            vals = []
            for a in arg_nodes:
                if a.get("k") in ("Path", "Field") and ("&" in (a.get("adj") or "") or "M" in (a.get("adj") or "")):
                    lv = self.lvalue(a)
                    vals.append(Ref(lv[1], None, "M" in (a.get("adj") or "")) if lv[0] == "key" else self.eval(a))
                else:
                    vals.append(self.eval(a))
            for p_, v_ in zip(params, vals):
                self.bind_pat(p_, v_)
            n_ex = len(self.exits)
            self._inline_sites.append(e)
            pushed_site = True
            v = self.eval(body["body"])
            rets = [x for x in self.exits[n_ex:] if x[0] == "return"]
            self.exits[n_ex:] = [x for x in self.exits[n_ex:] if x[0] != "return"]
            states = ([self.st] if self.st is not None else []) + [x[2] for x in rets]
            rvals = ([v] if self.st is not None else []) + [x[3] for x in rets]
            self.st = self.join_states(states)
            if not rvals:
                out = Poly.atom("never")
            else:
                out = rvals[0]
                for w in rvals[1:]:
                    out = out if (type(out) is type(w) and out == w) else self.join_val(out, w, "ret")
            self.inlined.append((d, e))
            self.log("inline", callee=d, node=e, args=[self._p(x) for x in vals])
            return out if out is not None else Poly.atom("unit")
        except Exception:
            st0, n_ex0, n_tr0, pc0, comp0, hs = snap
            self.st = st0
            del self.exits[n_ex0:]
            del self.trace[n_tr0:]
            self.pc = pc0
            self.comp = comp0
            if self.h and hs is not None:
                self.h.restore(hs)
            return NotImplemented
        finally:
            self._inline_stack.pop()
            if pushed_site:
                self._inline_sites.pop()

    def e_Call(self, e):
        d = e.get("def") or ""
        if not d and e.get("res") == "local":
            r = self.call_local_closure(e)
            if r is not NotImplemented:
                return r
        if self.h:
            r = self.h.call(self, e, d)
            if r is not NotImplemented:
                return r
        r = self.std_call(e, d)
        if r is not NotImplemented:
            return r
        r = self.try_inline(e, d, e["args"])
        if r is not NotImplemented:
            return r
        return self.unknown_call(e, d, e["args"])

    def e_MethodCall(self, e):
        d = e.get("def") or ("?" + e["name"])
        if self.h:
            r = self.h.call(self, e, d)
            if r is not NotImplemented:
                return r
        r = self.std_method(e, d)
        if r is not NotImplemented:
            return r
        r = self.try_inline(e, d, [e["recv"]] + e["args"])
        if r is not NotImplemented:
            return r
        return self.unknown_call(e, d, [e["recv"]] + e["args"])

    def unknown_call(self, e, d, arg_nodes):
        vals = []
        muts = []
        for a in arg_nodes:
            if a["k"] == "AddrOf" and a.get("mut"):
                lv = self.lvalue(a["e"])
                muts.append(lv)
                vals.append(Poly.atom("mutref"))
                continue
            if a is arg_nodes[0] and e["k"] == "MethodCall" and "M" in (a.get("adj") or ""):
                lv = self.lvalue(a)
                muts.append(lv)
                vals.append(Poly.atom("mutrecv"))
                continue
            v = self.eval(a)
            if isinstance(v, Ref) and v.mut:
                muts.append(("key", v.key) if v.block is None else ("slice", v.key, v.block, v.unit))
            vals.append(self._p(v))
        # values of the mutable arguments before the call also flow into their values after it
        ins = list(vals)
        for lv in muts:
            if len(lv) > 1 and lv[1] is not None:
                cur = self.st.get(lv[1])
                if isinstance(cur, Poly):
                    ins.append(cur)
                elif isinstance(cur, Buf):
                    ins.extend(v for v in ([cur.get(0)] if not cur.blocks else cur.blocks.values()) if isinstance(v, Poly))
        for lv in muts:
            if len(lv) > 1 and lv[1] is not None:
                self.havoc_key(lv[1], "call", inputs=ins)
        self.log("call", callee=d, node=e, args=vals)
        if e.get("ty") == "!":
            # a diverging call (panic!, unreachable!, process::exit): this path ends here
            self.log("diverge", node=e, callee=d)
            self.st = None
            return Poly.atom("never")
        return opaque("call:" + d, vals, tag=e.get("sp"))

    SCALAR_METHODS = {"abs", "sqrt", "powf", "max", "min", "signum", "ln", "exp", "clamp", "floor", "ceil",
                      "is_nan", "is_finite", "is_infinite", "recip", "mul_add", "copysign", "log10", "sin", "cos",
                      "hypot", "norm", "re", "im"}

    def std_method(self, e, d):
        name = e["name"]
        recv = e["recv"]
        rty = recv.get("ty", "")
        if name in ("fold", "sum", "for_each"):
            snap = (dict(self.st) if self.st is not None else None, len(self.trace), len(self.comp))
            try:
                r = self.iter_reduce(e)
            except Exception:
                r = NotImplemented
            if r is not NotImplemented:
                return r
            self.st = snap[0]
            del self.trace[snap[1]:]
            del self.comp[snap[2]:]
            self.imprecise.append(("iterator-%s" % name, e))
        if name == "push" and len(e["args"]) == 1:
            lv = self.lvalue(recv)
            v = self.eval(e["args"][0])
            if isinstance(v, Buf):
                v = self._p(v)
            self.log("push", lv=lv, value=v, node=e, recv=recv, pc=list(self.pc),
                     facts=list((self.st or {}).get(FACTS) or ()))
            if lv[0] == "key":
                cur = self.st.get(lv[1])
                if isinstance(cur, Coll):
                    self.st[lv[1]] = cur.add(v)
                elif cur is None or (isinstance(cur, Poly) and cur.single_atom() is not None):
                    self.st[lv[1]] = Coll().add(v) if cur is None else cur
            return Poly.atom("unit")
        if name in ("sort_by", "sort", "sort_unstable_by", "reverse", "sort_by_key") and isinstance(self.st.get((self.lvalue(recv) + (None,))[1] or ""), Coll):
            self.log("sort", node=e)
            return Poly.atom("unit")
        if name == "len" and len(e["args"]) == 0:
            v = self.eval(recv)
            if isinstance(v, Ref) and v.block is None:
                v = self.get(v.key)
            if isinstance(v, Buf):
                if v.len is None:
                    return opaque("len", [Poly.atom(v.name)])
                return v.len
            return opaque("len", [self._p(v)])
        if name in ("to_vec", "clone", "to_owned") and len(e["args"]) == 0:
            v = self.eval(recv)
            if isinstance(v, Ref) and v.block is None:
                v = self.get(v.key)
            if isinstance(v, Buf):
                return Buf(v.name, dict(v.blocks), v.len, v.unit, v.base)
            if isinstance(v, Poly):
                return v
            return self.fresh("clone")
        if name in ("copy_from_slice", "clone_from_slice") and len(e["args"]) == 1:
            src = self.eval(e["args"][0])
            dst = self.lvalue(recv)
            if isinstance(src, Ref):
                sb = self.get(src.key)
                if isinstance(sb, Buf):
                    sv = sb.get(src.block if src.block is not None else 0)
                else:
                    sv = None
            elif isinstance(src, Buf):
                sv = src.get(0)
            else:
                sv = None
            self.log("copy", dst=dst, src=src, value=sv, node=e)
            if sv is None:
                if len(dst) > 1 and dst[1] is not None:
                    self.havoc_key(dst[1], "copy")
                return Poly.atom("unit")
            if dst[0] == "key":
                b = self.get(dst[1])
                if isinstance(b, Buf):
                    self.st[dst[1]] = Buf(b.name, {0: sv}, b.len, b.unit, b.base)
                else:
                    self.havoc_key(dst[1], "copy")
            elif dst[0] == "slice":
                b = self.get(dst[1])
                if isinstance(b, Buf):
                    self.st[dst[1]] = b.with_block(dst[2], sv, dst[3])
                else:
                    self.havoc_key(dst[1], "copy")
            elif len(dst) > 1 and dst[1] is not None:
                self.havoc_key(dst[1], "copy")
            return Poly.atom("unit")
        if name == "fill" and len(e["args"]) == 1:
            v = self.eval(e["args"][0])
            dst = self.lvalue(recv)
            if dst[0] == "key" and isinstance(self.get(dst[1]), Buf) and isinstance(v, Poly):
                b = self.get(dst[1])
                self.st[dst[1]] = Buf(b.name, {}, b.len, b.unit, base=v)
                return Poly.atom("unit")
            if dst[0] == "slice" and isinstance(self.get(dst[1]), Buf) and isinstance(v, Poly):
                self.st[dst[1]] = self.get(dst[1]).with_block(dst[2], v, dst[3])
                return Poly.atom("unit")
            if len(dst) > 1 and dst[1] is not None:
                self.havoc_key(dst[1], "fill")
            return Poly.atom("unit")
        if name == "powi" and len(e["args"]) == 1:
            b = self.eval(recv)
            k = self.eval(e["args"][0])
            c = k.const_value() if isinstance(k, Poly) else None
            if isinstance(b, Poly) and c is not None and c.denominator == 1 and abs(c) <= 8:
                try:
                    return b ** int(c)
                except ValueError:
                    pass
            return opaque("powi", [self._p(b), self._p(k)])
        if name in self.SCALAR_METHODS and (rty in ("f64", "f32", "&f64", "usize", "i32", "&mut f64") or rty.startswith("f")):
            b = self.eval(recv)
            args = [self._p(self.eval(a)) for a in e["args"]]
            if name in ("max", "min"):
                # commutative: canonical argument order
                both = sorted([self._p(b)] + args, key=repr)
                return opaque(name, both)
            if name == "clamp" and len(args) == 2:
                self.log("clamp", node=e, v=self._p(b), lo=args[0], hi=args[1])
            return opaque(name, [self._p(b)] + args)
        if name == "unwrap_or_else" and len(e["args"]) == 1 and e["args"][0].get("k") == "Closure" and not (e["args"][0].get("params") or []) \
                and "Option" in (e["recv"].get("ty") or ""):
            # Option::unwrap_or_else(|| default): same value as unwrap_or(default) (the closure is pure in this code base)
            ov = self._p(self.eval(recv))
            snap = (dict(self.st) if self.st is not None else None, len(self.trace))
            try:
                dv = self.apply_closure(e["args"][0], [])
                if isinstance(dv, Poly):
                    return opaque("call:std::option::Option::<T>::unwrap_or", [ov, dv], tag=e.get("sp"))
            except Exception:
                pass
            self.st = snap[0]
            del self.trace[snap[1]:]
        if name in ("then", "then_some") and len(e["args"]) == 1 and (e["recv"].get("ty") or "") == "bool" and (name == "then_some" or (e["args"][0].get("k") == "Closure" and not (e["args"][0].get("params") or []))):
            # `cond.then(|| v)` / `cond.then_some(v)` is `if cond { Some(v) } else { None }` (then_some evaluates v first: pure here)
            if "_then_if" not in e:
                inner = e["args"][0]["body"] if name == "then" else e["args"][0]
                some = {"k": "Call", "res": "def", "dk": "Ctor", "def": "std::prelude::v1::Some", "f": {"k": "Path", "res": "def", "dk": "Ctor", "def": "std::prelude::v1::Some"},
                        "args": [inner], "ty": e.get("ty"), "sp": e.get("sp")}
                none = {"k": "Path", "res": "def", "dk": "Ctor", "def": "std::prelude::v1::None", "ty": e.get("ty"), "sp": e.get("sp")}
                e["_then_if"] = {"k": "If", "cond": recv, "then": some, "else": none, "ty": e.get("ty"), "sp": e.get("sp"), "_of_id": id(e)}
            return self.e_If(e["_then_if"])
        if name in ("map_or", "is_some_and", "map_or_else") and e["args"] and e["args"][-1].get("k") == "Closure" and "Option" in (e["recv"].get("ty") or ""):
            # Option::map_or(default, |v| ..): the closure sees the payload; result = default (None) or the closure value (Some)
            cl = e["args"][-1]
            ov = self._p(self.eval(recv))
            payload = opaque("optval", [ov])
            snap = (dict(self.st) if self.st is not None else None, len(self.trace))
            try:
                default = self.eval(e["args"][0]) if name == "map_or" else (Poly.atom("false") if name == "is_some_and" else self.fresh("dflt"))
                cv = self.apply_closure(cl, [payload])
                if isinstance(cv, Poly) and isinstance(default, Poly):
                    self.log("map_or", node=e, recv=ov, default=default, value=cv)
                    return cv if cv == default else opaque("maporr", [default, cv, ov])
            except Exception:
                pass
            self.st = snap[0]
            del self.trace[snap[1]:]
        if name in ("split_at_mut", "chunks_mut", "chunks_exact_mut", "split_first_mut", "split_last_mut", "rchunks_mut", "as_mut_ptr", "swap_with_slice", "rotate_left", "rotate_right", "reverse", "sort_by", "sort_unstable_by"):
            # mutable views of a tracked buffer that the block model does not follow: what is written through them is unknown
            try:
                lvb = self.lvalue(recv)
            except Exception:
                lvb = None
            if lvb and lvb[0] in ("key", "slice") and isinstance(self.st.get(lvb[1]), Buf):
                old_b = self.st[lvb[1]]
                self.st[lvb[1]] = Buf(fresh("%s~view" % old_b.name).single_atom(), {}, old_b.len, old_b.unit, None)
                self.imprecise.append(("mutable-view-%s" % name, e))
        if name in ("split_at", "split_first", "split_last", "chunks", "chunks_exact", "windows", "rchunks"):
            # read-only views of a tracked buffer: the block model does not know which blocks the parts are
            try:
                lvb = self.lvalue(recv)
            except Exception:
                lvb = None
            if lvb and lvb[0] in ("key", "slice") and isinstance(self.st.get(lvb[1]), Buf):
                self.imprecise.append(("view-%s" % name, e))
        if name in ("unwrap", "expect") and e["recv"].get("ty", "").startswith(("std::option::Option", "std::result::Result", "&std::option::Option")):
            v = self.eval(recv)
            self.log("unwrap", node=e, recv=self._p(v), facts=self.path_facts())
            return opaque("unwrap", [self._p(v)])
        if name in ("is_empty", "last", "first", "last_mut", "first_mut") and not e["args"]:
            # keyed by the place, not by the current contents: `v.is_empty() || v.last().unwrap()..` talk about the same vector
            lvp = self.lvalue(recv)
            if lvp[0] == "key":
                self.eval(recv)
                return opaque(name.replace("_mut", ""), [Poly.atom("place:" + lvp[1])])
        if name in ("as_mut", "as_ref", "as_deref", "as_deref_mut", "as_slice", "as_mut_slice", "iter", "is_some", "is_none") and not e["args"]:
            v = self.eval(recv)
            if name in ("as_slice", "as_mut_slice"):
                return v
            return opaque(name, [self._p(v)])
        return NotImplemented

    def std_call(self, e, d):
        args = e["args"]
        # vec![x; n]  ->  from_elem(x, n)
        if d.endswith("vec::from_elem") and len(args) == 2:
            v = self.eval(args[0])
            n = self.eval(args[1])
            if isinstance(v, Poly):
                return Buf(fresh("vec").single_atom(), {}, n if isinstance(n, Poly) else None, None, base=v)
        if d.endswith("Vec::<T>::new") and not args:
            return Coll()
        if d.endswith("box_assume_init_into_vec_unsafe") or d.endswith("slice::<impl [T]>::into_vec"):
            import re as _re
            m_ = _re.search(r"\[[^;\]]+; (\d+)\]", e.get("fty", ""))
            if m_:
                for a_ in args:
                    self.eval(a_)
                return Buf(fresh("veclit").single_atom(), {}, Poly.const(int(m_.group(1))), None)
        if d.endswith("Vec::<T>::with_capacity") and len(args) == 1:
            self.eval(args[0])
            return Buf(fresh("vec").single_atom(), {}, Poly.const(0), None)
        if d in ("std::option::Option::Some",) and len(args) == 1:
            v = self.eval(args[0])
            return opaque("Some", [self._p(v)])
        return NotImplemented


def guard_chain_if(e):
    """the if / else-if chain equivalent to `match v { x if g(x) => A, .., y => Z }` (all patterns irrefutable bindings, every
    arm but the last guarded); built once per node and cached on it, so that its identity can name a path split"""
    arms = e.get("arms") or []
    if not (len(arms) >= 2 and all(a["pat"].get("k") == "PWild" or (a["pat"].get("k") == "PBind" and a["pat"].get("sub") is None) for a in arms)
            and all(a.get("guard") is not None for a in arms[:-1]) and arms[-1].get("guard") is None):
        return None
    if "_guard_if" not in e:
        node = arms[-1]["body"]
        for a in reversed(arms[:-1]):
            node = {"k": "If", "cond": a["guard"], "then": a["body"], "else": node, "ty": e.get("ty"), "sp": a["guard"].get("sp") or e.get("sp"), "mx": e.get("mx"), "_of_id": id(e)}
        e["_guard_if"] = node
    return e["_guard_if"]


def phi_leaves(v, depth=0):
    """Leaves of a (nested) phi atom."""
    a = v.single_atom() if isinstance(v, Poly) else None
    if a and a in DEFS and DEFS[a][0] == "phi" and depth < 12:
        out = []
        for x in DEFS[a][1]:
            out.extend(phi_leaves(x, depth + 1))
        return out
    return [v]


def pat_name(p):
    if p["k"] in ("PTupleStruct", "PStruct", "PPath"):
        return p.get("def", "?")
    return p["k"]


def mentions(e, var_id):
    if isinstance(e, list):
        return any(mentions(x, var_id) for x in e)
    if isinstance(e, dict):
        if e.get("k") == "Path" and e.get("res") == "local" and e.get("id") == var_id:
            return True
        return any(mentions(v, var_id) for k_, v in e.items() if isinstance(v, (dict, list)) and not k_.startswith("_"))
    return False


class Hooks:
    """Default (no-op) rule hooks."""

    def snapshot(self):
        return None

    def restore(self, snap):
        return None

    def head_override(self, sx, node, roots):
        """called at every (re)start of a loop body after the head state is installed; may
        overwrite keys with rule-chosen symbols and returns the set of keys it fixed"""
        return None

    def select_if(self, sx, node, cond):
        return None

    def select_arms(self, sx, node, scrut):
        return None

    def call(self, sx, node, d):
        return NotImplemented

    def loop_head(self, sx, node, roots):
        return None

    def loop_latch(self, sx, node, latch, breaks):
        return None
