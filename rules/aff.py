"""AFF rules (DESIGN.md 3.1) for the four explicit steppers."""
from fractions import Fraction

import rk
import tast
import trees
from poly import Poly, reaches, DEFS

# method table: module, type, order p, estimator orders (multiset), dense order q
EXPLICIT = [
    dict(mod="rk4", ty="RK4", p=4, est=[], q=3),
    dict(mod="rk23", ty="RK23", p=3, est=[2], q=3),
    dict(mod="dopri5", ty="DOPRI5", p=5, est=[4], q=4),
    dict(mod="dop853", ty="DOP853", p=8, est=[5, 3], q=7),
]
APPROX_TOL = Fraction(1, 10 ** 13)


def solve_def(m):
    return "methods::%s::%s::solve" % (m["mod"], m["ty"])


def span(node):
    return node.get("sp") if isinstance(node, dict) else None


class Ctx:
    def __init__(self, facts):
        self.facts = facts
        self._an = {}
        self._interp = {}

    def analysis(self, m, flag="Continue", init_flag="Continue", solout_present=True, accept="then"):
        key = (m["mod"], flag, init_flag, solout_present, accept)
        if key not in self._an:
            try:
                self._an[key] = rk.analyse_solve(self.facts, solve_def(m), flag, init_flag, solout_present, accept)
            except rk.AnalysisError as e:
                self._an[key] = e
        return self._an[key]

    def tableau(self, m):
        """(names, c, A, b, H, problems, sx, hk) on the accepted/Continue path"""
        an = self.analysis(m)
        if isinstance(an, Exception):
            return None, str(an)
        sx, hk = an
        if not hk.latch:
            return None, "main loop has no accepted path that reaches the next iteration"
        L = hk.latch[0] if len(hk.latch) == 1 else sx.join_states(hk.latch)
        hk = _resolved(sx, hk, L)
        H, d = rk.step_atom(hk, L)
        if H is None:
            return None, "time update at the latch is %r, not X + (one step value)" % (d,)
        names, c, A, pb = rk.stage_rows(hk, H)
        yl = L.get(hk.ykey)
        b = rk.weights_of(yl.get(0), names, H) if yl is not None else None
        return dict(names=names, c=c, A=A, b=b, H=H, problems=pb, sx=sx, hk=hk, latch=L,
                    ylatch=yl.get(0) if yl is not None else None), None

    def interp(self, fn_def):
        if fn_def not in self._interp:
            try:
                self._interp[fn_def] = rk.analyse_interpolate(self.facts, fn_def)
            except rk.AnalysisError as e:
                self._interp[fn_def] = e
        return self._interp[fn_def]


class _HkView:
    """the hooks' records with some joins resolved (see _resolved); everything else is the original object's"""

    def __init__(self, hk, stages, solout_calls=None, interp_calls=None):
        self._hk = hk
        self.stages = stages
        if solout_calls is not None:
            self.solout_calls = solout_calls
        if interp_calls is not None:
            self.interp_calls = interp_calls

    def __getattr__(self, name):
        return getattr(self._hk, name)


def _resolved(sx, hk, L):
    """The latch is only reached on paths where some earlier tests are decided (`let last = ..; if last { h = xend - x } ..
    match last { true => break, false => continue }`): the joins those tests produced have, on the way to the latch, the
    value of the decided branch. The interpreter applies that to the state; the stage records made before the re-test
    still carry the join, so the same substitution is applied to them here."""
    import symx as _symx
    fs = (L or {}).get(_symx.FACTS) or frozenset()
    sub = {}
    for cond, truth in fs:
        try:
            ck = sx._cond_key(cond)
        except Exception:
            ck = None
        if ck is None:
            continue
        ckey, pol = ck if isinstance(ck, tuple) and len(ck) == 2 and isinstance(ck[1], bool) else (ck, True)
        for P, pt, pe in sx.cond_phis.get(ckey, []):
            sub[P] = pt if (truth == pol) else pe
    if not sub:
        return hk
    sv = lambda v: _symx.SymExec._subst_val(v, sub)

    def rec(r):
        r2 = dict(r)
        for fld, v in r.items():
            if fld == "state" and isinstance(v, dict):
                r2[fld] = {k_: sv(x_) for k_, x_ in v.items()}
            elif fld != "node":
                r2[fld] = sv(v)
        return r2
    return _HkView(hk, [rec(s) for s in hk.stages], [rec(r) for r in hk.solout_calls], [rec(r) for r in hk.interp_calls])


def exact_mode(A, b):
    dens = [v.denominator for row in A for v in row.values()] + [v.denominator for v in (b or {}).values()]
    return all(d < 10 ** 15 for d in dens)


def r_tableau(rep, ctx, m):
    fn = solve_def(m)
    rep.fn(fn)
    t, err = ctx.tableau(m)
    if t is None:
        rep.inconc("R-AFF-TABLEAU", "R-AFF-TABLEAU:%s" % fn, err)
        return None
    for p in t["problems"]:
        rep.violation("R-AFF-TABLEAU", "R-AFF-TABLEAU:%s:%s" % (fn, p.split(":")[0]), p)
    if t["b"] is None:
        rep.violation("R-AFF-TABLEAU", "R-AFF-TABLEAU:%s:update" % fn,
                      "state at the end of an accepted iteration is %r, not Y + h*sum(b*F)" % (t["ylatch"],))
        return None
    if t["problems"]:
        return None
    s = len(t["names"])
    for i in range(1, s):
        st = t["hk"].stages[i]
        rep.ok("R-AFF-TABLEAU", "R-AFF-TABLEAU:%s:stage%d" % (fn, i),
               "tau=%s row=%s" % (t["c"][i], {t["names"][j]: str(v) for j, v in t["A"][i].items()}))
    rep.sample(dict(method=m["ty"], stages=t["names"], c=[str(x) for x in t["c"]],
                    b={t["names"][j]: str(v) for j, v in t["b"].items()}))
    return t


def r_order(rep, ctx, m, t, sharp=True):
    fn = solve_def(m)
    p = m["p"]
    A, b, c = t["A"], t["b"], t["c"]
    tol = Fraction(0) if exact_mode(A, b) else APPROX_TOL
    # row sums: c_i = sum_j a_ij  (non-autonomous consistency)
    for i in range(1, len(A)):
        rs = sum(A[i].values(), Fraction(0))
        key = "R-AFF-ORDER:%s:rowsum:stage%d" % (fn, i)
        if abs(rs - c[i]) <= tol:
            rep.ok("R-AFF-ORDER", key, "c=%s" % c[i])
        else:
            rep.violation("R-AFF-ORDER", key, "stage %d is evaluated at x + %s*h but its weights sum to %s" % (i, c[i], rs),
                          span(t["hk"].stages[i]["node"]))
    res = trees.check_order(A, b, p)
    worst = Fraction(0)
    for tr, r in res:
        key = "R-AFF-ORDER:%s:tree%s" % (fn, trees.tree_str(tr))
        if abs(r) <= tol:
            rep.ok("R-AFF-ORDER", key, "residual %s" % (float(r),))
            worst = max(worst, abs(r))
        else:
            rep.violation("R-AFF-ORDER", key,
                          "order condition of tree %s (order %d) fails for the weights %s::solve applies: sum b_i Phi_i - 1/gamma = %.3e"
                          % (trees.tree_str(tr), trees.order(tr), m["ty"], float(r)),
                          span(t["hk"].main_loop))
    if sharp:
        res2 = [r for tr, r in trees.check_order(A, b, p + 1) if trees.order(tr) == p + 1]
        key = "R-AFF-ORDER:%s:sharp" % fn
        if any(abs(r) > max(tol, APPROX_TOL) for r in res2):
            rep.ok("R-AFF-ORDER", key, "order %d conditions do not all hold" % (p + 1))
        else:
            rep.note("%s: all order-%d conditions hold as well (method is of higher order than advertised)" % (fn, p + 1))
    rep.extra.setdefault("order_residual_max", {})[m["ty"]] = float(worst)


def estimator_forms(t):
    """Forms divided by a tolerance scale inside a component loop of the main loop and
    flowing into the accept test."""
    hk = t["hk"]
    out = []
    acc = hk.accept_if
    if acc is None:
        return out
    # the accept condition value: re-evaluate from the 'if' log
    cond = None
    for ev in t["sx"].trace:
        if ev["kind"] == "if" and ev["node"] is acc:
            cond = ev["cond"]
    for d in hk.divs:
        if not d["in_main"]:
            continue
        den = d["den"]
        at = den.atoms()
        if not (any(a.startswith("atol@") for a in at) and any(a.startswith("rtol@") for a in at)):
            # denominators built from a local holding the scale
            if not reaches(den, lambda a: a.startswith("atol@")) or not reaches(den, lambda a: a.startswith("rtol@")):
                continue
        if cond is not None:
            from poly import opaque
            target = opaque("inv", [den]).single_atom()
            if not reaches(cond, lambda a: a == target):
                continue
        if not any(o["num"] == d["num"] and o["den"] == d["den"] for o in out):
            out.append(d)
    return out, cond


def r_est(rep, ctx, m, t):
    fn = solve_def(m)
    want = sorted(m["est"], reverse=True)
    if not want:
        return
    forms, cond = estimator_forms(t)
    names, H, A = t["names"], t["H"], t["A"]
    got = []
    tol = Fraction(0) if exact_mode(A, t["b"]) else APPROX_TOL
    for d in forms:
        w = rk.weights_of(d["num"], names, H, base=None, hpow=1)
        if w is None:
            w = rk.weights_of(d["num"], names, H, base=None, hpow=0)
        if w is None:
            rep.violation("R-AFF-EST", "R-AFF-EST:%s:form%d" % (fn, len(got)),
                          "vector divided by the tolerance scale is %r, not h*sum(e*F) over this step's stages" % (d["num"],), span(d["node"]))
            got.append(None)
            continue
        # order of the estimator
        q = 0
        phi = trees.elementary_weights(A, 9)
        order_found = None
        for n in range(1, 10):
            vals = []
            for tr in trees.trees_of_order(n):
                v = sum((w.get(i, 0) * phi[tr][i] for i in w), Fraction(0))
                vals.append(v)
            if any(abs(v) > max(tol, APPROX_TOL) for v in vals):
                order_found = n - 1
                break
            if any(abs(v) > tol for v in vals):
                order_found = n - 1
                break
        got.append(order_found)
        rep.sample(dict(method=m["ty"], estimator_weights={names[j]: str(v) for j, v in w.items()}, vanishes_through_order=order_found))
    gs = sorted([g for g in got if g is not None], reverse=True)
    key = "R-AFF-EST:%s:orders" % fn
    if None in got:
        return
    imp = rk.imprecise_in_main(t["sx"], t["hk"])
    if gs != want and imp and len(gs) < len(want):
        rep.inconc("R-AFF-EST", key, "the error norm is computed by a construct the interpreter cannot follow (%s): estimator form not derivable" % imp[0])
        return
    if gs == want:
        rep.ok("R-AFF-EST", key, "error-norm forms vanish through orders %s and not one higher" % gs)
    else:
        rep.violation("R-AFF-EST", key,
                      "embedded estimator(s) fed to the error norm vanish through orders %s; %s needs %s (step count ~ tol^(-1/%d))"
                      % (gs, m["ty"], want, m["p"] if m["ty"] != "DOPRI5" else 5), span(t["hk"].accept_if))


def fsal_check(rep, ctx, m, flag, init_flag="Continue", solout_present=True, accept="then", rule="R-AFF-FSAL", as_note=False, per_latch=False):
    fn = solve_def(m)
    an = ctx.analysis(m, flag, init_flag, solout_present, accept)
    tag = "%s/%s/%s/%s" % (flag, init_flag, "solout" if solout_present else "nosolout", accept)
    key = "%s:%s:%s" % (rule, fn, tag)
    if isinstance(an, Exception):
        rep.inconc(rule, key, str(an))
        return
    sx, hk = an
    from protocol import answer_idiom_unknown
    unk_ = answer_idiom_unknown(ctx.facts.body(fn))
    if unk_ and solout_present:
        rep.inconc(rule, key, "the callback's answer is merged with other values before it is tested (the call is the value of a match / if arm): the stepper model cannot select the answer's branch", span(unk_[0]))
        return
    if not hk.pre_slot_ok:
        msg = "no buffer holds f(x, y) at loop entry (initial flag %s)" % init_flag
        (rep.note if as_note else lambda s: rep.violation(rule, key + ":entry", s, span(hk.main_loop)))(msg if not as_note else "%s %s" % (key, msg))
        return
    if not hk.latch:
        rep.inconc(rule, key, "no latch state on this path")
        return
    # a slot that is never read on this path (its head value F0 flows nowhere) carries no invariant
    live = False
    probe = lambda a: a == "F0"
    for ev in sx.trace:
        v = None
        if ev["kind"] in ("store", "assign"):
            v = ev.get("value")
        elif ev["kind"] == "reduce":
            v = ev.get("term")
        elif ev["kind"] == "copy":
            v = ev.get("value")
        if isinstance(v, Poly) and reaches(v, probe):
            live = True
            break
    if not live:
        for s_ in hk.stages:
            if isinstance(s_.get("arg"), Poly) and reaches(s_["arg"], probe):
                live = True
    if not live:
        for d_ in hk.divs:
            if reaches(d_["num"], probe) or reaches(d_["den"], probe):
                live = True
    if not live:
        rep.ok(rule, key, "derivative buffer %s is not read in the loop on this path (no invariant needed)" % [sx.names.get(k, k) for k in hk.slots], nontrivial=False)
        return
    latches = hk.latch if per_latch else [hk.latch[0] if len(hk.latch) == 1 else sx.join_states(hk.latch)]
    bad = []
    for L in latches:
        xl = L.get(hk.xkey)
        yl = L.get(hk.ykey)
        ylv = yl.get(0) if yl is not None and hasattr(yl, "get") else None
        hk_l = _resolved(sx, hk, L)
        for k in hk.slots:
            v = L.get(k)
            a = v.get(0).single_atom() if hasattr(v, "get") and isinstance(v.get(0), Poly) else None
            st = next((s for s in hk_l.stages if s["name"] == a), None) if a else None
            if st is None:
                bad.append("%s holds %r" % (sx.names.get(k, k), v.get(0) if hasattr(v, "get") else v))
            elif st["T"] != xl or st["arg"] != ylv:
                bad.append("%s holds f(%r, %r) but the next step starts at (%r, %r)" % (sx.names.get(k, k), st["T"], st["arg"], xl, ylv))
    if bad:
        msg = "derivative slot is not f(x, y) at the next loop head on path %s: %s" % (tag, "; ".join(bad))
        if as_note:
            rep.note("%s %s" % (key, msg))
        else:
            rep.violation(rule, key, msg, span(hk.main_loop))
    else:
        rep.ok(rule, key, "slot(s) %s = f(x, y) at the latch" % [sx.names.get(k, k) for k in hk.slots])


def r_fsal(rep, ctx, m):
    fsal_check(rep, ctx, m, "Continue")
    fsal_check(rep, ctx, m, "ModifiedSolution")
    fsal_check(rep, ctx, m, "Continue", init_flag="ModifiedSolution")
    fsal_check(rep, ctx, m, "XOut")
    if m["est"]:
        fsal_check(rep, ctx, m, "Continue", accept="else")
    # low-level use without a callback: outside the 20 properties -> NOTE only (O1)
    fsal_check(rep, ctx, m, "Continue", solout_present=False, as_note=True)


def r_crange(rep, ctx, m, t):
    fn = solve_def(m)
    for i in range(1, len(t["names"])):
        key = "R-AFF-CRANGE:%s:stage%d" % (fn, i)
        c = t["c"][i]
        if c is not None and 0 <= c <= 1:
            rep.ok("R-AFF-CRANGE", key, "tau=%s" % c)
        else:
            rep.violation("R-AFF-CRANGE", key, "stage %d is evaluated at x + %s*h, outside the step" % (i, c), span(t["hk"].stages[i]["node"]))


def dense_form(rep, ctx, m, t, rule):
    """u(theta) on the accepted path, as theta-weights over the stages; None if not derivable."""
    fn = solve_def(m)
    hk = t["hk"]
    recs = [r for r in hk.interp_calls if r["in_main"]]
    if len(recs) != 1:
        rep.inconc(rule, "%s:%s:interp-site" % (rule, fn), "expected exactly one StepInterpolant::new in the main loop, found %d" % len(recs))
        return None
    r = recs[0]
    if r["fn"] is None:
        rep.inconc(rule, "%s:%s:interp-fn" % (rule, fn), "interpolation function is not a path")
        return None
    rep.fn(r["fn"])
    res = ctx.interp(r["fn"])
    if isinstance(res, Exception):
        rep.inconc(rule, "%s:%s:interp" % (rule, fn), str(res))
        return None
    u, isx = res
    if u is None:
        rep.inconc(rule, "%s:%s:interp" % (rule, fn), "interpolate does not write yi componentwise")
        return None
    # an early return is part of the function too: where its path condition holds at a point strictly inside a step (forward
    # or backward) the value it leaves in yi must be the same polynomial the fall-through path computes
    import pnum
    for pc_, v_, nd_ in getattr(isx, "early_returns", []):
        if isinstance(v_, Poly) and v_ == u:
            continue
        hit = None
        undecided = None
        for hh_ in (0.5, -0.5):
            for th_ in (0.25, 0.5, 0.75):
                leaf_ = lambda nm, hh_=hh_, th_=th_: {"HH": hh_, "TH": th_, "XOLD": 1.0}.get(nm, 0.37 + (sum(map(ord, nm)) % 89) / 1000.0)
                try:
                    holds = all((pnum.value(cv_, {}, leaf_) is True) == (br_ == "then") for n_, br_, cv_ in pc_ if cv_ is not None)
                except pnum.NoEval as e_:
                    undecided = str(e_)
                    continue
                if holds and hit is None:
                    hit = (hh_, th_)
        conds_ = " && ".join(("" if br_ == "then" else "!") + "(" + tast.render(n_["cond"])[:60] + ")" for n_, br_, cv_ in pc_)
        if hit:
            rep.violation(rule, "%s:%s:early-return" % (rule, r["fn"]),
                          "%s returns early under `%s`, which holds strictly inside a step (theta = %s, h = %+.1f), leaving yi = %s instead of the interpolation polynomial"
                          % (r["fn"], conds_, hit[1], hit[0], repr(v_)[:80]), span(nd_) if isinstance(nd_, dict) else None)
            return None
        if undecided:
            rep.inconc(rule, "%s:%s:early-return" % (rule, r["fn"]), "%s returns early under `%s`, which could not be evaluated at the model points (%s)" % (r["fn"], conds_, undecided),
                       span(nd_) if isinstance(nd_, dict) else None)
            return None
    cont = r["cont"]
    mapping = {"HH": r["h"], "XOLD": r["xold"]}
    missing = []
    for a in u.atoms():
        if a.startswith("cont@"):
            k = int(a.split("@")[1])
            if hasattr(cont, "blocks") and k in cont.blocks:
                mapping[a] = cont.blocks[k]
            else:
                missing.append(k)
    imp_ = rk.imprecise_in_main(t["sx"], t["hk"])
    if missing and imp_:
        rep.inconc(rule, "%s:%s:blocks" % (rule, fn), "the coefficient blocks are written through a construct the interpreter cannot follow (%s): the stored polynomial is not derivable" % imp_[0], span(r["node"]))
        return None
    if missing:
        rep.violation(rule, "%s:%s:blocks" % (rule, fn),
                      "%s reads coefficient block(s) %s that the accepted path of %s never writes" % (r["fn"], sorted(missing), fn), span(r["node"]))
        return None
    uu = u.subst(mapping)
    w = rk.theta_weights(uu, t["names"], t["H"], "TH")
    if w is None:
        rep.violation(rule, "%s:%s:form" % (rule, fn),
                      "interpolant is not Y + h*sum b_i(theta) F_i over this step's stages: u(theta) = %s" % (repr(uu)[:300],), span(r["node"]))
        return None
    return dict(w=w, rec=r, u=uu)


def polyval_sum(w, phi_t, names):
    """sum_i b_i(theta) * Phi_i  -> dict power->Fraction"""
    out = {}
    for i, pw in w.items():
        f = phi_t[i]
        if f == 0:
            continue
        for p, c in pw.items():
            out[p] = out.get(p, 0) + c * f
    return {p: c for p, c in out.items() if c != 0}


def r_dense(rep, ctx, m, t, df):
    fn = solve_def(m)
    q = m["q"]
    A = t["A"]
    w = df["w"]
    tol = Fraction(0) if exact_mode(A, t["b"]) else APPROX_TOL
    phi = trees.elementary_weights(A, q + 1)
    worst = Fraction(0)
    for tr in trees.all_trees(q):
        n = trees.order(tr)
        lhs = polyval_sum(w, phi[tr], t["names"])
        rhs = {n: Fraction(1, trees.gamma(tr))}
        diff = dict(lhs)
        for p, c in rhs.items():
            diff[p] = diff.get(p, 0) - c
        mx = max([abs(c) for c in diff.values()] or [Fraction(0)])
        key = "R-AFF-DENSE:%s:tree%s" % (fn, trees.tree_str(tr))
        if mx <= tol:
            rep.ok("R-AFF-DENSE", key, "max coeff residual %.2e" % float(mx))
            worst = max(worst, mx)
        else:
            rep.violation("R-AFF-DENSE", key,
                          "continuous order condition of tree %s (order %d) fails for the interpolant of %s: max |coefficient| of sum b_i(theta)Phi_i - theta^%d/gamma = %.3e"
                          % (trees.tree_str(tr), n, m["ty"], n, float(mx)), span(df["rec"]["node"]))
    # sharpness
    nxt = []
    for tr in trees.trees_of_order(q + 1):
        lhs = polyval_sum(w, phi[tr], t["names"])
        lhs[q + 1] = lhs.get(q + 1, 0) - Fraction(1, trees.gamma(tr))
        nxt.append(max([abs(c) for c in lhs.values()] or [Fraction(0)]))
    if any(v > max(tol, APPROX_TOL) for v in nxt):
        rep.ok("R-AFF-DENSE", "R-AFF-DENSE:%s:sharp" % fn, "order %d continuous conditions do not all hold" % (q + 1))
    rep.extra.setdefault("dense_residual_max", {})[m["ty"]] = float(worst)
    rep.sample(dict(method=m["ty"], dense_weights={t["names"][i]: {str(p): str(c) for p, c in pw.items()} for i, pw in list(w.items())[:3]}))


def r_endpt(rep, ctx, m, t, df):
    fn = solve_def(m)
    w = df["w"]
    b = t["b"]
    tol = Fraction(0) if exact_mode(t["A"], b) else APPROX_TOL
    # u(0) = Y : all b_i(0) = 0
    bad0 = {t["names"][i]: pw.get(0) for i, pw in w.items() if abs(pw.get(0, 0)) > tol}
    key = "R-AFF-ENDPT:%s:left" % fn
    if bad0:
        rep.violation("R-AFF-ENDPT", key, "interpolant at theta=0 differs from the step's start state: extra terms %s" % bad0, span(df["rec"]["node"]))
    else:
        rep.ok("R-AFF-ENDPT", key, "u(0) == Y identically")
    bad1 = {}
    for i in set(w) | set(b):
        v = sum(w.get(i, {}).values(), Fraction(0))
        if abs(v - b.get(i, 0)) > tol:
            bad1[t["names"][i]] = "%s vs %s" % (v, b.get(i, 0))
    key = "R-AFF-ENDPT:%s:right" % fn
    if bad1:
        rep.violation("R-AFF-ENDPT", key, "interpolant at theta=1 differs from the accepted new state: %s" % bad1, span(df["rec"]["node"]))
    else:
        rep.ok("R-AFF-ENDPT", key, "u(1) == y_new identically")


def r_interp_h(rep, ctx, m, t):
    """segment (xold, h) handed to the interpolant is the step actually taken and matches the callback's xold/x"""
    fn = solve_def(m)
    hk = t["hk"]
    recs = [r for r in hk.interp_calls if r["in_main"]]
    souts = [r for r in hk.solout_calls if r["in_main"]]
    key = "R-INTERP-H:%s" % fn
    if len(recs) != 1 or len(souts) != 1:
        rep.inconc("R-INTERP-H", key, "expected one interpolant and one callback site in the main loop (found %d, %d)" % (len(recs), len(souts)))
        return
    r, s = recs[0], souts[0]
    probs = []
    if not (isinstance(r["xold"], Poly) and isinstance(r["h"], Poly) and isinstance(s["x"], Poly)):
        probs.append("non-scalar arguments")
    else:
        if not (r["xold"] + r["h"] - s["x"]).is_zero():
            probs.append("xold + h = %r but the step ends at x = %r" % (r["xold"] + r["h"], s["x"]))
        if r["xold"] != s["xold"]:
            probs.append("interpolant xold %r != callback xold %r" % (r["xold"], s["xold"]))
        if r["xold"] != Poly.atom("X"):
            probs.append("xold is %r, not the x the step started from" % (r["xold"],))
    if probs:
        rep.violation("R-INTERP-H", key, "; ".join(probs), span(r["node"]))
    else:
        rep.ok("R-INTERP-H", key, "xold=X, h=%s, x=X+h" % t["H"])
