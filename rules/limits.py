"""Step-size limit rules: R-HINIT-CLAMP, R-HMAX-CLAMP, R-FIRST-SIGN (solvers), R-NMAX-*, R-BUDGET."""
import tast
import mon
import rk
from symx import SymExec, Hooks, Buf
from poly import Poly, DEFS, reaches
from protocol import SOLVERS, SOLOUT, solve_fn, main_loop_of, is_solout_iflet
import handler as H

ODE = "ivp::IVP::ode"


def min_args(p, depth=0):
    """arguments of a (nested) min[...] atom; [p] if p is not a min"""
    a = p.single_atom() if isinstance(p, Poly) else None
    if a and a in DEFS and DEFS[a][0] == "min" and depth < 10:
        out = []
        for x in DEFS[a][1]:
            out.extend(min_args(x, depth + 1))
        return out
    return [p]


def abs_inner(p):
    a = p.single_atom() if isinstance(p, Poly) else None
    if a and a in DEFS and DEFS[a][0] == "abs":
        return DEFS[a][1][0]
    return None


def magnitude_of(p):
    """p == M * signum[...] (or M * posneg)  ->  M ; p == abs[..] -> p"""
    if not isinstance(p, Poly) or len(p.t) != 1:
        return None
    (m, c), = p.t.items()
    sig = [a for a, e in m if a.startswith("signum[") or a in ("posneg", "direction")]
    rest = [(a, e) for a, e in m if not (a.startswith("signum[") or a in ("posneg", "direction"))]
    if len(sig) == 1 and c in (1, -1):
        return Poly({tuple(rest): abs(c)})
    if not sig and abs_inner(p) is not None:
        return p
    return None


STD_POSITIVE = ("const:core::f64::<impl f64>::EPSILON", "const:core::f64::<impl f64>::MIN_POSITIVE", "const:core::f64::<impl f64>::MAX",
                "const:core::f64::<impl f64>::INFINITY", "const:std::f64::EPSILON", "const:std::f64::MIN_POSITIVE")


def nonneg(p, depth=0, assume=None, _inprog=None):
    """p >= 0 (or NaN) for every value of its atoms: abs/sqrt atoms, non-negative constants, products of those with a
    positive coefficient, min/max/phi of such values; a loop-carried (widen) value is non-negative when every value that
    flows into it is (induction over the loop: a self-reference counts as the hypothesis). `assume(atom)` may vouch for
    further atoms (validated configuration fields)."""
    if not isinstance(p, Poly) or depth > 12:
        return False
    if p.is_zero():
        return True
    _inprog = _inprog if _inprog is not None else set()
    for m, c in p.t.items():
        if c < 0:
            return False
        for a, e in m:
            if e % 2 == 0:
                continue
            if a in STD_POSITIVE or (assume is not None and assume(a)):
                continue
            if a in _inprog:
                continue       # induction hypothesis
            d = DEFS.get(a)
            if d is None:
                return False
            op, xs = d
            base = op.split(":")[0]
            args = [x for x in xs if isinstance(x, Poly)]
            if base in ("abs", "sqrt"):
                continue
            rec = lambda x: nonneg(x, depth + 1, assume, _inprog | {a})
            if base in ("min", "phi", "clamp", "widen") and args and all(rec(x) for x in args):
                continue
            if base == "max" and any(rec(x) for x in args):
                continue
            if base in ("powf", "powi", "inv") and args and rec(args[0]):
                continue
            if base == "call" and "Option::<T>::unwrap_or" in op and "unwrap_or_else" not in op and len(args) == 2 and all(rec(x) for x in args):
                continue      # Some(v) -> v, None -> default: non-negative when both are
            return False
    return True


class ClampFacts:
    """Upper-bound facts for symbolic values from recognised clamp idioms:
       min[.., B, ..] <= B ;  the phi created by `if |v| > B { v = A }` with |A| <= bound ;  clamp[v, lo, hi].
       The `if` idiom is checked on the symbolic values of the comparison operands: the tested quantity must be the
       magnitude of the OLD value of the variable (abs[v], or v itself when v is provably non-negative); a test of the
       signed value proves nothing for negative steps."""

    def __init__(self, sx, assume=None):
        self.sx = sx
        self.assume = assume   # atoms vouched non-negative (a positive max_step is the domain of the step-bound properties)
        self.phi_bound = {}    # phi atom -> [(L, R, then value, else value)]
        last_if = {}
        for ev in sx.trace:
            if ev["kind"] == "if":
                last_if[id(ev["node"])] = ev.get("cond")
                continue
            if ev["kind"] == "ifexpr_phi":
                # the expression form `v = if |v| > B { A } else { v }` (or with the test and the arms the other way round)
                cv = ev.get("cond")
                ca = cv.single_atom() if isinstance(cv, Poly) else None
                d = DEFS.get(ca) if ca else None
                if d is not None and d[0] in ("gt", "ge", "lt", "le") and len(d[1]) == 2 and all(isinstance(q, Poly) for q in d[1]):
                    big, small = (d[1][0], d[1][1]) if d[0] in ("gt", "ge") else (d[1][1], d[1][0])      # big > small in the then-arm
                    self.phi_bound.setdefault(ev["atom"], []).append((big, small, ev["v_then"], ev["v_else"]))
                    # negated test: `if |v| <= B { v } else { A }` - in the else-arm the other side is the larger one
                    self.phi_bound[ev["atom"]].append((small, big, ev["v_else"], ev["v_then"]))
                continue
            if ev["kind"] != "joinphi":
                continue
            n = ev["node"]
            cv = last_if.get(id(n))
            ca = cv.single_atom() if isinstance(cv, Poly) else None
            d = DEFS.get(ca) if ca else None
            if d is None or d[0] not in ("gt", "ge", "lt", "le") or len(d[1]) != 2:
                continue
            L, R = d[1]
            if d[0] in ("lt", "le"):
                L, R = R, L          # R < L  ==  L > R
            if n.get("else") is not None:
                continue
            for k, v in ev["created"].items():
                a = v.single_atom() if isinstance(v, Poly) else None
                if a and a in DEFS and DEFS[a][0] == "phi" and len(DEFS[a][1]) == 2:
                    v_then, v_old = DEFS[a][1]
                    self.phi_bound.setdefault(a, []).append((L, R, v_then, v_old))

    def bounded_by(self, p, is_bound, depth=0):
        """True if |p| is provably <= some value satisfying is_bound"""
        if not isinstance(p, Poly) or depth > 8:
            return False
        if is_bound(p):
            return True
        mg = magnitude_of(p)
        if mg is not None and mg != p and self.bounded_by(mg, is_bound, depth + 1):
            return True
        inner = abs_inner(p)
        if inner is not None and self.bounded_by(inner, is_bound, depth + 1):
            return True
        if inner is not None:
            m = magnitude_of(inner)
            if m is not None and self.bounded_by(m, is_bound, depth + 1):
                return True
        args = min_args(p)
        if len(args) > 1 and any(self.bounded_by(a, is_bound, depth + 1) for a in args) and all(nonneg(a, assume=self.assume) for a in args):
            return True
        a = p.single_atom()
        if a and a in DEFS:
            op, xs = DEFS[a]
            if op == "clamp" and len(xs) == 3:
                return self.bounded_by(xs[2], is_bound, depth + 1) or is_bound(xs[2])
            if op == "phi" and a in self.phi_bound:
                for L, R, v_then, v_old in self.phi_bound[a]:
                    # `if L > R { v = v_then }`: on the fall-through edge L <= R holds
                    tested_old = isinstance(L, Poly) and isinstance(v_old, Poly) and (
                        abs_inner(L) == v_old or L == magnitude_of(v_old) or (L == v_old and nonneg(v_old))
                        or (abs_inner(L) is not None and magnitude_of(v_old) is not None and abs_inner(L) == magnitude_of(v_old)))
                    if tested_old and self.bounded_by(R, is_bound, depth + 1) and self.bounded_by(v_then, is_bound, depth + 1):
                        return True
            if op == "phi":
                ins = [x for x in xs if isinstance(x, Poly)]
                if ins and all(self.bounded_by(x, is_bound, depth + 1) for x in ins):
                    return True
        return False


def r_hinit_clamp(rep, f):
    fn = "methods::hinit"
    body = f.bodies.get(fn)
    key = "R-HINIT-CLAMP:%s" % fn
    if body is None:
        rep.inconc("R-HINIT-CLAMP", key, "hinit not found")
        return
    rep.fn(fn)

    class HH(Hooks):
        def __init__(self):
            self.odes = []

        def call(self, sx, node, d):
            if d == ODE and node["k"] == "MethodCall":
                self.odes.append((sx.eval(node["args"][0]), node))
                for a in node["args"][2:]:
                    lv = sx.lvalue(a)
                    if len(lv) > 1 and lv[1]:
                        sx.havoc_key(lv[1], "ode")
                return Poly.atom("unit")
            return NotImplemented
    hh = HH()
    sx = SymExec(f, fn, hh)
    sx.bind_params()
    ret = sx.eval(body["body"])
    cf = ClampFacts(sx)
    is_hmax = lambda p: abs_inner(p) is not None and abs_inner(p) == Poly.atom("hmax") or p == Poly.atom("hmax")
    probs = []
    if len(hh.odes) != 1:
        rep.inconc("R-HINIT-CLAMP", key, "expected one probe evaluation in hinit, found %d" % len(hh.odes))
        return
    T, node = hh.odes[0]
    d = T - Poly.atom("x")
    m = magnitude_of(d)
    if m is None or not cf.bounded_by(m, is_hmax):
        probs.append(("probe", "the probe evaluation is at x + %r, whose magnitude is not bounded by |hmax|" % (d,), node))
    m2 = magnitude_of(ret) if isinstance(ret, Poly) else None
    if m2 is None or not cf.bounded_by(m2, is_hmax):
        probs.append(("result", "the returned step %r is not bounded by |hmax|" % (ret,), body))
    for what, msg, nd in probs:
        rep.violation("R-HINIT-CLAMP", "%s:%s" % (key, what), msg, nd.get("sp"))
    if not probs:
        rep.ok("R-HINIT-CLAMP", key, "probe x + h and the returned step are bounded by |hmax| (clamp idioms: if h > |hmax| {h = |hmax|}, .min(|hmax|))")
    # call sites: the hmax argument derives from max_step / the span
    n_sites = 0
    for mod, ty in SOLVERS:
        sfn = solve_fn(mod, ty)
        sb = f.body(sfn)
        for c in tast.calls(sb["body"], fn):
            n_sites += 1
            k2 = "R-HINIT-CLAMP:%s:call" % sfn
            # the probe abscissa x + h (|h| <= |hmax| by the part above) stays inside [x0, xend] only when the bound handed to
            # hinit does not exceed the span: a user max_step larger than the interval (inf included) must be capped here
            k3 = "R-HINIT-CLAMP:%s:call-span" % sfn
            try:
                import rk
                sx2, hk2 = rk.analyse_solve(f, sfn)
            except Exception as e_:
                rep.inconc("R-HINIT-CLAMP", k3, "solve() not analysed: %s" % e_)
                continue
            hat = None
            src_file = (c.get("sp") or "").split(":")[0]
            for a_, d_ in list(DEFS.items()):
                if d_[0].startswith("call:methods::hinit") and len(d_[1]) >= 9 and src_file and ("#" + src_file) in a_:
                    hat = d_
            if hat is None:
                rep.inconc("R-HINIT-CLAMP", k3, "the value of the hinit call was not found in the symbolic trace")
                continue
            hv = hat[1][8]
            span = Poly.atom("xend") - Poly.atom("x0")

            def is_span(p_):
                inn = abs_inner(p_)
                return inn is not None and (inn == span or inn == -span)
            def is_user_max(p_):
                # the solver's own step bound: max_step (through Option::map / unwrap_or / a match) or its magnitude, unscaled
                inn = abs_inner(p_)
                q_ = inn if inn is not None else p_
                a0 = q_.single_atom()
                d0 = DEFS.get(a0) if a0 else None
                if not d0 or not (d0[0].startswith("call:std::option::Option") or d0[0] == "phi"):
                    return False
                from poly import reaches
                return reaches(q_, lambda at: at == "self.max_step")
            cf2 = ClampFacts(sx2)
            if isinstance(hv, Poly) and cf2.bounded_by(hv, is_user_max):
                rep.ok("R-HINIT-CLAMP", k2, "the bound handed to hinit is at most the configured max_step")
            else:
                rep.violation("R-HINIT-CLAMP", k2, "hinit is called with hmax = %r, which is not bounded by the configured max_step" % (hv,), c.get("sp"))
            if isinstance(hv, Poly) and cf2.bounded_by(hv, is_span):
                rep.ok("R-HINIT-CLAMP", k3, "the bound handed to hinit is at most |xend - x0|: the probe evaluation stays inside the interval")
            else:
                rep.violation("R-HINIT-CLAMP", k3, "hinit is called with hmax = %r, which is not bounded by the span |xend - x0|: with max_step larger than the interval (e.g. inf) "
                              "the probe evaluation f(x0 + h, ..) of the automatic first step lies outside [x0, xend]" % (hv,), c.get("sp"))
    if n_sites < 4:
        rep.inconc("R-HINIT-CLAMP", key + ":floor", "only %d hinit call sites (expected 4)" % n_sites)


def r_first_sign_solvers(rep, f):
    for mod, ty in SOLVERS:
        fn = solve_fn(mod, ty)
        try:
            sx, hk = rk.analyse_solve(f, fn)
        except rk.AnalysisError as e:
            rep.inconc("R-FIRST-SIGN", "R-FIRST-SIGN:%s" % fn, str(e))
            continue
        vals = [v for v in (hk.pre_state or {}).values() if isinstance(v, Poly)]
        for s in hk.stages_pre + hk.stages:
            if isinstance(s.get("T"), Poly):
                vals.append(s["T"])
        bad = H.first_sign_violations(vals, "self.first_step")
        uses = [v for v in vals if reaches(v, lambda a: a.endswith("self.first_step"))]
        key = "R-FIRST-SIGN:%s" % fn
        if bad:
            rep.violation("R-FIRST-SIGN", key, "the raw first_step is combined with the direction without abs(): %r" % (bad[0][0],), f.body(fn).get("sp"))
        else:
            rep.ok("R-FIRST-SIGN", key, "%d value(s) derived from first_step, all through abs() before the direction factor" % len(uses), nontrivial=bool(uses))


# ------------------------------------------------------------------------------------------ R-HMAX-CLAMP
def hmax_value(sx, body):
    """value of the local that holds the step-size cap (derived from the max_step field)"""
    out = []
    for l in tast.find(body["body"], lambda z: z.get("k") == "Let" and z["pat"].get("k") == "PBind" and z.get("init") is not None
                       and tast.contains(z["init"], lambda q: q.get("k") == "Field" and (q.get("fdef") or "").endswith("::max_step"))):
        out.append(l["pat"]["id"])
    return out


def r_hmax_clamp(rep, f):
    from protocol import SOLVERS
    for mod, ty in SOLVERS:
        if mod == "rk4":
            continue   # fixed step: first_step is the step
        fn = solve_fn(mod, ty)
        body = f.body(fn)
        key = "R-HMAX-CLAMP:%s" % fn
        try:
            variants = rk.analyse_variants(f, fn)
        except rk.AnalysisError as e:
            rep.inconc("R-HMAX-CLAMP", key, str(e))
            continue
        probs = {}
        n_ok = 0
        for tag, sx, hk in variants:
            hm_ids = hmax_value(sx, body)
            if not hm_ids:
                rep.inconc("R-HMAX-CLAMP", key, "no local derived from max_step")
                break
            hm_vals = [hk.pre_state.get(i) for i in hm_ids if isinstance(hk.pre_state.get(i), Poly)]
            # a configured minimum step may raise the step (assumed min_step <= max_step)
            hmin_ids = [l["pat"]["id"] for l in tast.find(body["body"], lambda z: z.get("k") == "Let" and z["pat"].get("k") == "PBind" and z.get("init") is not None
                                                          and tast.contains(z["init"], lambda q: q.get("k") == "Field" and (q.get("fdef") or "").endswith("::min_step")))]
            hmin_vals = [hk.pre_state.get(i) for i in hmin_ids if isinstance(hk.pre_state.get(i), Poly)]
            souts = [r for r in hk.solout_calls if r["in_main"]]
            if not souts or not isinstance(souts[0]["x"], Poly):
                continue
            cf = ClampFacts(sx, assume=lambda at: at == "self.max_step")
            xend = Poly.atom("xend")
            # inductive hypothesis: the step variable's value at the loop head is bounded
            head_atoms = {v.single_atom() for k, v in (hk.head or {}).items() if isinstance(v, Poly) and v.single_atom()
                          and DEFS.get(v.single_atom(), ("",))[0] == "widen" and k in (hk.pre_roots or ())}
            step = souts[0]["x"] - Poly.atom("X")
            step_atoms = set()
            stack = list(step.atoms())
            while stack:
                a_ = stack.pop()
                if a_ in step_atoms:
                    continue
                step_atoms.add(a_)
                d_ = DEFS.get(a_)
                if d_ and d_[0] == "phi":
                    for x_ in d_[1]:
                        if isinstance(x_, Poly):
                            stack.extend(x_.atoms())
            hyp = head_atoms & step_atoms

            def is_bound(p):
                if any(p == v or abs_inner(p) == v or (abs_inner(v) is not None and p == v) for v in hm_vals + hmin_vals):
                    return True
                if p == xend - Poly.atom("X") or landing_mag(p, xend):
                    return True
                a = p.single_atom()
                if a in hyp:
                    return True
                inner = abs_inner(p)
                if inner is not None and inner.single_atom() in hyp:
                    return True
                return False

            def landing(p):
                return p == xend - Poly.atom("X")

            # (a) the step actually taken
            m = magnitude_of(step)
            if not (landing(step) or (m is not None and (cf.bounded_by(m, is_bound) or landing_mag(m, xend))) or cf.bounded_by(step, is_bound)):
                probs["step-taken"] = ("the step taken, %r, is neither bounded by max_step nor the landing step xend - x (path variant %s)" % (step, tag), souts[0]["node"])
            else:
                n_ok += 1
            skeys = [k for k, v in (hk.head or {}).items() if isinstance(v, Poly) and v.single_atom() in hyp]
            # (a0) base case of the induction: the value the step variable has when the loop is entered
            for k in skeys:
                pv = (hk.pre_state or {}).get(k)
                if not isinstance(pv, Poly) or "base" in probs:
                    continue

                def hinit_result(p_):
                    a_ = p_.single_atom() if isinstance(p_, Poly) else None
                    d_ = DEFS.get(a_) if a_ else None
                    return bool(d_) and d_[0].startswith("call:methods::hinit")

                def user_first_step(p_):
                    # |first_step| * direction: the property's domain has first_step <= max_step and <= the span
                    mm0 = magnitude_of(p_)
                    inner0 = abs_inner(mm0) if mm0 is not None else abs_inner(p_)
                    return inner0 is not None and reaches(inner0, lambda a: a.endswith(".first_step")) and inner0.single_atom() is not None

                def tiny_max(p_):
                    # max[B, MIN_POSITIVE]: a bound raised to the smallest positive number is still the bound for this purpose
                    a_ = p_.single_atom() if isinstance(p_, Poly) else None
                    d_ = DEFS.get(a_) if a_ else None
                    if d_ and d_[0] == "max":
                        xs_ = [x for x in d_[1] if isinstance(x, Poly)]
                        rest = [x for x in xs_ if not (x.single_atom() in STD_POSITIVE)]
                        return len(rest) == 1 and len(xs_) == 2 and (is_bound(rest[0]) or cf.bounded_by(rest[0], is_bound))
                    return False

                def base_ok(p_, depth=0):
                    if hinit_result(p_) or landing(p_) or p_ == xend - Poly.atom("x0") or user_first_step(p_):
                        return True       # R-HINIT-CLAMP bounds hinit's result at every call site
                    if any(tiny_max(a_) for a_ in min_args(p_)):
                        return True
                    mm_ = magnitude_of(p_)
                    if cf.bounded_by(mm_ if mm_ is not None else p_, lambda q: is_bound(q) or hinit_result(q)) or (mm_ is not None and landing_mag(mm_, xend)):
                        return True
                    a_ = p_.single_atom()
                    d_ = DEFS.get(a_) if a_ else None
                    if d_ and d_[0] == "phi" and depth < 6:
                        ins_ = [x for x in d_[1] if isinstance(x, Poly)]
                        return bool(ins_) and all(base_ok(x, depth + 1) for x in ins_)
                    return False
                if base_ok(pv):
                    n_ok += 1
                else:
                    probs["base"] = ("the step `%s` enters the main loop as %s, which is not bounded by max_step (path variant %s): the first step can exceed max_step"
                                     % (sx.names.get(k, k), repr(pv)[:200], tag), hk.main_loop)
            # (b) the step proposed for the next iteration on accepting paths
            acc_keys = [k for k, nm in sx.names.items() if nm.endswith(".accepted")]
            for L in hk.latch or []:
                if acc_keys and L.get(acc_keys[0], sx.lazy.get(acc_keys[0])) == hk.head.get(acc_keys[0], sx.lazy.get(acc_keys[0])):
                    continue   # rejecting iteration: shrink-only (R-REJECT-SHRINK)
                for k in skeys:
                    hv = L.get(k)
                    if not isinstance(hv, Poly):
                        continue
                    if hv == hk.head.get(k):
                        continue
                    mm = magnitude_of(hv)
                    target = mm if mm is not None else hv
                    xl = L.get(hk.xkey)
                    if cf.bounded_by(target, is_bound) or landing(hv) or landing_mag(target, xend) or (isinstance(xl, Poly) and hv == xend - xl):
                        n_ok += 1
                    else:
                        probs["next-step"] = ("after an accepted step the next step %r is not passed through a comparison/min/clamp against max_step (path variant %s)"
                                              % (hv, tag), hk.main_loop)
        for pk, (msg, node) in probs.items():
            rep.violation("R-HMAX-CLAMP", "%s:%s" % (key, pk), msg[:600], node.get("sp") if isinstance(node, dict) else None)
        if not probs:
            if n_ok == 0:
                rep.inconc("R-HMAX-CLAMP", key, "no step value analysed")
            else:
                rep.ok("R-HMAX-CLAMP", key, "%d step value(s) over %d path variant(s) bounded by max_step (clamp idioms) or equal to the landing step" % (n_ok, len(variants)))


def landing_mag(m, xend):
    inner = abs_inner(m) if isinstance(m, Poly) else None
    return inner is not None and (inner == xend - Poly.atom("X") or inner == Poly.atom("X") - xend)


# ------------------------------------------------------------------------------------------ R-FIRST-TRIAL
def r_first_trial(rep, f):
    """a given first_step is the size of the first trial step: the step variable is initialised to |first_step| * direction"""
    from symx import phi_leaves
    from protocol import SOLVERS
    for mod, ty in SOLVERS:
        if mod == "rk4":
            continue
        fn = solve_fn(mod, ty)
        key = "R-FIRST-TRIAL:%s" % fn
        try:
            sx, hk = rk.analyse_solve(f, fn)
        except rk.AnalysisError as e:
            rep.inconc("R-FIRST-TRIAL", key, str(e))
            continue
        found = []
        for k, v in (hk.pre_state or {}).items():
            if not isinstance(v, Poly):
                continue
            for leaf in phi_leaves(v):
                for m, c in (leaf.t.items() if isinstance(leaf, Poly) else []):
                    absf = [a for a, e in m if a.startswith("abs[") and H.raw_from(abs_inner(Poly.atom(a)).single_atom() or "", "self.first_step")] if True else []
                    if absf:
                        rest = [(a, e) for a, e in m if a not in absf and not (a.startswith("signum[") or a in ("posneg", "direction"))]
                        found.append((sx.names.get(k, k), leaf, c, rest))
        # clamp/min wrappers around |first_step| are fine (bounded by max_step); scaling is not
        good = [x for x in found if abs(x[2]) == 1 and not x[3]]
        wrapped = []
        for k, v in (hk.pre_state or {}).items():
            if isinstance(v, Poly) and reaches(v, lambda a: a.endswith("self.first_step")):
                wrapped.append(sx.names.get(k, k))
        if good or (wrapped and not found):
            rep.ok("R-FIRST-TRIAL", key, "initial step = |first_step| * direction%s" % ("" if good else " (through a clamp)"))
        elif found:
            rep.violation("R-FIRST-TRIAL", key, "the initial step derived from first_step is scaled: %r" % (found[0][1],), f.body(fn).get("sp"))
        else:
            rep.inconc("R-FIRST-TRIAL", key, "no value derived from first_step before the main loop")


# ------------------------------------------------------------------------------------------ R-NMAX-TAINT
def r_nmax_taint(rep, f):
    from protocol import SOLVERS
    for mod, ty in SOLVERS:
        fn = solve_fn(mod, ty)
        body = f.body(fn)
        key = "R-NMAX-TAINT:%s" % fn
        ids = [l["pat"]["id"] for l in tast.find(body["body"], lambda z: z.get("k") == "Let" and z["pat"].get("k") == "PBind" and z.get("init") is not None
                                                 and tast.contains(z["init"], lambda q: q.get("k") == "Field" and (q.get("fdef") or "").endswith("::max_steps")))]
        direct = tast.find_with_parents(body["body"], lambda z: z.get("k") == "Field" and (z.get("fdef") or "").endswith("::max_steps"))
        if not ids and not direct:
            rep.inconc("R-NMAX-TAINT", key, "max_steps is not read")
            continue
        bad = []
        n = 0
        for use, parents in tast.find_with_parents(body["body"], lambda z: z.get("k") == "Path" and z.get("id") in ids):
            n += 1
            par = parents[-1]
            if par.get("k") == "Binary" and par["op"] in ("Ge", "Gt", "Le", "Lt", "Eq", "Ne"):
                continue
            if par.get("k") == "Struct" and "ConfigError" in (par.get("def") or ""):
                continue
            bad.append(tast.render(par))
        for use, parents in direct:
            par = parents[-1]
            if par.get("k") == "Let" or (par.get("k") == "Binary" and par["op"] in ("Ge", "Gt", "Le", "Lt", "Eq", "Ne")):
                continue
            bad.append(tast.render(par))
        if bad:
            rep.violation("R-NMAX-TAINT", key, "the step budget is used outside comparisons (it must not influence the integration itself): %s" % bad[:2], body.get("sp"))
        else:
            rep.ok("R-NMAX-TAINT", key, "max_steps feeds only %d comparison(s)/validation" % n)


def r_hinit_order(rep, f):
    """the automatic first step is h1 = (0.01 / max(|f'|, |y''|))^(1/iord): iord must be the order of the local error of the
    solver's FIRST step (p for an explicit pair whose solution has order p; k + 1 for a multistep method that starts at order
    k). An exponent of 1 where 1/2 belongs makes the first step the square of what it should be: 1e-15 .. 1e-23 for stiff or
    fast problems - below the spacing of doubles at any x0 of size 1, so the step-size guard ends the run before it starts."""
    import aff
    fn_h = "methods::hinit"
    want = {aff.solve_def(m): (m["p"], "the method's order %d" % m["p"]) for m in aff.EXPLICIT if m["ty"] != "RK4"}
    # BDF: initial order + 1
    bdf = "methods::bdf::BDF::solve"
    try:
        import bdfx
        r = bdfx.find_roles(f)
    except Exception:
        r = None
    if r is not None:
        lets = tast.find(r.body["body"], lambda z: z.get("k") == "Let" and z["pat"].get("k") == "PBind" and z["pat"].get("id") == r.order and z.get("init") is not None)
        if len(lets) == 1 and lets[0]["init"].get("k") == "Lit" and lets[0]["init"].get("lk") == "Int":
            k0 = int(str(lets[0]["init"]["v"]).split("_")[0].rstrip("usize") or 0) if not str(lets[0]["init"]["v"]).isdigit() else int(lets[0]["init"]["v"])
            want[bdf] = (k0 + 1, "its starting order %d plus one" % k0)
    n = 0
    for fn, b in sorted(f.bodies.items()):
        if not fn.startswith("methods::") or not fn.endswith("::solve"):
            continue
        for c in tast.find(b["body"], lambda z: z.get("k") == "Call" and (z.get("def") or "") == fn_h):
            params = f.bodies[fn_h].get("params", []) if fn_h in f.bodies else []
            idx = next((i for i, p_ in enumerate(params) if p_.get("name") == "iord"), 7)
            if idx >= len(c["args"]):
                continue
            a = c["args"][idx]
            while a.get("k") in ("Cast", "DropTemps", "Paren"):
                a = a["e"]
            key = "R-HINIT-ORDER:%s" % fn
            if a.get("k") != "Lit" or fn not in want:
                rep.note("%s: order argument `%s` not compared (no reference order for this solver)" % (key, tast.render(a)[:40]))
                continue
            n += 1
            got = int(str(a["v"]).split("_")[0]) if str(a["v"]).split("_")[0].isdigit() else None
            exp, why = want[fn]
            if got == exp:
                rep.ok("R-HINIT-ORDER", key, "hinit is asked for order %d = %s" % (got, why))
            else:
                rep.violation("R-HINIT-ORDER", key, "hinit is asked for order %s, but the local error of this solver's first step has order %d (%s): the automatic first step is (0.01/max(|f'|,|y''|))^(1/%s) "
                              "instead of ^(1/%d) - for a stiff or fast problem far below the spacing of doubles at x0, and the run ends with StepSizeTooSmall before its first step unless x0 = 0"
                              % (got, exp, why, got, exp), c.get("sp"))
    if n < 4:
        rep.inconc("R-HINIT-ORDER", "R-HINIT-ORDER:floor", "only %d hinit call(s) with a literal order compared (expected 4)" % n)


# ------------------------------------------------------------------------------------------ R-REJECT-CONSUMED
def r_reject_consumed(rep, f, only=("radau", "bdf")):
    """A solver that raises a flag where an attempt is rejected uses it to hold the next step down (`if reject { hnew =
    min(|hnew|, |h|) }`).  The accepted step that follows has to lower it again: at the end of every iteration that
    advanced x the flag is false.  A flag that survives caps every later step at its predecessor - the step size can only
    shrink from the first rejection on, and the number of steps grows with the stiffness ratio.
    The flags are the booleans assigned `true` on the rejecting branch of the acceptance test (the stepper model gives them
    an unknown value at the loop head); the latch states come from the symbolic interpretation of one iteration."""
    import rk
    from protocol import SOLVERS, solve_fn
    TRUE, FALSE, X = Poly.atom("true"), Poly.atom("false"), Poly.atom("X")
    n_flags = 0
    for mod, ty in SOLVERS:
        if mod not in only:
            continue
        fn = solve_fn(mod, ty)
        key = "R-REJECT-CONSUMED:%s" % fn
        try:
            variants = rk.analyse_variants(f, fn)
        except rk.AnalysisError as e:
            rep.inconc("R-REJECT-CONSUMED", key, str(e))
            continue
        flags, n_adv, bad = {}, 0, None
        for tag, sx, hk in variants:
            for k, v in (hk.head or {}).items():
                if isinstance(v, Poly) and (v.single_atom() or "").startswith("flag~"):
                    flags[k] = v.single_atom()[5:]
            for L in (hk.latch or []):
                xl = L.get(hk.xkey)
                if not isinstance(xl, Poly) or xl == X:
                    continue          # the iteration did not advance: a rejected attempt going round the loop
                n_adv += 1
                for k, nm in flags.items():
                    if L.get(k) != FALSE and bad is None:
                        bad = (nm, L.get(k), tag)
        if not flags:
            rep.ok("R-REJECT-CONSUMED", key, "no flag is raised on the rejecting branch of the acceptance test", nontrivial=False)
            continue
        n_flags += len(flags)
        if bad:
            rep.violation("R-REJECT-CONSUMED", key, "the flag `%s`, raised when an attempt is rejected, is %s at the end of an iteration that accepted its step (path variant %s): "
                          "every later step stays capped by its predecessor, so the step size can never grow again after the first rejection"
                          % (bad[0], "still set" if bad[1] == TRUE else "not cleared on every path (%r)" % (bad[1],), bad[2]), f.body(fn).get("sp"))
        elif n_adv == 0:
            rep.inconc("R-REJECT-CONSUMED", key, "no iteration that advances x was found")
        else:
            rep.ok("R-REJECT-CONSUMED", key, "flag(s) %s: false at the end of all %d accepting iteration(s)" % (", ".join(sorted(set(flags.values()))), n_adv))
    return n_flags
