"""C11 max_step, first_step and max_steps are honoured."""
import facts
import handler as H
import landing
import limits
import C04

LEVEL = "other"


def run(rep, tier):
    f = facts.load("default")
    rep.rule("R-HMAX-CLAMP", "in every path variant the step actually taken is bounded by max_step through a recognised clamp idiom (if |h| > hmax {h = hmax}, min, clamp), "
                             "inductively from the loop head, or is the landing step xend - x; the step proposed after an accepted step is clamped likewise")
    rep.rule("R-HINIT-CLAMP", "hinit's probe point and result are bounded by |hmax|, and hmax = max_step or the span at every call site")
    rep.rule("R-FIRST-SIGN", "first_step passes abs() before meeting a direction factor")
    rep.rule("R-FIRST-TRIAL", "the step variable is initialised to |first_step| * direction (no scaling)")
    rep.rule("R-NMAX-GUARD", "the main loop tests Steps::total against max_steps and exits with NeedLargerNMax")
    rep.rule("R-BUDGET", "every cycle increments Steps::total (or a bounded retry counter), so the number of attempts is bounded by max_steps")
    rep.rule("R-NMAX-TAINT", "max_steps is used only in comparisons: the budgeted run is a prefix of the unbudgeted one")
    rep.rule("R-LAND-STRETCH", "the final step is stretched by at most 1%")
    limits.r_hmax_clamp(rep, f)
    limits.r_hinit_clamp(rep, f)
    limits.r_first_sign_solvers(rep, f)
    limits.r_first_trial(rep, f)
    C04.r_guards(rep, f, include_rk4=True)
    limits.r_nmax_taint(rep, f)
    landing.r_land_stretch(rep, f)
    landing.r_land_stretch_sem(rep, f)
    hc = H.HandlerCtx(f)
    if hc.body is not None:
        H.r_first_sign_handler(rep, hc)
    rep.rule("R-FIRST-LATCH", "the handler's one-shot flag for the first_step output (it switches off the branch that skips end points until x0 + first_step has been reported) is raised only on a path that records a sample in the same call")
    if H.r_first_latch(rep, H.HandlerCtx(f)) < 1:
        rep.inconc("R-FIRST-LATCH", "R-FIRST-LATCH:floor", "no one-shot flag found in the handler (expected first_output_done)")
    rep.explanation = ("Structural/symbolic: clamp idioms against max_step on every path variant (inductive over the loop), sign-normalised first_step used unscaled as the first trial "
                       "step, a budget test that every cycle passes, and a taint rule showing max_steps influences nothing but that test. "
                       "Not decided: |h| <= max_step as a floating-point fact after h = xend - x; bit-identity of the budgeted prefix as values.")
