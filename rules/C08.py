"""C08 Reported events are genuine, direction-filtered, ordered and consistent."""
import facts
import handler as H

LEVEL = "other"


def run(rep, tier):
    f = facts.load("default")
    hc = H.HandlerCtx(f)
    if hc.body is None:
        rep.inconc("anchor", "anchor:DefaultSolOut::solout", "default output handler not found")
        return
    rep.fn(hc.body["def"])
    rep.rule("R-EVT-PAIR", "t_events[i].push is paired with y_events[i].push under the same index on every path; both are created with length n_events")
    rep.rule("R-EVT-PROV", "each (time, state) an event can report is (xold, saved previous state), (x, y) or (b, interpolant(b)); the processing loop records components of the same detected element")
    rep.rule("R-CROSSED-TABLE", "exhaustive truth table of crossed(left,right,dir) over {neg,-0,+0,pos,NaN}^2 x 3 directions: strict opposite signs in the configured direction => true, strict same sign or wrong direction => false")
    rep.rule("R-EVT-SORT", "events detected in one step are sorted by time (ascending forward, descending backward) before they are recorded")
    rep.rule("R-TERM-COND", "Interrupt is control-dependent on event_hits[i] >= terminal_count, inside the sorted processing loop, after the event was recorded")
    H.r_push_pair(rep, hc, "R-EVT-PAIR", "t_events", "y_events", 1, True)
    H.r_evt_shape(rep, hc)
    H.r_evt_prov(rep, hc)
    H.r_crossed_table(rep, hc)
    rep.rule("R-EVT-ONE", "the direction filter is applied to (previous value, current value) of the same event function in the order of integration (symbolic values of the arguments of the sign-change test)")
    H.r_evt_args(rep, hc)
    rep.rule("R-EVT-PAIR", "every evaluation of the event functions in the handler is made at a consistent (time, state) pair: (x, y) or (t, interpolant(t)) for the same t")
    H.r_evt_eval_pair(rep, hc)
    H.r_evt_sort(rep, hc)
    rep.rule("R-TIME-MINMAX", "time points in the output handler are never ordered with a bare min/max/clamp (direction-dependent): only sorted pairs or under a direction test")
    H.r_time_minmax(rep, hc)
    rep.rule("R-TIME-ORDER", "an ordering test between two time points (a time difference compared with a tolerance, not under abs) is never evaluated in the same form for both directions of integration")
    H.r_time_order(rep, hc)
    H.r_term(rep, hc)
    rep.rule("R-DIR-FROM", "the integer conversion into Direction selects by sign (exact evaluation at the function's literals, their neighbours and the i32 range ends)")
    H.r_dir_from(rep, f)
    rep.rule("R-CONFIG-FRAME", "each &mut self setter of EventConfig writes exactly one of the two settings (direction filter, terminal count) and leaves the other as configured")
    H.r_config_frame(rep, f)
    rep.explanation = ("Structural + finite-domain: shapes, provenance of reported event states, complete truth table of the direction filter, "
                       "chronological ordering. Not decided: |g(t_e,y_e)| small and t_e inside the bracket (Brent's invariants over run-time floats).")
