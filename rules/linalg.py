"""Linear-algebra discipline rules: R-LU-ERRS, R-LU-SIBLINGS, R-PIVOT-ARGMAX, R-MULT-SIGN, R-SOLVE-READONLY (C16),
R-LU-CHECKED, R-LU-FRESH, R-JAC-REFRESH, R-BDF-MATRIX (C14)."""
import tast
import mon
from symx import SymExec, Hooks, Buf, FACTS
from poly import Poly, DEFS
from protocol import main_loop_of

LU = "matrix::lu::lu_decomp"
LUC = "matrix::lu::lu_decomp_complex"
SOL = "matrix::linear::lin_solve"
SOLC = "matrix::linear::lin_solve_complex"
ERR = "error::LinearAlgebraError::"


def err_variant(n):
    """variant name if node constructs Err(Error::LinearAlgebra(LinearAlgebraError::X..))"""
    hits = tast.find(n, lambda z: (z.get("k") in ("Struct", "Path", "Call")) and (z.get("def") or "").startswith(ERR))
    for h in hits:
        return h["def"][len(ERR):].split("::")[0]
    return None


class Guard:
    """the innermost `if` that decides whether an error value is produced, with the branch the error sits in;
    cond_true(pred) asks whether the error is produced exactly when a condition satisfying pred holds
    (`if P { err }` or `if !P / negated comparison { .. } else { err }`)"""

    def __init__(self, node, in_then):
        self.node = node
        self.in_then = in_then
        self.cond = node["cond"]

    def compare(self):
        """(op, l, r) of the guarding comparison normalised to the polarity under which the error is produced"""
        c = self.cond
        neg = not self.in_then
        while c.get("k") == "Unary" and c.get("op") == "Not":
            c = c["e"]
            neg = not neg
        if c.get("k") != "Binary":
            return None
        op = c["op"]
        flip = {"Eq": "Ne", "Ne": "Eq", "Lt": "Ge", "Ge": "Lt", "Gt": "Le", "Le": "Gt"}
        if neg:
            if op not in flip:
                return None
            op = flip[op]
        return (op, c["l"], c["r"])


def guard_atoms(g):
    """('any' | 'all', [(op, l, r)]) : the error is produced iff any / all of the comparisons hold; None if the guard is not
    a boolean combination of comparisons of one kind"""
    FLIP = {"Eq": "Ne", "Ne": "Eq", "Lt": "Ge", "Ge": "Lt", "Gt": "Le", "Le": "Gt"}

    def norm(c, neg):
        while c.get("k") == "Unary" and c.get("op") == "Not":
            c = c["e"]
            neg = not neg
        if c.get("k") == "Binary" and c["op"] in ("And", "Or"):
            l, r = norm(c["l"], neg), norm(c["r"], neg)
            if l is None or r is None:
                return None
            mode = c["op"]
            if neg:
                mode = "Or" if mode == "And" else "And"
            want = "any" if mode == "Or" else "all"
            if (len(l[1]) > 1 and l[0] != want) or (len(r[1]) > 1 and r[0] != want):
                return None
            return (want, l[1] + r[1])
        if c.get("k") == "Binary" and c["op"] in FLIP:
            return ("any", [(FLIP[c["op"]] if neg else c["op"], c["l"], c["r"])])
        return None
    return norm(g.cond, not g.in_then)


def guarded_returns(body):
    """[(variant, Guard | None, node)] for every place a LinearAlgebraError value is produced: `return Err(..)` statements
    and `Err(..)` in tail position of a branch, in source order"""
    out = []
    seen = set()
    for n_, parents in tast.find_with_parents(body["body"], lambda z: z.get("k") in ("Struct", "Path", "Call") and (z.get("def") or "").startswith(ERR)):
        v = n_["def"][len(ERR):].split("::")[0]
        # outermost enclosing expression of this error value: up to the Return or to the branch block it is the tail of
        top = n_
        for a in reversed(parents):
            if a.get("k") in ("Call", "Struct", "Return", "Paren"):
                top = a
                if a.get("k") == "Return":
                    break
            else:
                break
        if id(top) in seen:
            continue
        seen.add(id(top))
        g = None
        for a in reversed(parents):
            if a.get("k") == "If":
                in_then = tast.contains(a["then"], lambda z: z is n_)
                in_else = a.get("else") is not None and tast.contains(a["else"], lambda z: z is n_)
                if in_then or in_else:
                    g = Guard(a, in_then)
                    break
        out.append((v, g, top))
    return out


def r_lu_errs(rep, f):
    for fn in (LU, LUC):
        if fn not in f.bodies:
            rep.inconc("R-LU-ERRS", "R-LU-ERRS:%s" % fn, "function not found")
            continue
        rep.fn(fn)
        b = f.body(fn)
        gr = guarded_returns(b)
        byv = {}
        for v, g, r in gr:
            byv.setdefault(v, []).append((g, r))
        short = fn.split("::")[-1]
        # NonSquareMatrix <= a comparison of nrows with ncols
        key = "R-LU-ERRS:%s:NonSquareMatrix" % short
        def any_ne(g, meth):
            ga = guard_atoms(g) if g is not None else None
            return ga is not None and (ga[0] == "any" or len(ga[1]) == 1) and all(a_[0] == "Ne" for a_ in ga[1]) \
                and any(tast.contains(x, lambda z: z.get("k") == "MethodCall" and z.get("name") == meth) for a_ in ga[1] for x in a_[1:])
        ok = any(any_ne(g, "ncols") for g, r in byv.get("NonSquareMatrix", []))
        (rep.ok(key.split(":")[0], key, "returned under n != ncols") if ok else
         rep.violation("R-LU-ERRS", key, "a non-square matrix is not rejected with NonSquareMatrix under a dimension test", b.get("sp")))
        key = "R-LU-ERRS:%s:PivotSizeMismatch" % short
        ok = any(any_ne(g, "len") for g, r in byv.get("PivotSizeMismatch", []))
        (rep.ok("R-LU-ERRS", key, "returned under ip.len() != n") if ok else
         rep.violation("R-LU-ERRS", key, "a pivot vector of the wrong length is not rejected with PivotSizeMismatch", b.get("sp")))
        key = "R-LU-ERRS:%s:SingularMatrix" % short
        sing = byv.get("SingularMatrix", [])
        def zero_test(g):
            ga = guard_atoms(g) if g is not None else None
            if ga is None:
                return False
            is0 = lambda y: y.get("k") == "Lit" and y.get("lk") in ("Float", "Int") and float(y["v"]) == 0.0
            if len(ga[1]) > 1 and ga[0] != "all":
                return False
            return all(op == "Eq" and (is0(l) or is0(r_)) for op, l, r_ in ga[1])
        okc = [g for g, r in sing if zero_test(g)]
        if len(okc) >= 3 and len(okc) == len(sing):
            rep.ok("R-LU-ERRS", key, "%d zero-pivot tests return SingularMatrix" % len(okc))
        else:
            rep.violation("R-LU-ERRS", key, "expected the 1x1, in-loop and final-diagonal zero-pivot tests to return SingularMatrix (found %d of %d returns under an `== 0.0` test)" % (len(okc), len(sing)), b.get("sp"))
        # the division by the pivot is dominated by the non-zero branch of the zero test
        sx = SymExec(f, fn, Hooks())
        sx.bind_params()
        divs = []
        orig = sx.binop

        def binop(op, l, r, e=None, _sx=sx, _divs=divs, _orig=orig):
            if op == "Div" and isinstance(r, Poly) and not r.is_const() and e is not None and e.get("ty") in ("f64", "f32"):
                _divs.append((r, _sx.path_facts(), e))
            return _orig(op, l, r, e)
        sx.binop = binop
        sx.eval(b["body"])
        key = "R-LU-ERRS:%s:pivot-division" % short
        bad = []
        n_div = 0
        for den, fs, e in divs:
            n_div += 1
            if not nonzero_by_facts(den, fs):
                bad.append((den, e))
        if n_div == 0:
            rep.inconc("R-LU-ERRS", key, "no division found")
        elif bad:
            rep.violation("R-LU-ERRS", key, "a division by %r is not dominated by a test that it is non-zero (singularity test after the division?)" % (bad[0][0],), bad[0][1].get("sp"))
        else:
            rep.ok("R-LU-ERRS", key, "%d division(s), each dominated by the non-zero edge of the singularity test" % n_div)


def nonzero_by_facts(den, fs):
    """den != 0 follows from a fact `X == 0` false where X is den, or |a|+|b| with den = a^2 + b^2"""
    for cond, truth in fs:
        at = cond.single_atom() if isinstance(cond, Poly) else None
        if not at or at not in DEFS:
            continue
        op, xs = DEFS[at]
        if not ((op == "eq" and not truth) or (op == "ne" and truth)) or len(xs) != 2:
            continue
        l, r = xs
        x = l if (isinstance(r, Poly) and r.is_zero()) else (r if isinstance(l, Poly) and l.is_zero() else None)
        if x is None:
            continue
        if x == den:
            return True
        # |a| + |b| != 0  =>  a^2 + b^2 != 0
        if len(x.t) == 2 and all(c == 1 and len(m) == 1 and m[0][1] == 1 and m[0][0].startswith("abs[") for m, c in x.t.items()):
            inner = [DEFS[m[0][0]][1][0] for m in x.t]
            if den == inner[0] * inner[0] + inner[1] * inner[1]:
                return True
    return False


def r_cplx_modulus(rep, f):
    """every |re| + |im| magnitude in the complex factorisation / solve pairs the real and the imaginary matrix at one and
    the same entry (a pivot magnitude built from the same part twice declares a purely imaginary pivot singular)"""
    n = 0
    for fn, b in [(fn0, b0) for fn0 in (LUC, SOLC) if fn0 in f.bodies for b0 in scope_bodies(f, fn0)]:
        mats = [p_["id"] for p_ in b.get("params", []) if p_.get("k") == "PBind" and "Matrix" in (p_.get("ty") or "")]
        for add in tast.find(b["body"], lambda z: z.get("k") == "Binary" and z["op"] == "Add"):
            ops = []
            for side in (add["l"], add["r"]):
                if side.get("k") == "MethodCall" and side.get("name") == "abs" and side["recv"].get("k") == "Index" and side["recv"]["e"].get("k") == "Path" and side["recv"]["e"].get("id") in mats:
                    ops.append(side["recv"])
            if len(ops) != 2:
                continue
            n += 1
            key = "R-CPLX-MODULUS:%s:%d" % (fn.split("::")[-1], n)
            same_mat = ops[0]["e"]["id"] == ops[1]["e"]["id"]
            same_idx = tast.render(ops[0]["i"]) == tast.render(ops[1]["i"])
            if same_mat or not same_idx:
                rep.violation("R-CPLX-MODULUS", key, "`%s` is not |re| + |im| of one entry (%s)" % (tast.render(add)[:90], "the same part is taken twice" if same_mat else "the two parts are taken at different entries"), add.get("sp"))
            else:
                rep.ok("R-CPLX-MODULUS", key, "|%s| + |%s| at %s" % (ops[0]["e"].get("name"), ops[1]["e"].get("name"), tast.render(ops[0]["i"])))
    if n < 3:
        rep.inconc("R-CPLX-MODULUS", "R-CPLX-MODULUS:floor", "only %d |re| + |im| magnitudes found in the complex factorisation (expected >= 3)" % n)


def _zero_env(c, truth):
    """names (locals / rendered element reads) that are exactly 0 when condition c has the value `truth`"""
    k = c.get("k")
    if k in ("DropTemps", "Paren"):
        return _zero_env(c["e"], truth)
    if k == "Unary" and c.get("op") == "Not":
        return _zero_env(c["e"], not truth)
    if k == "Binary" and c["op"] in ("And", "Or"):
        if (c["op"] == "And") == truth:
            d = dict(_zero_env(c["l"], truth))
            d.update(_zero_env(c["r"], truth))
            return d
        return {}
    if k == "Binary" and c["op"] in ("Eq", "Ne") and (c["op"] == "Eq") == truth:
        l, r = c["l"], c["r"]
        if l.get("k") == "Lit":
            l, r = r, l
        if not (r.get("k") == "Lit" and r.get("lk") in ("Float", "Int") and float(str(r["v"]).replace("_", "")) == 0.0):
            return {}
        out = {}

        def parts(e):
            # v   |   v.abs()   |   a.abs() + b.abs()
            if e.get("k") == "Binary" and e["op"] == "Add":
                return parts(e["l"]) and parts(e["r"])
            if e.get("k") == "MethodCall" and e.get("name") == "abs" and not e.get("args"):
                e = e["recv"]
            elif e.get("k") == "Binary":
                return False
            if e.get("k") in ("Path", "Index"):
                out[e.get("name") if e.get("k") == "Path" else tast.render(e)] = Poly()
                return True
            return False
        whole_is_sum = l.get("k") == "Binary" and l["op"] == "Add"
        if whole_is_sum:
            # a sum is zero with every term zero only when the terms are magnitudes
            if not all(t_.get("k") == "MethodCall" and t_.get("name") == "abs" for t_ in (l["l"], l["r"])):
                return {}
        return out if parts(l) else {}
    return {}


def _zero_alts(c, truth):
    """alternative zero substitutions (one per way the condition can have the value `truth`)"""
    k = c.get("k")
    if k in ("DropTemps", "Paren"):
        return _zero_alts(c["e"], truth)
    if k == "Unary" and c.get("op") == "Not":
        return _zero_alts(c["e"], not truth)
    if k == "Binary" and c["op"] in ("And", "Or") and (c["op"] == "And") != truth:
        # A || B true, or A && B false: either side alone suffices
        return [d for d in _zero_alts(c["l"], truth) + _zero_alts(c["r"], truth) if d]
    d = _zero_env(c, truth)
    return [d] if d else []


def r_zero_skip(rep, f):
    """work skipped because a multiplier is zero is really a no-op: for every `if <zero test> { continue }` and every
    `if <non-zero test> { updates }` in the factorisations and solves, the skipped updates are evaluated with the tested
    quantities set to 0 and must all vanish. A complex multiplier is zero only when BOTH parts are: skipping on one part
    drops the contribution of the other."""
    n = 0
    for top in (LU, LUC, SOL, SOLC):
        if top not in f.bodies:
            continue
        for b in scope_bodies(f, top):
            fn = b["def"]
            short = fn.split("::")[-1]

            def check_region(stmts, env, why, at):
                """-> first non-vanishing update (node, text) or None"""
                env = dict(env)
                for st in stmts:
                    e = st
                    while e is not None and e.get("k") in ("ExprStmt", "Semi", "DropTemps"):
                        e = e.get("e")
                    if e is None:
                        continue
                    k = e.get("k")
                    if k == "Let" and e["pat"].get("k") == "PBind" and e.get("init") is not None:
                        v = _mini(e["init"], env)
                        env[e["pat"]["name"]] = v if v is not None else Poly.atom(e["pat"]["name"] + "'")
                    elif k == "AssignOp" and e.get("op", "").startswith(("Add", "Sub")):
                        v = _mini(e["r"], env)
                        if v is not None and not v.is_zero():
                            return e, "`%s` adds %r" % (tast.render(e)[:60], v)
                    elif k == "Assign":
                        v = _mini(e["r"], env)
                        lhs = _mini(e["l"], env) if e["l"].get("k") in ("Path", "Index") else None
                        if v is not None and lhs is not None and v != lhs:
                            return e, "`%s` stores %r" % (tast.render(e)[:60], v)
                    elif k in ("For", "While", "Loop"):
                        body_ = e.get("body")
                        r_ = check_region(body_.get("stmts", []) + ([body_["tail"]] if body_.get("tail") is not None else []), env, why, at) if body_ else None
                        if r_:
                            return r_
                    elif k == "If":
                        ze_t, ze_f = _zero_env(e["cond"], True), _zero_env(e["cond"], False)
                        # branch selection under the current substitution
                        known_true = bool(ze_t) and all(nm in env and isinstance(env[nm], Poly) and env[nm].is_zero() for nm in ze_t)
                        known_false = bool(ze_f) and all(nm in env and isinstance(env[nm], Poly) and env[nm].is_zero() for nm in ze_f)
                        branches = []
                        if not known_false or known_true:
                            branches.append(e["then"])
                        if e.get("else") is not None and not known_true:
                            branches.append(e["else"])
                        if known_false and not known_true:
                            branches = [e["else"]] if e.get("else") is not None else []
                        for br in branches:
                            if br.get("k") == "Block":
                                r_ = check_region(br.get("stmts", []) + ([br["tail"]] if br.get("tail") is not None else []), env, why, at)
                            else:
                                r_ = check_region([br], env, why, at)
                            if r_:
                                return r_
                    elif k == "Block":
                        r_ = check_region(e.get("stmts", []) + ([e["tail"]] if e.get("tail") is not None else []), env, why, at)
                        if r_:
                            return r_
                return None

            for blk in tast.find(b["body"], lambda z: z.get("k") == "Block"):
                sts = blk.get("stmts", []) + ([blk["tail"]] if blk.get("tail") is not None else [])
                for j, st in enumerate(sts):
                    e = st
                    while e is not None and e.get("k") in ("ExprStmt", "Semi", "DropTemps"):
                        e = e.get("e")
                    if e is None or e.get("k") != "If":
                        continue
                    then = e["then"]
                    t_stmts = then.get("stmts", []) + ([then["tail"]] if then.get("tail") is not None else []) if then.get("k") == "Block" else [then]
                    inner = [q for q in t_stmts]
                    only_continue = len(inner) == 1 and tast.contains(inner[0], lambda z: z.get("k") == "Continue") and not tast.contains(inner[0], lambda z: z.get("k") in ("Assign", "AssignOp", "Call", "MethodCall"))
                    region, alts = None, []
                    if only_continue:
                        alts = _zero_alts(e["cond"], True)
                        region = sts[j + 1:]
                    elif e.get("else") is None:
                        alts = _zero_alts(e["cond"], False)
                        region = t_stmts
                    if not alts or not region:
                        continue
                    n += 1
                    key = "R-ZERO-SKIP:%s:%d" % (short, n)
                    r_, env = None, alts[0]
                    for env in alts:
                        r_ = check_region(region, env, None, e)
                        if r_:
                            break
                    if r_:
                        rep.violation("R-ZERO-SKIP", "R-ZERO-SKIP:%s:%s" % (short, "+".join(sorted(env))), "with %s == 0 (the test `%s`) the skipped code is not a no-op: %s" % (", ".join(sorted(env)), tast.render(e["cond"])[:60], r_[1][:200]), e.get("sp"))
                    else:
                        rep.ok("R-ZERO-SKIP", key, "skipped updates vanish when %s == 0" % ", ".join(sorted(env)))
    if n < 2:
        rep.inconc("R-ZERO-SKIP", "R-ZERO-SKIP:floor", "only %d zero-multiplier shortcut(s) found in the factorisations (expected >= 2)" % n)


def r_lu_siblings(rep, f):
    if LU not in f.bodies or LUC not in f.bodies:
        return
    a = [(v, g is not None) for v, g, r in guarded_returns(f.body(LU))]
    b = [(v, g is not None) for v, g, r in guarded_returns(f.body(LUC))]
    key = "R-LU-SIBLINGS"
    if [x[0] for x in a] == [x[0] for x in b]:
        rep.ok(key, key + ":errors", "real and complex factorisation issue the same sequence of checks: %s" % [x[0] for x in a])
    else:
        rep.violation(key, key + ":errors", "lu_decomp checks %s but lu_decomp_complex checks %s" % ([x[0] for x in a], [x[0] for x in b]), f.body(LUC).get("sp"))


def scope_bodies(f, fn, depth=2):
    """the function's body and the bodies of the crate-local helpers it calls (a search extracted into a private helper
    is still part of the factorisation)"""
    out, seen, todo = [], set(), [(fn, 0)]
    while todo:
        d, lvl = todo.pop()
        if d in seen or d not in f.bodies:
            continue
        seen.add(d)
        out.append(f.bodies[d])
        if lvl < depth:
            for c in tast.find(f.bodies[d]["body"], lambda z: z.get("k") in ("Call", "MethodCall") and (z.get("def") or "").startswith("matrix::")
                               and not (z.get("def") or "").startswith("matrix::base::") and not (z.get("def") or "").startswith("matrix::index::")):
                todo.append((c["def"], lvl + 1))
    return out


def r_pivot_argmax(rep, f):
    for fn in (LU, LUC):
        if fn not in f.bodies:
            continue
        short = fn.split("::")[-1]
        key = "R-PIVOT-ARGMAX:%s" % short
        # the search loop: a For whose body is an If(val > acc) { acc = val; m = i }
        found = []
        for lp in [l_ for b_ in scope_bodies(f, fn) for l_ in tast.find(b_["body"], lambda z: z.get("k") == "For")]:
            inner_fors = tast.find(lp["body"], lambda z: z.get("k") == "For")
            ifs = [x for x in tast.find(lp["body"], lambda z: z.get("k") == "If" and z["cond"].get("k") == "Binary" and z["cond"]["op"] in ("Gt", "Ge", "Lt", "Le")
                                        and z["cond"]["l"].get("k") == "Path" and z["cond"]["r"].get("k") == "Path")
                   if not any(tast.contains(q, lambda z: z is x) for q in inner_fors)]
            for i_ in ifs:
                asg = tast.find(i_["then"], lambda z: z.get("k") == "Assign" and z["l"].get("k") == "Path")
                if len(asg) == 2:
                    found.append((lp, i_, asg))
        if len(found) != 1:
            rep.inconc("R-PIVOT-ARGMAX", key, "pivot search idiom not found (%d candidates)" % len(found))
            continue
        lp, i_, asg = found[0]
        c = i_["cond"]
        val_id, acc_id = c["l"]["id"], c["r"]["id"]
        probs = []
        if c["op"] not in ("Gt", "Ge"):
            probs.append("the accumulator is replaced when the candidate is `%s` it: the search keeps the SMALLEST element, multipliers can exceed 1" % {"Lt": "<", "Le": "<="}[c["op"]])
        # then-branch: acc = val; m = loop var
        a_acc = [a for a in asg if a["l"].get("id") == acc_id]
        a_idx = [a for a in asg if a["l"].get("id") != acc_id]
        if not a_acc or not (a_acc[0]["r"].get("k") == "Path" and a_acc[0]["r"].get("id") == val_id):
            probs.append("the running maximum is not updated with the candidate")
        if not a_idx or not (a_idx[0]["r"].get("k") == "Path" and a_idx[0]["r"].get("id") == lp["pat"].get("id")):
            probs.append("the pivot row is not recorded together with the maximum")
        # candidate = |a[(i,k)]| (complex: |re| + |im|)
        lets = tast.find(lp["body"], lambda z: z.get("k") == "Let" and z["pat"].get("id") == val_id)
        if not lets or not tast.contains(lets[0]["init"], lambda z: z.get("k") == "MethodCall" and z.get("name") == "abs"):
            probs.append("the candidate is not a magnitude")
        elif not tast.contains(lets[0]["init"], lambda z: z.get("k") == "Path" and z.get("id") == lp["pat"].get("id")):
            probs.append("the candidate does not depend on the row index")
        if fn == LUC and lets and len(tast.find(lets[0]["init"], lambda z: z.get("k") == "MethodCall" and z.get("name") == "abs")) < 2:
            probs.append("the complex candidate is not |re| + |im|")
        # the running maximum starts from the diagonal entry measured the SAME way as the candidates (same matrices under
        # abs): an initial value that ignores a part lets a smaller sub-diagonal entry win the pivot
        if lets:
            under_abs = lambda e: sorted(q["recv"]["e"].get("id") for q in tast.find(e, lambda z: z.get("k") == "MethodCall" and z.get("name") == "abs" and z["recv"].get("k") == "Index" and z["recv"]["e"].get("k") == "Path"))
            owner = next((b_ for b_ in scope_bodies(f, fn) if tast.contains(b_["body"], lambda z: z is lp)), None)
            inits = [l_ for l_ in tast.find(owner["body"], lambda z: z.get("k") == "Let" and z["pat"].get("k") == "PBind" and z["pat"].get("id") == acc_id and z.get("init") is not None)] if owner else []
            if len(inits) == 1 and tast.contains(inits[0]["init"], lambda z: z.get("k") == "MethodCall" and z.get("name") == "abs"):
                if under_abs(inits[0]["init"]) != under_abs(lets[0]["init"]):
                    probs.append("the running maximum starts from `%s` but the candidates are measured as `%s`: the diagonal entry is under-estimated and a smaller entry can take the pivot"
                                 % (tast.render(inits[0]["init"])[:50], tast.render(lets[0]["init"])[:50]))
        if probs:
            rep.violation("R-PIVOT-ARGMAX", key, "; ".join(probs), i_.get("sp"))
        else:
            rep.ok("R-PIVOT-ARGMAX", key, "argmax idiom: acc, row updated under `%s`" % tast.render(c))


def r_mult_sign(rep, f):
    """decomposition stores NEGATIVE multipliers, the solve ADDS them; back substitution subtracts after dividing by the diagonal"""
    key = "R-MULT-SIGN"
    if LU not in f.bodies or SOL not in f.bodies:
        rep.inconc(key, key + ":anchor", "lu_decomp / lin_solve not found")
        return
    # stored multiplier sign in lu_decomp: a[(i,k)] = c * a[(i,k)] * (1/pivot)
    sx = SymExec(f, LU, Hooks())
    sx.bind_params()
    sx.eval(f.body(LU)["body"])
    store_sign = None
    for ev in sx.trace:
        if ev["kind"] == "assign" and ev["node"]["k"] == "Assign" and ev["node"]["l"].get("k") == "Index" and isinstance(ev["value"], Poly):
            v = ev["value"]
            if len(v.t) == 1:
                (m, c), = v.t.items()
                if any(e == -1 for a, e in m) and any(a.startswith("idx[") and e == 1 for a, e in m):
                    store_sign = (1 if c > 0 else -1, ev["node"])
    # use signs in lin_solve
    uses = []
    sol_body = f.body(SOL)["body"]

    def coef_sign(e, depth=0):
        """sign with which a product expression enters (negations anywhere in the product, also through single-assignment
        `let` temporaries); None for anything that is not a pure product"""
        if e is None or depth > 12:
            return None
        k = e.get("k")
        if k == "Unary" and e["op"] == "Neg":
            s_ = coef_sign(e["e"], depth + 1)
            return None if s_ is None else -s_
        if k in ("Unary", "Cast", "AddrOf"):
            return coef_sign(e["e"], depth + 1)
        if k == "Binary" and e["op"] in ("Mul", "Div"):
            l, r_ = coef_sign(e["l"], depth + 1), coef_sign(e["r"], depth + 1)
            return None if l is None or r_ is None else l * r_
        if k == "Binary":
            return None
        if k == "Path" and e.get("res") == "local":
            lets = tast.find(sol_body, lambda z: z.get("k") == "Let" and z["pat"].get("id") == e.get("id") and z.get("init") is not None)
            asg = tast.find(sol_body, lambda z: z.get("k") in ("Assign", "AssignOp") and z["l"].get("k") == "Path" and z["l"].get("id") == e.get("id"))
            if len(lets) == 1 and not asg:
                return coef_sign(lets[0]["init"], depth + 1)
            return 1
        if k == "Lit":
            try:
                return -1 if float(e.get("v")) < 0 else 1
            except Exception:
                return 1
        return 1

    def mentions_matrix(e, depth=0):
        if tast.contains(e, lambda z: z.get("k") == "Index" and "Matrix" in (z.get("base_ty") or z["e"].get("ty") or "")):
            return True
        for p_ in tast.find(e, lambda z: z.get("k") == "Path" and z.get("res") == "local"):
            lets = tast.find(sol_body, lambda z: z.get("k") == "Let" and z["pat"].get("id") == p_.get("id") and z.get("init") is not None)
            if depth < 4 and len(lets) == 1 and mentions_matrix(lets[0]["init"], depth + 1):
                return True
        return False
    for n in tast.find(sol_body, lambda z: z.get("k") == "AssignOp" and z["l"].get("k") == "Index"):
        r = n["r"]
        if n["op"].startswith("Add") or n["op"].startswith("Sub"):
            sgn = 1 if n["op"].startswith("Add") else -1
            if mentions_matrix(r):
                cs = coef_sign(r)
                if cs is None:
                    rep.inconc(key, key + ":extract", "substitution update `%s` is not a pure product" % tast.render(n)[:80])
                    return
                uses.append((sgn * cs, n))
    if store_sign is None or len(uses) != 2:
        rep.inconc(key, key + ":extract", "could not extract the multiplier store (%s) / the two substitution updates (%d)" % (store_sign is not None, len(uses)))
        return
    fwd, back = uses[0][0], uses[1][0]
    if store_sign[0] * fwd == -1:
        rep.ok(key, key + ":forward", "stored multiplier sign %+d, forward substitution adds with sign %+d: b[i] - (a_ik/pivot) b[k]" % (store_sign[0], fwd))
    else:
        rep.violation(key, key + ":forward", "lu_decomp stores multipliers with sign %+d and lin_solve applies them with sign %+d: the elimination is applied with the wrong sign"
                      % (store_sign[0], fwd), store_sign[1].get("sp"))
    if back == -1:
        rep.ok(key, key + ":backward", "back substitution subtracts a_ik * x_k")
    else:
        rep.violation(key, key + ":backward", "back substitution adds a_ik * x_k instead of subtracting it", uses[1][1].get("sp"))
    # complex sibling: stores -prod_r / -prod_i
    if LUC in f.bodies:
        neg_stores = tast.find(f.body(LUC)["body"], lambda z: z.get("k") == "Assign" and z["l"].get("k") == "Index" and z["r"].get("k") == "Unary" and z["r"]["op"] == "Neg"
                               and z["r"]["e"].get("k") == "Path" and (z["r"]["e"].get("name") or "").startswith("prod"))
        if len(neg_stores) == 2:
            rep.ok(key, key + ":complex", "complex factorisation stores -prod_r, -prod_i")
        else:
            rep.violation(key, key + ":complex", "the complex factorisation does not store both negated multiplier parts (%d found)" % len(neg_stores), f.body(LUC).get("sp"))


def r_solve_readonly(rep, f):
    for fn in (SOL, SOLC):
        it = f.fns.get(fn)
        key = "R-SOLVE-READONLY:%s" % fn.split("::")[-1]
        if it is None:
            rep.inconc("R-SOLVE-READONLY", key, "function not found")
            continue
        ins = it["inputs"]
        probs = []
        mats = [t for t in ins if "Matrix" in t]
        if not mats or any(t.startswith("&mut") for t in mats):
            probs.append("a factor matrix is taken by &mut")
        piv = [t for t in ins if "usize" in t]
        if not piv or any(t.startswith("&mut") for t in piv):
            probs.append("the pivot vector is taken by &mut")
        adt = f.adts.get("matrix::base::Matrix")
        if adt is None or adt.get("freeze") is not True:
            probs.append("Matrix is not Freeze (interior mutability)")
        if tast.contains(f.body(fn)["body"], lambda z: z.get("k") == "Block" and z.get("unsafe")):
            probs.append("unsafe block in the solve")
        if probs:
            rep.violation("R-SOLVE-READONLY", key, "; ".join(probs), f.body(fn).get("sp"))
        else:
            rep.ok("R-SOLVE-READONLY", key, "factors and pivots are shared references to a Freeze type, no unsafe: only the right-hand side can change")


# ------------------------------------------------------------------------------------------ callers (C14)
def lu_call_sites(f):
    out = []
    for fn in ("methods::radau::RADAU::solve", "methods::bdf::BDF::solve"):
        b = f.bodies.get(fn)
        if b is None:
            continue
        for c, parents in tast.find_with_parents(b["body"], lambda z: z.get("k") == "Call" and z.get("def") in (LU, LUC)):
            out.append((fn, b, c, parents))
    return out


def diverges_block(b):
    """the block always leaves by break/continue/return"""
    if b is None:
        return False
    if b.get("k") in ("Break", "Continue", "Return"):
        return True
    if b.get("k") == "Block":
        last = b["stmts"][-1]["e"] if b["stmts"] and b["stmts"][-1].get("k") == "ExprStmt" else None
        if b.get("tail") is not None:
            last = b["tail"]
        if last is None:
            return False
        return diverges_block(last)
    if b.get("k") == "If":
        return diverges_block(b["then"]) and b.get("else") is not None and diverges_block(b["else"])
    return False


def r_lu_checked(rep, f):
    sites = lu_call_sites(f)
    if len(sites) < 3:
        rep.inconc("R-LU-CHECKED", "R-LU-CHECKED:floor", "only %d factorisation call sites in the implicit solvers (expected 3)" % len(sites))
    for j, (fn, b, c, parents) in enumerate(sites):
        key = "R-LU-CHECKED:%s:%s#%d" % (fn, c["def"].split("::")[-1], j)
        par = parents[-1]
        ok = False
        why = ""
        if par.get("k") == "MethodCall" and par.get("name") in ("is_err", "is_ok") and par["recv"] is c:
            i_ = next((p for p in parents[::-1] if p.get("k") == "If" and tast.contains(p["cond"], lambda z: z is c)), None)
            if i_ is not None:
                errb = i_["then"] if par["name"] == "is_err" else i_.get("else")
                ok = diverges_block(errb)
                why = "`if lu.is_err() { .. }` leaves the iteration"
        elif par.get("k") == "Match" and par["scrut"] is c:
            erra = [a for a in par["arms"] if (a["pat"].get("def") or a["pat"].get("ctor_of") or "").endswith("Err")]
            ok = bool(erra) and diverges_block(erra[0]["body"])
            why = "the Err arm leaves the iteration"
        if not ok:
            # the outcome may reach the test through `||` / `&&`, negations, blocks and named booleans
            # (`let failed = { n += 1; lu(..).is_err() } || { n += 1; luc(..).is_err() }; if failed { ..; continue }`):
            # the test is evaluated in three-valued logic with THIS factorisation failed and everything else unknown
            body_ = b["body"]

            def tv(e, depth=0):
                if e is None or depth > 12:
                    return None
                k_ = e.get("k")
                if k_ in ("DropTemps", "Paren"):
                    return tv(e["e"], depth + 1)
                if k_ == "Block":
                    return tv(e.get("tail") if e.get("tail") is not None else e.get("expr"), depth + 1)
                if k_ == "MethodCall" and e.get("name") in ("is_err", "is_ok") and not e["args"]:
                    r_ = e["recv"]
                    while r_.get("k") in ("DropTemps", "Paren"):
                        r_ = r_["e"]
                    if r_ is c:
                        return e["name"] == "is_err"
                    return None
                if k_ == "Unary" and e.get("op") == "Not":
                    v_ = tv(e["e"], depth + 1)
                    return None if v_ is None else not v_
                if k_ == "Binary" and e["op"] in ("Or", "And"):
                    l_, r_ = tv(e["l"], depth + 1), tv(e["r"], depth + 1)
                    if e["op"] == "Or":
                        return True if (l_ is True or r_ is True) else (False if (l_ is False and r_ is False) else None)
                    return False if (l_ is False or r_ is False) else (True if (l_ is True and r_ is True) else None)
                if k_ == "Path" and e.get("res") == "local" and e.get("ty") == "bool":
                    lets_ = tast.find(body_, lambda z: z.get("k") == "Let" and z["pat"].get("k") == "PBind" and z["pat"].get("id") == e.get("id") and z.get("init") is not None)
                    asg_ = tast.find(body_, lambda z: z.get("k") in ("Assign", "AssignOp") and z["l"].get("k") == "Path" and z["l"].get("id") == e.get("id"))
                    if len(lets_) == 1 and not asg_:
                        return tv(lets_[0]["init"], depth + 1)
                return None
            for i_ in tast.find(body_, lambda z: z.get("k") == "If" and z["cond"].get("k") != "LetExpr"):
                v_ = tv(i_["cond"])
                if v_ is None:
                    continue
                errb = i_["then"] if v_ else i_.get("else")
                if diverges_block(errb):
                    ok = True
                    why = "the failure of this factorisation makes `%s` %s, and that branch leaves the iteration" % (tast.render(i_["cond"])[:40], "true" if v_ else "false")
                    break
        if ok:
            rep.ok("R-LU-CHECKED", key, why)
        else:
            rep.violation("R-LU-CHECKED", key, "the result of the factorisation is not inspected, or the failure path continues to the linear solves with unusable factors", c.get("sp"))


class FreshMon(mon.Monitor):
    """Radau: (factors fresh for the current h, call_decomp flag T/F/None)"""
    init = ((False, True),)

    def __init__(self, fn, hid, cd_id, decomp_if):
        super().__init__()
        self.fn, self.hid, self.cd_id, self.decomp_if = fn, hid, cd_id, decomp_if

    def describe(self, ev):
        n = ev[1]
        return "%s @%s" % (tast.render(n)[:40] if n.get("k") in ("Assign", "AssignOp") else n.get("k"), n.get("sp"))

    def step(self, st, ev):
        kind, n = ev[0], ev[1]
        fresh, cd = st
        if kind in ("then", "else") and n.get("k") == "If":
            c = n["cond"]
            if c.get("k") == "Path" and c.get("id") == self.cd_id:
                want = kind == "then"
                if cd is not None and cd != want:
                    return ()
                return ((fresh, want),)
        if kind == "node":
            k = n.get("k")
            if k in ("Assign", "AssignOp") and n["l"].get("k") == "Path":
                if n["l"].get("id") == self.hid:
                    return ((False, cd),)
                if n["l"].get("id") == self.cd_id:
                    r = n["r"]
                    v = (r.get("v") is True) if r.get("k") == "Lit" and r.get("lk") == "Bool" else None
                    return ((fresh, v),)
            if n is self.decomp_if:
                # leaving the `if call_decomp { .. }` statement normally: if it was entered both factorisations succeeded
                if cd is True:
                    return ((True, cd),)
            if k == "Call" and n.get("def") in (SOL, SOLC):
                if not fresh:
                    self.violate("R-LU-FRESH:%s:stale-solve" % self.fn,
                                 "a linear solve is reachable with factors that were not rebuilt after the step size changed; path: %s" % " -> ".join(self.cur_trail[-5:]), n, self.cur_trail)
                    return ((True, cd),)
        return (st,)


def r_lu_fresh(rep, f):
    fn = "methods::radau::RADAU::solve"
    b = f.bodies.get(fn)
    key = "R-LU-FRESH:%s" % fn
    if b is None:
        rep.inconc("R-LU-FRESH", key, "RADAU::solve not found")
        return
    main = main_loop_of(b)
    # the `if flag { .. lu_decomp .. }` statement and the step variable read inside it (U1 / h)
    dif = [i_ for i_ in tast.find(main, lambda z: z.get("k") == "If" and z["cond"].get("k") == "Path" and z["cond"].get("ty") == "bool"
                                  and tast.contains(z["then"], lambda q: q.get("k") == "Call" and q.get("def") == LU))]
    if len(dif) != 1:
        rep.inconc("R-LU-FRESH", key, "the guarded factorisation block was not found")
        return
    dif = dif[0]
    cd_id = dif["cond"]["id"]
    hs = set()
    for l in tast.find(dif["then"], lambda z: z.get("k") == "Let" and z.get("init") is not None and z["init"].get("k") == "Binary" and z["init"]["op"] == "Div"
                       and z["init"]["r"].get("k") == "Path" and z["init"]["r"].get("res") == "local"):
        hs.add(l["init"]["r"]["id"])
    if len(hs) != 1:
        rep.inconc("R-LU-FRESH", key, "cannot identify the step variable the factors are built from")
        return
    m = FreshMon(fn, hs.pop(), cd_id, dif)
    mon.Runner(m).run_fn(b)
    for k2, msg, node, trail in m.violations:
        rep.violation("R-LU-FRESH", k2, msg, node.get("sp") if isinstance(node, dict) else None)
    n_solves = len(tast.find(main, lambda z: z.get("k") == "Call" and z.get("def") in (SOL, SOLC)))
    if not m.violations:
        rep.ok("R-LU-FRESH", key, "%d linear-solve sites, each reachable only with factors built for the current step size" % n_solves, nontrivial=n_solves > 0)


def r_jac_refresh(rep, f):
    """BDF: every in-loop Jacobian evaluation invalidates the factorisation before the next linear solve"""
    fn = "methods::bdf::BDF::solve"
    b = f.bodies.get(fn)
    key = "R-JAC-REFRESH:%s" % fn
    if b is None:
        rep.inconc("R-JAC-REFRESH", key, "BDF::solve not found")
        return
    main = main_loop_of(b)
    flag = [l["pat"]["id"] for l in tast.find(b["body"], lambda z: z.get("k") == "Let" and z["pat"].get("k") == "PBind" and z["pat"].get("ty") == "bool"
                                               and z["pat"].get("name", "").startswith("lu"))]
    rebuild = [i_ for i_ in tast.find(main, lambda z: z.get("k") == "If" and tast.contains(z["then"], lambda q: q.get("k") == "Call" and q.get("def") == LU))]
    if len(rebuild) != 1:
        rep.inconc("R-JAC-REFRESH", key, "the LU rebuild block was not found")
        return
    flag_ids = {p["id"] for p in tast.find(rebuild[0]["cond"], lambda z: z.get("k") == "Path" and z.get("ty") == "bool")}
    if len(flag_ids) != 1:
        rep.inconc("R-JAC-REFRESH", key, "the rebuild condition does not test a single boolean flag")
        return
    fid = flag_ids.pop()

    rb = rebuild[0]

    class M(mon.Monitor):
        init = ((False, None),)     # (jacobian newer than the factors, value of the `factors are current` flag)

        def step(s, st, ev):
            kind, n = ev[0], ev[1]
            newer, flag = st
            if kind == "else" and n is rb and flag is False:
                return ()      # `!flag || ..` is true: the rebuild branch is taken
            if kind == "node":
                if n.get("k") == "Let" and n["pat"].get("id") == fid and (n.get("init") or {}).get("k") == "Lit":
                    return ((newer, n["init"].get("v") is True),)
                if n.get("k") == "MethodCall" and n.get("def") == "ivp::IVP::jac":
                    return ((True, flag),)
                if n.get("k") == "Assign" and n["l"].get("k") == "Path" and n["l"].get("id") == fid:
                    v = n["r"].get("v") if n["r"].get("k") == "Lit" else None
                    return ((newer, v if isinstance(v, bool) else None),)
                if n.get("k") == "Call" and n.get("def") == LU:
                    return ((False, flag),)
                if n.get("k") == "Call" and n.get("def") == SOL and newer:
                    s.violate("R-JAC-REFRESH:%s:stale" % fn, "a linear solve is reachable with factors older than the Jacobian: after IVP::jac the `factors are current` flag "
                              "can still be true, so the rebuild is skipped; path: %s" % " -> ".join(s.cur_trail[-5:]), n, s.cur_trail)
                    return ((False, flag),)
            return (st,)

        def describe(s, ev):
            n = ev[1]
            return "%s @%s" % ((n.get("def") or n.get("k") or "").split("::")[-1], n.get("sp"))
    m = M()
    # the pre-loop Jacobian precedes the first (forced) factorisation: start inside the loop with the flag as initialised
    mon.Runner(m).run_fn(b)
    for k2, msg, node, trail in m.violations:
        rep.violation("R-JAC-REFRESH", k2, msg, node.get("sp") if isinstance(node, dict) else None)
    if not m.violations:
        rep.ok("R-JAC-REFRESH", key, "every IVP::jac call is followed by `flag = false` (or a rebuild) before the next lin_solve")


def r_bdf_matrix(rep, f):
    """BDF corrector matrix is I - c*J with c = h/alpha[order]"""
    fn = "methods::bdf::BDF::solve"
    b = f.bodies.get(fn)
    key = "R-BDF-MATRIX:%s" % fn
    if b is None:
        return
    main = main_loop_of(b)
    rebuild = [i_ for i_ in tast.find(main, lambda z: z.get("k") == "If" and tast.contains(z["then"], lambda q: q.get("k") == "Call" and q.get("def") == LU))]
    if len(rebuild) != 1:
        rep.inconc("R-BDF-MATRIX", key, "rebuild block not found")
        return
    blk = rebuild[0]["then"]
    a1 = tast.find(blk, lambda z: z.get("k") == "Assign" and z["l"].get("k") == "Index" and "Matrix" in (z["l"]["e"].get("ty") or ""))
    a2 = tast.find(blk, lambda z: z.get("k") == "AssignOp" and z["l"].get("k") == "Index" and "Matrix" in (z["l"]["e"].get("ty") or ""))
    probs = []
    if len(a1) != 1 or not (a1[0]["r"].get("k") == "Binary" and a1[0]["r"]["op"] == "Mul" and tast.contains(a1[0]["r"], lambda z: z.get("k") == "Unary" and z["op"] == "Neg")
                            and tast.contains(a1[0]["r"], lambda z: z.get("k") == "Index" and "Matrix" in (z["e"].get("ty") or ""))):
        probs.append("off-diagonal part is not -c * J[(r, c)]")
    if len(a2) != 1 or not (a2[0]["op"].startswith("Add") and a2[0]["r"].get("k") == "Lit" and float(a2[0]["r"]["v"]) == 1.0
                            and a2[0]["l"]["i"].get("k") == "Tuple" and tast.render(a2[0]["l"]["i"]["elems"][0]) == tast.render(a2[0]["l"]["i"]["elems"][1])):
        probs.append("the identity is not added on the diagonal")
    # c = h_signed / alpha[order]
    cl = tast.find(main, lambda z: z.get("k") == "Let" and z["pat"].get("name") == "c" and z.get("init") is not None and z["init"].get("k") == "Binary" and z["init"]["op"] == "Div")
    # c = h / alpha[order]: identified by shape (a quotient whose divisor is an element of a coefficient array indexed by
    # the order variable), not by its name
    cl = tast.find(main, lambda z: z.get("k") == "Let" and z["pat"].get("k") == "PBind" and z.get("init") is not None and z["init"].get("k") == "Binary" and z["init"]["op"] == "Div"
                   and z["init"]["r"].get("k") == "Index" and z["init"]["r"]["i"].get("k") == "Path" and "usize" in (z["init"]["r"]["i"].get("ty") or "")
                   and "[f64;" in (z["init"]["r"]["e"].get("ty") or "").replace(" ", ""))
    if len(cl) != 1:
        probs.append("the step coefficient c = h / alpha[order] is not computed once per iteration (found %d candidates)" % len(cl))
    elif len(a1) == 1:
        cid = cl[0]["pat"]["id"]
        alias = {cid}
        grew = True
        while grew:
            grew = False
            for l_ in tast.find(main, lambda z: z.get("k") == "Let" and z["pat"].get("k") == "PBind" and z.get("init") is not None and z["init"].get("k") == "Path" and z["init"].get("id") in alias):
                if l_["pat"]["id"] not in alias:
                    alias.add(l_["pat"]["id"])
                    grew = True
        facs = [q for q in tast.find(a1[0]["r"], lambda q: q.get("k") == "Path" and q.get("res") == "local" and (q.get("ty") or "") == "f64")]
        if not facs or not all(q.get("id") in alias for q in facs):
            probs.append("the iteration matrix is built with `%s`, not with this step's coefficient `%s = h/alpha[order]`: after a change of step size or order the Newton matrix belongs to the previous step"
                         % ([q.get("name") for q in facs if q.get("id") not in alias][:1] or ["?"])[0] + "" if False else
                         "the iteration matrix is built with `%s`, not with this step's coefficient `%s = %s`: after a change of step size or order the Newton matrix belongs to an earlier step"
                         % (", ".join(sorted({q.get("name") for q in facs if q.get("id") not in alias})) or "?", cl[0]["pat"].get("name"), tast.render(cl[0]["init"])[:40]))
    if probs:
        rep.violation("R-BDF-MATRIX", key, "; ".join(probs), blk.get("sp"))
    else:
        rep.ok("R-BDF-MATRIX", key, "lu_matrix = I - c*J with c = h/alpha[order]")


# ------------------------------------------------------------------------------------------ R-CPLX-ALGEBRA
def _mini(e, env):
    """expression -> Poly over atoms named by the rendered operand text (locals, matrix/vector elements)"""
    from poly import lit_fraction
    k = e.get("k")
    if k == "Lit" and e.get("lk") in ("Float", "Int"):
        return Poly.const(lit_fraction(e["v"]))
    if k == "Path" and e.get("res") == "local":
        nm = e.get("name")
        return env.get(nm, Poly.atom(nm))
    if k == "Index":
        return Poly.atom(tast.render(e))
    if k == "Unary" and e["op"] == "Neg":
        v = _mini(e["e"], env)
        return None if v is None else -v
    if k == "Unary" and e["op"] == "Deref":
        return _mini(e["e"], env)
    if k == "Binary" and e["op"] in ("Add", "Sub", "Mul", "Div"):
        l, r = _mini(e["l"], env), _mini(e["r"], env)
        if l is None or r is None:
            return None
        if e["op"] == "Add":
            return l + r
        if e["op"] == "Sub":
            return l - r
        if e["op"] == "Mul":
            return l * r
        return l.div(r)
    return None


def _swap_ri(name):
    """candidate partner names: swap one 'r' <-> 'i' role letter"""
    out = []
    for j, ch in enumerate(name):
        if ch in "ri":
            out.append(name[:j] + ("i" if ch == "r" else "r") + name[j + 1:])
    return out


def r_cplx_algebra(rep, f):
    """every (x_r, x_i) pair computed in the complex routines is the complex product (or quotient) of its operand pairs;
    the special-cased branches (purely real / purely imaginary multiplier) are specialisations of the general formula"""
    n_pairs = 0
    for fn in (LUC, SOLC):
        b = f.bodies.get(fn)
        if b is None:
            rep.inconc("R-CPLX-ALGEBRA", "R-CPLX-ALGEBRA:%s" % fn, "function not found")
            continue
        rep.fn(fn)
        short = fn.split("::")[-1]
        for blk, parents in tast.find_with_parents(b["body"], lambda z: z.get("k") == "Block"):
            lets = [s for s in blk["stmts"] if s.get("k") == "Let" and s["pat"].get("k") == "PBind" and s.get("init") is not None]
            byname = {l["pat"]["name"]: l for l in lets}
            for nm, lr in byname.items():
                if not nm.endswith("_r"):
                    continue
                li = byname.get(nm[:-2] + "_i")
                if li is None:
                    continue
                # zero substitutions from the enclosing `if x == 0.0` conditions (then-branches) and `!= 0` else-branches
                env = {}
                for p in parents:
                    if p.get("k") == "If" and p["cond"].get("k") == "Binary" and p["cond"]["op"] == "Eq" and tast.contains(p["then"], lambda z: z is blk):
                        c = p["cond"]
                        if c["l"].get("k") == "Path" and c["r"].get("k") == "Lit" and float(c["r"]["v"]) == 0.0:
                            env[c["l"]["name"]] = Poly()
                xr, xi = _mini(lr["init"], env), _mini(li["init"], env)
                n_pairs += 1
                key = "R-CPLX-ALGEBRA:%s:%s@%s" % (short, nm[:-2], _branch_tag(parents, blk))
                if xr is None or xi is None:
                    rep.inconc("R-CPLX-ALGEBRA", key, "cannot evaluate the pair symbolically")
                    continue
                atoms = sorted((xr.atoms() | xi.atoms() | set(env)))
                # operand pairs
                pairs = []
                used = set()
                for a in atoms:
                    if a in used:
                        continue
                    for cand in _swap_ri(a):
                        if cand in atoms and cand not in used and cand != a:
                            # order as (real, imaginary): the real part is the one whose swapped letter is 'r'
                            j = [t for t in range(len(a)) if a[t] != cand[t]][0]
                            re_, im_ = (a, cand) if a[j] == "r" else (cand, a)
                            pairs.append((re_, im_))
                            used.update((a, cand))
                            break
                ok = False
                why = ""
                P = lambda s: env.get(s, Poly.atom(s))
                if len(pairs) == 2:
                    (ar_, ai_), (br_, bi_) = pairs
                    prod = (P(ar_) * P(br_) - P(ai_) * P(bi_), P(ai_) * P(br_) + P(ar_) * P(bi_))
                    if (xr, xi) == prod:
                        ok, why = True, "(%s + i %s)*(%s + i %s)" % (ar_, ai_, br_, bi_)
                    else:
                        # quotient b / a with den = |a|^2 : x = b*conj(a)/den
                        for (a1, a2), (b1, b2) in ((pairs[0], pairs[1]), (pairs[1], pairs[0])):
                            den = Poly.atom("den")
                            if "den" in (xr.atoms() | xi.atoms()):
                                q = ((P(b1) * P(a1) + P(b2) * P(a2)).div(den), (P(b2) * P(a1) - P(b1) * P(a2)).div(den))
                                if (xr, xi) == q:
                                    ok, why = True, "(%s + i %s)/(%s + i %s) via conj/den" % (b1, b2, a1, a2)
                    if not ok:
                        want = "re = %r, im = %r" % prod
                        why = "computed re = %r, im = %r; the complex product of its operands is %s" % (xr, xi, want)
                elif len(pairs) == 1 and not env:
                    # conj / |.|^2 style reciprocals are checked through their use; a lone pair scaled by a real is fine
                    ok, why = True, "real scaling of (%s, %s)" % pairs[0]
                else:
                    why = "operand pairs not recognised: %s" % atoms
                    rep.note("%s %s" % (key, why))
                    continue
                if ok:
                    rep.ok("R-CPLX-ALGEBRA", key, why)
                else:
                    rep.violation("R-CPLX-ALGEBRA", key, "`%s_r/_i` is not the complex product of its operands: %s" % (nm[:-2], why[:400]), lr.get("sp"))
    if n_pairs < 8:
        rep.inconc("R-CPLX-ALGEBRA", "R-CPLX-ALGEBRA:floor", "only %d real/imaginary pairs found (expected >= 8)" % n_pairs)


def _branch_tag(parents, blk):
    tags = []
    for p in parents:
        if p.get("k") == "If" and p["cond"].get("k") == "Binary" and p["cond"]["op"] in ("Eq", "Ne"):
            tags.append(tast.render(p["cond"]).replace(" ", "") + (":then" if tast.contains(p["then"], lambda z: z is blk) else ":else"))
        if p.get("k") == "For":
            tags.append("for-" + str(p["pat"].get("name")))
    ln = ""
    return "/".join(tags[-3:]) or "top"


# ------------------------------------------------------------------------------------------ R-JAC-POLICY (C14)
def r_jac_policy(rep, f):
    """The decisions about re-evaluating the Jacobian in RADAU::solve do not contradict each other (Engler-style belief
    consistency): every assignment of the flag that guards `IVP::jac` whose value depends on a comparison of two scalars A, B
    is normalised to an implication `A < B  =>  flag = v`; all sites that talk about the same pair (A, B) must agree on v.
    The orientation is anchored by the site that also skips the factorisation: where `call_decomp = false` is set, the
    Jacobian must be kept (a fresh Jacobian that is never factorised would be wasted and the old factors used)."""
    fn = "methods::radau::RADAU::solve"
    b = f.bodies.get(fn)
    key = "R-JAC-POLICY:%s" % fn
    if b is None:
        rep.inconc("R-JAC-POLICY", key, "RADAU::solve not found")
        return
    rep.fn(fn)
    body = b["body"]
    JAC = "ivp::IVP::jac"
    # the flag: a bool local tested by an `if` whose then-branch calls IVP::jac
    flags = set()
    for i_ in tast.find(body, lambda z: z.get("k") == "If" and z["cond"].get("k") == "Path" and z["cond"].get("ty") == "bool"
                        and tast.contains(z["then"], lambda q: q.get("k") in ("Call", "MethodCall") and q.get("def") == JAC)):
        flags.add(i_["cond"]["id"])
    if len(flags) != 1:
        rep.inconc("R-JAC-POLICY", key, "expected one boolean flag guarding the IVP::jac call, found %d" % len(flags))
        return
    fid = next(iter(flags))
    # the factorisation flag: the bool local guarding the lu_decomp calls
    dflags = set()
    for i_ in tast.find(body, lambda z: z.get("k") == "If" and z["cond"].get("k") == "Path" and z["cond"].get("ty") == "bool"
                        and tast.contains(z["then"], lambda q: q.get("k") in ("Call", "MethodCall") and q.get("def") in (LU, LUC))):
        dflags.add(i_["cond"]["id"])

    def operand(e):
        while e.get("k") in ("Cast", "Unary") and e.get("op") in (None, "Deref"):
            e = e["e"]
        if e.get("k") == "Path" and e.get("res") == "local":
            return ("local", e["id"], e.get("name"))
        if e.get("k") == "Path" and e.get("dk") in ("Const", "AssocConst"):
            return ("const", e.get("def"), e.get("def").split("::")[-1])
        if e.get("k") == "Field":
            return ("field", e.get("fdef"), e.get("name"))
        return None

    def cmp_facts(c, truth):
        """[(A, B, lt)] : `A < B` is known to be `lt` (True/False) when condition c has the given truth value; conjunctions only"""
        out = []
        if c.get("k") == "Path" and c.get("res") == "local" and c.get("ty") == "bool" and c.get("id") not in flags and c.get("id") not in dflags:
            # a named condition (`let keep = theta < thet && ..; if keep {..}`) stands for its initialiser
            lets_ = tast.find(body, lambda z: z.get("k") == "Let" and z["pat"].get("k") == "PBind" and z["pat"].get("id") == c.get("id") and z.get("init") is not None)
            asg_ = tast.find(body, lambda z: z.get("k") == "Assign" and z["l"].get("k") == "Path" and z["l"].get("id") == c.get("id"))
            if len(lets_) == 1 and not asg_:
                return cmp_facts(lets_[0]["init"], truth)
            return []
        if c.get("k") == "Binary" and c["op"] == "And" and truth:
            return cmp_facts(c["l"], True) + cmp_facts(c["r"], True)
        if c.get("k") == "Binary" and c["op"] == "Or" and not truth:
            return cmp_facts(c["l"], False) + cmp_facts(c["r"], False)
        if c.get("k") == "Unary" and c.get("op") == "Not":
            return cmp_facts(c["e"], not truth)
        if c.get("k") == "Binary" and c["op"] in ("Lt", "Le", "Gt", "Ge"):
            A, B = operand(c["l"]), operand(c["r"])
            if A is None or B is None or A[0] == B[0] == "const":
                return []
            op = c["op"]
            # strictness is immaterial for a policy threshold: A < B and A <= B are read as "A below B"
            below = op in ("Lt", "Le")
            val = below == truth
            if (A[1] or "") > (B[1] or ""):
                A, B, val = B, A, not val
            out.append((A, B, val))
        return out

    sites = []   # (pair, A_below_B, flag value, node)
    for asg, parents in tast.find_with_parents(body, lambda z: z.get("k") == "Assign" and z["l"].get("k") == "Path" and z["l"].get("id") == fid):
        r = asg["r"]
        if r.get("k") == "Lit" and r.get("lk") == "Bool":
            v = bool(r["v"])
            for a in parents:
                if a.get("k") == "If":
                    in_then = tast.contains(a["then"], lambda z: z is asg)
                    in_else = a.get("else") is not None and tast.contains(a["else"], lambda z: z is asg)
                    if in_then or in_else:
                        for A, B, below in cmp_facts(a["cond"], in_then):
                            sites.append(((A[1], B[1]), below, v, asg, "%s %s %s" % (A[2], "<" if below else ">=", B[2])))
        else:
            for A, B, below in cmp_facts(r, True):
                sites.append(((A[1], B[1]), below, True, asg, "%s %s %s" % (A[2], "<" if below else ">=", B[2])))
                sites.append(((A[1], B[1]), not below, False, asg, "%s %s %s" % (A[2], ">=" if below else "<", B[2])))
    # (1) keeping the factors implies keeping the Jacobian
    n1 = 0
    for asg, parents in tast.find_with_parents(body, lambda z: z.get("k") == "Assign" and z["l"].get("k") == "Path" and z["l"].get("id") in dflags
                                               and z["r"].get("k") == "Lit" and z["r"].get("v") in (False, "false")):
        blk = next((p for p in reversed(parents) if p.get("k") == "Block"), None)
        if blk is None:
            continue
        n1 += 1
        same = tast.find(blk, lambda z: z.get("k") == "Assign" and z["l"].get("k") == "Path" and z["l"].get("id") == fid)
        if not same or not all(x["r"].get("k") == "Lit" and x["r"].get("v") in (False, "false") for x in same):
            rep.violation("R-JAC-POLICY", key + ":keep-factors", "the factorisation is kept (`%s`) but the Jacobian flag is not cleared in the same block: a re-evaluated Jacobian would never be factorised"
                          % tast.render(asg), asg.get("sp"))
    # (2) belief consistency over (A, B)
    by_pair = {}
    for pair, below, v, node, txt in sites:
        by_pair.setdefault((pair, below), []).append((v, node, txt))
    n2 = 0
    bad = False
    for (pair, below), lst in by_pair.items():
        vals = {v for v, _, _ in lst}
        n2 += len(lst)
        if len(vals) > 1:
            bad = True
            t_ = next(n_ for v, n_, _ in lst if v)
            f_ = next(n_ for v, n_, _ in lst if not v)
            rep.violation("R-JAC-POLICY", key + ":contradiction", "under `%s` one site requests a new Jacobian (`%s`, %s) and another keeps the old one (`%s`, %s): one of the two decisions is inverted"
                          % (lst[0][2], tast.render(t_)[:60], t_.get("sp"), tast.render(f_)[:60], f_.get("sp")), t_.get("sp"))
    if not bad:
        pairs = {p for (p, _b) in by_pair}
        multi = [p for p in pairs if len({id(n_) for (pp, _b), l_ in by_pair.items() if pp == p for _v, n_, _t in l_}) >= 2]
        if n1 == 0 or not multi:
            rep.inconc("R-JAC-POLICY", key, "expected the keep-factors site and at least two Jacobian decisions about the same pair of quantities (found %d keep-factors site(s), %d comparable pair(s))" % (n1, len(multi)))
        elif not any(v["key"].startswith(key) for v in rep.violations):
            rep.ok("R-JAC-POLICY", key, "%d Jacobian-flag decision(s) over %d compared pair(s) are mutually consistent; keeping the factors keeps the Jacobian (%d site)" % (n2, len(pairs), n1))


# ------------------------------------------------------------------------------------------ R-LU-INTERLEAVE (C16)
def r_lu_interleave(rep, f):
    """Writer/reader agreement on the row interchanges. The factorisation swaps rows m and k only in columns >= k (every
    write `a[(m, j)] = ..` / `a[(k, j)] = ..` of a swap has j = k or j ranging over k+1..n), so the multipliers of earlier
    columns stay in their unpermuted rows ("deferred" interchanges, as in Hairer's DEC/SOL). The forward substitution must
    therefore apply interchange k immediately before elimination step k: every read of the pivot vector in a solve sits in
    a loop over k whose body, after the interchange, eliminates column k. Interchanges applied in a loop of their own solve
    a different system."""
    pairs = [(LU, SOL), (LUC, SOLC)]
    for dec, sol in pairs:
        key = "R-LU-INTERLEAVE:%s" % sol.split("::")[-1]
        bd, bs = f.bodies.get(dec), f.bodies.get(sol)
        if bd is None or bs is None:
            rep.inconc("R-LU-INTERLEAVE", key, "%s / %s not found" % (dec, sol))
            continue
        rep.fn(sol)
        # (a) the factorisation's interchanges: writes to matrix rows indexed by the pivot row m inside `if m != k`
        deferred = None
        outer = [l for l in tast.find(bd["body"], lambda z: z.get("k") == "For")
                 if tast.contains(l["body"], lambda q: q.get("k") in ("Assign",) and q["l"].get("k") == "Index" and "usize" in (q["l"]["e"].get("ty") or ""))]
        # the outer elimination loop is the one that records the pivot index (ip[k] = m)
        for lp in outer:
            kid = lp["pat"].get("id")
            swaps = []
            for i_ in tast.find(lp["body"], lambda z: z.get("k") == "If" and z["cond"].get("k") == "Binary" and z["cond"]["op"] == "Ne"):
                for w in tast.find(i_["then"], lambda q: q.get("k") == "Assign" and q["l"].get("k") == "Index" and "Matrix" in (q["l"].get("base_ty") or "")):
                    swaps.append((i_, w))
            if not swaps:
                continue
            cols = []
            for i_, w in swaps:
                tup = w["l"]["i"]
                if tup.get("k") != "Tuple" or len(tup["elems"]) != 2:
                    continue
                c = tup["elems"][1]
                if c.get("k") == "Path" and c.get("id") == kid:
                    cols.append("k")
                elif c.get("k") == "Path":
                    # a column loop variable: its range must start after k
                    cl = [l for l in tast.find(lp["body"], lambda z: z.get("k") == "For" and z["pat"].get("id") == c.get("id"))]
                    if cl and cl[0]["iter"].get("k") == "Struct":
                        st = next((x["e"] for x in cl[0]["iter"]["fields"] if x["name"] == "start"), None)
                        zero = st is not None and st.get("k") == "Lit" and str(st.get("v")) in ("0",)
                        cols.append("from0" if zero else "after-k")
                    else:
                        cols.append("?")
                else:
                    cols.append("?")
            if cols:
                deferred = all(c in ("k", "after-k") for c in cols)
                if "?" in cols:
                    deferred = None
            break
        if deferred is None:
            rep.inconc("R-LU-INTERLEAVE", key, "could not classify the row interchanges of %s" % dec.split("::")[-1])
            continue
        if not deferred:
            rep.inconc("R-LU-INTERLEAVE", key, "%s interchanges complete rows: the solve may permute the right-hand side up front; this rule models the deferred convention only" % dec.split("::")[-1])
            continue
        # (b) the solve
        ips = [p_["id"] for p_ in bs.get("params", []) if p_.get("k") == "PBind" and "usize" in (p_.get("ty") or "")]
        reads = tast.find_with_parents(bs["body"], lambda z: z.get("k") == "Index" and z["e"].get("k") == "Path" and z["e"].get("id") in ips)
        if not reads:
            rep.violation("R-LU-INTERLEAVE", key, "the solve never reads the pivot vector: the row interchanges of the factorisation are not applied to the right-hand side", bs.get("sp"))
            continue
        bad = None
        n_ok = 0
        for rd, parents in reads:
            loops = [p_ for p_ in parents if p_.get("k") == "For"]
            if not loops:
                bad = (rd, "the pivot vector is read outside the elimination loop")
                break
            lp = loops[-1]
            kid = lp["pat"].get("id")
            kids = {kid}
            grew = True
            while grew:
                grew = False
                for l_ in tast.find(lp["body"], lambda z: z.get("k") == "Let" and z["pat"].get("k") == "PBind" and z.get("init") is not None
                                    and z["init"].get("k") == "Path" and z["init"].get("id") in kids):
                    if l_["pat"]["id"] not in kids:
                        kids.add(l_["pat"]["id"])
                        grew = True
            def eliminates(q):
                # an update of a right-hand-side element from a matrix element of column k
                if q.get("k") not in ("AssignOp", "Assign") or q["l"].get("k") != "Index" or "Matrix" in (q["l"].get("base_ty") or ""):
                    return False
                return True
            inner = [l for l in tast.find(lp["body"], lambda z: z.get("k") == "For")
                     if tast.contains(l["body"], lambda q: q.get("k") == "Index" and "Matrix" in (q.get("base_ty") or "") and q["i"].get("k") == "Tuple"
                                      and len(q["i"]["elems"]) == 2 and q["i"]["elems"][1].get("k") == "Path" and q["i"]["elems"][1].get("id") in kids)
                     and tast.contains(l["body"], eliminates)]
            if not inner:
                bad = (rd, "interchange `%s` is applied in a loop over `%s` that does not eliminate column %s" % (tast.render(rd), lp["pat"].get("name"), lp["pat"].get("name")))
                break
            # order: the interchange precedes the elimination loop in the body
            stl = list(lp["body"].get("stmts", [])) + ([lp["body"]["tail"]] if lp["body"].get("tail") is not None else [])
            pos_r = next((i for i, st in enumerate(stl) if tast.contains(st, lambda z: z is rd)), None)
            pos_e = next((i for i, st in enumerate(stl) if tast.contains(st, lambda z: z is inner[0])), None)
            if pos_r is None or pos_e is None or pos_r > pos_e:
                bad = (rd, "elimination step runs before its interchange")
                break
            n_ok += 1
        if bad:
            rep.violation("R-LU-INTERLEAVE", key, "%s: the factorisation leaves the multipliers of earlier columns in their unpermuted rows, so interchange k has to be applied immediately before elimination step k"
                          % bad[1], bad[0].get("sp"))
        else:
            rep.ok("R-LU-INTERLEAVE", key, "deferred interchanges in %s; %d pivot read(s) each inside the elimination loop, before the column update" % (dec.split("::")[-1], n_ok))


# ------------------------------------------------------------------------------------------ R-LU-SOLVE (semantic)
class _Paths:
    """depth-first enumeration of the outcomes of the ordering tests an evaluation meets"""

    def __init__(self):
        self.prefix = []
        self.taken = []

    def start(self):
        self.taken = []

    def ask(self, op, l, r):
        i = len(self.taken)
        v = self.prefix[i] if i < len(self.prefix) else False
        self.taken.append(v)
        return v

    def advance(self):
        t = list(self.taken)
        while t and t[-1]:
            t.pop()
        if not t:
            return False
        t[-1] = True
        self.prefix = t
        return True


def _frac_eval(p, env, depth=0):
    """exact value of a polynomial whose atoms are symbols (env) or inv[...] / abs[...] of such polynomials"""
    from fractions import Fraction
    tot = Fraction(0)
    for mono, c in p.t.items():
        term = Fraction(c)
        for a, e in mono:
            if a in env:
                v = env[a]
            else:
                d = DEFS.get(a)
                if d is None or depth > 40:
                    raise KeyError(a)
                if d[0] == "inv":
                    v = 1 / _frac_eval(d[1][0], env, depth + 1)
                elif d[0] == "abs":
                    v = abs(_frac_eval(d[1][0], env, depth + 1))
                elif d[0] == "neg":
                    v = -_frac_eval(d[1][0], env, depth + 1)
                else:
                    raise KeyError(a)
            term *= v ** e
        tot += term
    return tot


def r_lu_solve(rep, f, thorough=False):
    """factorise-then-solve returns the solution of the system: for every size n <= 3, every pattern of exactly-zero
    entries that is enumerated, and every outcome of the ordering tests the code makes (the pivot search; enumerated, not
    sampled), `lu_decomp` + `lin_solve` are evaluated exactly on a matrix and a right-hand side of symbols, and
    A*x - b == 0 is decided as an identity of rational functions in those symbols (exact evaluation at random rational points:
    a non-zero rational function of this size vanishes there with probability < 1e-9).  The same for the complex pair with
    (re, im) symbols, sizes n <= 2.  Runs in which the code reports a singular matrix are skipped (nothing is solved)."""
    import random
    from fractions import Fraction
    from cx import CxUnknown
    from cxs import CxS, CxPanic, deepv, dderef
    import matx
    key0 = "R-LU-SOLVE"
    rng = random.Random(20261004)

    def identity_zero(polys, names):
        for _ in range(2):
            env = {nm: Fraction(rng.randint(-10 ** 6, 10 ** 6) * 2 + 1, rng.randint(1, 10 ** 3) * 2 + 1) for nm in names}
            for p in polys:
                try:
                    if _frac_eval(p, env) != 0:
                        return False
                except ZeroDivisionError:
                    return None
        return True

    class Cx(CxS):
        lenient_if = True

    def run_real(n, zeros):
        cxm = matx.Ctx(f)
        names = ["a%d" % i for i in range(n * n)] + ["b%d" % i for i in range(n)]
        paths = _Paths()
        n_paths = n_solved = 0
        while True:
            A = cxm.mk(("F",), n, "a")
            for z in zeros:
                A["data"][z] = Poly()
            A0 = cxm.dense(deepv(A), n)
            b = [Poly.atom("b%d" % i) for i in range(n)]
            b0 = list(b)
            ip = [0] * n
            paths.start()
            c = Cx(f)
            c.oracle = paths.ask
            try:
                r = c.call_fn(LU, [A, ip])
                okv = isinstance(r, dict) and (r.get("__variant") or "").endswith("Ok")
                if okv:
                    c2 = Cx(f)
                    c2.oracle = paths.ask
                    c2.call_fn(SOL, [A, b, ip])
                    res = []
                    for i in range(n):
                        acc = Poly()
                        for j in range(n):
                            acc = acc + A0[i][j] * dderef(b[j])
                        res.append(acc - b0[i])
                    z = identity_zero(res, names)
                    n_solved += 1
                    if z is False:
                        return ("bad", "n = %d, zero entries %s, ordering outcomes %s: A*x - b is not zero for the x returned" % (n, sorted(zeros), paths.taken), n_paths, n_solved)
            except CxPanic as ex:
                return ("bad", "n = %d, zero entries %s: panic (%s)" % (n, sorted(zeros), ex), n_paths, n_solved)
            except CxUnknown as ex:
                return ("unknown", "n = %d: %s" % (n, str(ex)[:120]), n_paths, n_solved)
            n_paths += 1
            if not paths.advance() or n_paths > 64:
                break
        return ("ok", None, n_paths, n_solved)

    def run_complex(n, zeros):
        cxm = matx.Ctx(f)
        names = ["r%d" % i for i in range(n * n)] + ["i%d" % i for i in range(n * n)] + ["p%d" % i for i in range(n)] + ["q%d" % i for i in range(n)]
        paths = _Paths()
        n_paths = n_solved = 0
        while True:
            AR = cxm.mk(("F",), n, "r")
            AI = cxm.mk(("F",), n, "i")
            for which, z in zeros:
                (AR if which == 0 else AI)["data"][z] = Poly()
            R0, I0 = cxm.dense(deepv(AR), n), cxm.dense(deepv(AI), n)
            br = [Poly.atom("p%d" % i) for i in range(n)]
            bi = [Poly.atom("q%d" % i) for i in range(n)]
            br0, bi0 = list(br), list(bi)
            ip = [0] * n
            paths.start()
            c = Cx(f)
            c.oracle = paths.ask
            try:
                r = c.call_fn(LUC, [AR, AI, ip])
                if isinstance(r, dict) and (r.get("__variant") or "").endswith("Ok"):
                    c2 = Cx(f)
                    c2.oracle = paths.ask
                    c2.call_fn(SOLC, [AR, AI, br, bi, ip])
                    res = []
                    for i in range(n):
                        re_, im_ = Poly(), Poly()
                        for j in range(n):
                            xr, xi = dderef(br[j]), dderef(bi[j])
                            re_ = re_ + R0[i][j] * xr - I0[i][j] * xi
                            im_ = im_ + R0[i][j] * xi + I0[i][j] * xr
                        res += [re_ - br0[i], im_ - bi0[i]]
                    z = identity_zero(res, names)
                    n_solved += 1
                    if z is False:
                        return ("bad", "n = %d, zero parts %s, ordering outcomes %s: (Ar + i Ai)*x - b is not zero for the x returned" % (n, sorted(zeros), paths.taken), n_paths, n_solved)
            except CxPanic as ex:
                return ("bad", "n = %d, zero parts %s: panic (%s)" % (n, sorted(zeros), ex), n_paths, n_solved)
            except CxUnknown as ex:
                return ("unknown", "n = %d: %s" % (n, str(ex)[:120]), n_paths, n_solved)
            n_paths += 1
            if not paths.advance() or n_paths > 64:
                break
        return ("ok", None, n_paths, n_solved)
    import itertools
    for label, runner, cases in (
            ("lu_decomp+lin_solve", run_real,
             [(n, frozenset(z)) for n in (1, 2, 3) for k in range(0, (n * n if (n < 3 or thorough) else 2) + 1) for z in itertools.combinations(range(n * n), k)]),
            ("lu_decomp_complex+lin_solve_complex", run_complex,
             [(n, frozenset(z)) for n in (1, 2) for k in range(0, (2 * n * n if (n < 2 or thorough) else 2) + 1)
              for z in itertools.combinations([(w, e) for w in (0, 1) for e in range(n * n)], k)])):
        key = "%s:%s" % (key0, label)
        tot_paths = tot_solved = n_cases = 0
        bad = unknown = None
        for n, zeros in cases:
            st, msg, npth, nsol = runner(n, zeros)
            n_cases += 1
            tot_paths += npth
            tot_solved += nsol
            if st == "bad" and bad is None:
                bad = msg
                break
            if st == "unknown" and unknown is None:
                unknown = msg
        if bad:
            rep.violation(key0, key, "%s: the vector returned does not solve the system (%s)" % (label, bad), None)
        elif unknown and tot_solved == 0:
            rep.inconc(key0, key, "not evaluated: %s" % unknown)
        elif tot_solved < 10:
            rep.inconc(key0, key, "only %d solved systems verified" % tot_solved)
        else:
            rep.ok(key0, key, "%d zero patterns, %d ordering-outcome paths, %d solved systems: A*x = b as an identity in the symbols%s" % (n_cases, tot_paths, tot_solved, ("; %s" % unknown) if unknown else ""))


def r_pivot_semantic(rep, f):
    """the pivot search picks the row of largest magnitude, the first one on a tie: the factorisations are evaluated exactly
    on matrices whose k-th column carries every ordering (ties included) of magnitudes below the diagonal, both signs - the
    search touches its inputs only through abs and comparisons, so the orderings are a complete case analysis - and the
    recorded interchange ip[k] must name that row.  Columns before k are unit columns, so the elimination leaves column k as given.
    Returns {routine: True (decided ok) | False (violation reported) | None (not evaluated)}."""
    import itertools
    from cx import CxUnknown
    from cxs import CxS, CxPanic
    import matx
    out = {}
    for label, fn_, cplx in (("lu_decomp", LU, False), ("lu_decomp_complex", LUC, True)):
        key = "R-PIVOT-ARGMAX:%s:semantic" % label
        bad = None
        n_cases = 0
        try:
            for n in (2, 3):
                for k in range(n - 1):
                    rows = list(range(k, n))
                    mags = set(itertools.product((1, 2, 3), repeat=len(rows)))
                    for mg in sorted(mags):
                        for sgn in ((1,) * len(rows), tuple(-1 if i % 2 == 0 else 1 for i in range(len(rows)))):
                            for part in ((0, 1) if cplx else (0,)):      # complex: the magnitude sits in the real or in the imaginary part
                                cxm = matx.Ctx(f)
                                A = cxm.mk(("F",), n, "a")
                                B = cxm.mk(("F",), n, "b") if cplx else None
                                for M_ in (A, B):
                                    if M_ is not None:
                                        M_["data"] = [Poly() for _ in M_["data"]]
                                for j in range(n):
                                    A["data"][j * n + j] = Poly.const(7)       # unit-like columns elsewhere (non-singular)
                                for i_, r_ in enumerate(rows):
                                    tgt = (B if (cplx and part == 1) else A)
                                    other = (A if (cplx and part == 1) else B)
                                    tgt["data"][r_ * n + k] = Poly.const(mg[i_] * sgn[i_])
                                    if other is not None:
                                        other["data"][r_ * n + k] = Poly()
                                ip = [0] * n
                                c = CxS(f)
                                r = c.call_fn(fn_, [A, B, ip] if cplx else [A, ip])
                                n_cases += 1
                                if not (isinstance(r, dict) and (r.get("__variant") or "").endswith("Ok")):
                                    continue
                                want = rows[max(range(len(rows)), key=lambda i_: (mg[i_], -i_))]
                                if ip[k] != want and bad is None:
                                    bad = "n = %d, step %d, column magnitudes %s (rows %d..%d)%s: row %d chosen, row %d holds the largest entry" % (
                                        n, k, [m_ * s_ for m_, s_ in zip(mg, sgn)], k, n - 1, " in the imaginary part" if part else "", ip[k], want)
        except (CxUnknown, CxPanic) as ex:
            rep.note("%s not evaluated: %s" % (key, str(ex)[:160]))
            out[label] = None
            continue
        if bad:
            rep.violation("R-PIVOT-ARGMAX", key, "the pivot search does not select the entry of largest magnitude (%s): elimination with a small pivot amplifies rounding errors without bound" % bad, f.bodies[fn_].get("sp"))
            out[label] = False
        else:
            rep.ok("R-PIVOT-ARGMAX", key, "ip[k] names the first row of largest magnitude in %d evaluated orderings (ties, both signs%s)" % (n_cases, ", real and imaginary parts" if cplx else ""))
            out[label] = True
    return out


class SoftRep:
    """forwards to a Report; an INCONCLUSIVE of a shape-reading rule becomes a note when the same obligation was decided by a
    semantic rule in this run (`covered` maps a key prefix to the reason)"""

    def __init__(self, rep, covered):
        self._rep, self._covered = rep, covered

    def __getattr__(self, name):
        return getattr(self._rep, name)

    def inconc(self, rule, key, msg, span=None):
        for pref, why in self._covered.items():
            if key.startswith(pref):
                self._rep.note("%s %s - %s" % (key, msg[:200], why))
                return
        self._rep.inconc(rule, key, msg, span)
