"""Tolerance plumbing and homogeneity rules: R-TOL-ONCE, R-TOL-INDEX, R-ACCEPT-ONE, R-GRADE-*."""
import re
from fractions import Fraction

import tast
import rk
import grade
from grade import Grader, POLY, BAD, UNKNOWN
from symx import SymExec, Hooks, Buf
from poly import Poly, DEFS, ATOM_TY
from protocol import SOLVERS, solve_fn, main_loop_of

TOL_TY = ("methods::Tolerance", "&methods::Tolerance", "&mut methods::Tolerance")
CONTROLLED = [s for s in SOLVERS if s[0] != "rk4"]
FRE = re.compile(r"^F\d+$")
BUFATOM = re.compile(r"^[^\[\]]+@\d+$")


def is_tol_index(z):
    return z.get("k") == "Index" and any(t in (z.get("base_ty") or "") for t in ("methods::Tolerance",))


def tol_root(z):
    e = z["e"]
    while e.get("k") in ("Unary", "AddrOf", "Field"):
        e = e["e"]
    return e.get("id") if e.get("k") == "Path" else None


def r_tol_once(rep, f):
    """no loop both stores into a Tolerance and reads the same Tolerance to compute that store:
    with Tolerance::Scalar every index aliases one cell, so the transformation would be applied once per component"""
    n_store = 0
    for b in f.body_list:
        if not b["def"].startswith("methods::"):
            continue
        for lp in tast.find(b["body"], lambda z: z.get("k") in ("For", "Loop")):
            for st in tast.find(lp["body"], lambda z: z.get("k") in ("Assign", "AssignOp") and is_tol_index(z["l"])):
                n_store += 1
                tid = tol_root(st["l"])
                key = "R-TOL-ONCE:%s:%s" % (b["def"], tast.render(st["l"]["e"]))
                reads = tast.find(st["r"], lambda z: is_tol_index(z) and tol_root(z) == tid)
                # reads through locals assigned in the same loop body from the same tolerance
                for l in tast.find(lp["body"], lambda z: z.get("k") == "Let" and z.get("init") is not None and tast.contains(z["init"], lambda q: is_tol_index(q) and tol_root(q) == tid)):
                    if tast.contains(st["r"], lambda q: q.get("k") == "Path" and q.get("id") == l["pat"].get("id")):
                        reads.append(l)
                if st["k"] == "AssignOp":
                    reads.append(st)
                if reads:
                    rep.violation("R-TOL-ONCE", key, "`%s` is computed from the same tolerance inside a loop over the components: for a scalar tolerance every index aliases one cell, "
                                  "so the transformation is applied once per component (n times) instead of once" % tast.render(st)[:120], st.get("sp"))
                else:
                    rep.ok("R-TOL-ONCE", key, "stored value does not read the tolerance being written")
    if n_store < 2:
        rep.inconc("R-TOL-ONCE", "R-TOL-ONCE:floor", "only %d stores into a Tolerance found (expected >= 2: Radau's rtol/atol transformation)" % n_store)


def r_tol_index(rep, f):
    """inside a loop over components every Tolerance index is that loop's induction variable"""
    n = 0
    for b in f.body_list:
        if not b["def"].startswith("methods::") or b["def"].startswith("methods::Tolerance") or "<methods::Tolerance" in b["def"] or "Tolerance as" in b["def"]:
            continue
        for ix, parents in tast.find_with_parents(b["body"], is_tol_index):
            n += 1
            loops = [p for p in parents if p.get("k") == "For" or (p.get("k") == "Closure" and p.get("params"))]
            key = "R-TOL-INDEX:%s:%s" % (b["def"], tast.render(ix))
            i = ix["i"]
            def loop_index_ids(lp):
                if lp.get("k") == "Closure":
                    # a closure handed to fold/map/for_each over 0..n or enumerate(): its usize parameters index the component
                    return {q["id"] for q in tast.find(lp["params"], lambda z: z.get("k") == "PBind" and z.get("ty") in ("usize", "&usize"))}
                ids = {lp["pat"].get("id")}
                if lp["pat"].get("k") == "PTuple" and tast.contains(lp["iter"], lambda q: q.get("k") == "MethodCall" and q.get("name") == "enumerate"):
                    first = lp["pat"]["pats"][0]
                    if first.get("k") == "PBind":
                        ids.add(first["id"])
                return ids
            if loops and i.get("k") == "Path" and any(i.get("id") in loop_index_ids(lp) for lp in loops):
                rep.ok("R-TOL-INDEX", key, "indexed by the component loop variable", nontrivial=False)
            elif not loops and i.get("k") == "Path" and i.get("id") in {p_.get("id") for p_ in b.get("params", [])}:
                # a helper that computes one component's scale: the index is its parameter, the obligation moves to the callers
                pos = [p_.get("id") for p_ in b.get("params", [])].index(i.get("id"))
                bad_call, n_calls = None, 0
                for cb in f.body_list:
                    for c, cparents in tast.find_with_parents(cb["body"], lambda z: z.get("k") in ("Call", "MethodCall") and (z.get("def") or "") == b["def"]):
                        args = ([c["recv"]] if c.get("k") == "MethodCall" else []) + list(c["args"])
                        if pos >= len(args):
                            continue
                        n_calls += 1
                        a_ = args[pos]
                        cl = [p_ for p_ in cparents if p_.get("k") == "For" or (p_.get("k") == "Closure" and p_.get("params"))]
                        okc = a_.get("k") == "Path" and (any(a_.get("id") in loop_index_ids(lp) for lp in cl)
                                                          or a_.get("id") in {p_.get("id") for p_ in cb.get("params", [])})
                        if not okc and bad_call is None:
                            bad_call = (c, cb["def"])
                if bad_call:
                    rep.violation("R-TOL-INDEX", key, "the helper indexes a tolerance by its parameter `%s`, and %s passes `%s` there, which is not the induction variable of an enclosing component loop"
                                  % (tast.render(i), bad_call[1], tast.render((([bad_call[0]["recv"]] if bad_call[0].get("k") == "MethodCall" else []) + list(bad_call[0]["args"]))[pos])[:30]), bad_call[0].get("sp"))
                elif n_calls == 0:
                    rep.inconc("R-TOL-INDEX", key, "a tolerance is indexed by the parameter `%s` of a helper that no analysed function calls" % tast.render(i), ix.get("sp"))
                else:
                    rep.ok("R-TOL-INDEX", key, "indexed by the helper's parameter; all %d call site(s) pass their component loop variable" % n_calls, nontrivial=False)
            elif not loops and i.get("k") == "Lit":
                # a representative component outside any loop (Radau: Newton tolerance from rtol[0], as in RADAU5)
                rep.ok("R-TOL-INDEX", key, "fixed component %s outside component loops" % i.get("v"), nontrivial=False)
            else:
                rep.violation("R-TOL-INDEX", key, "a tolerance is indexed by `%s` inside a loop over `%s`: component i is not scaled by its own tolerance"
                              % (tast.render(i), (loops[-1].get("pat") or {}).get("name", "?") if loops else "?"), ix.get("sp"))
        # a fixed component read outside the loops (Radau's Newton tolerance from rtol[0]) must stay a scalar control
        # parameter: nothing derived from it may be used inside a loop that scales components by their own tolerance
        fixed = [ix for ix, parents in tast.find_with_parents(b["body"], is_tol_index)
                 if ix["i"].get("k") == "Lit" and not [p for p in parents if p.get("k") == "For"]]
        if fixed:
            tainted = set()
            lets = tast.find(b["body"], lambda z: z.get("k") == "Let" and z.get("init") is not None and z["pat"].get("k") == "PBind")
            changed = True
            while changed:
                changed = False
                for l in lets:
                    if l["pat"]["id"] in tainted:
                        continue
                    if tast.contains(l["init"], lambda q: any(q is fx for fx in fixed) or (q.get("k") == "Path" and q.get("id") in tainted)):
                        tainted.add(l["pat"]["id"])
                        changed = True
            comp_loops = [lp for lp in tast.find(b["body"], lambda z: z.get("k") == "For")
                          if tast.contains(lp["body"], lambda q: is_tol_index(q) and q["i"].get("k") == "Path" and q["i"].get("id") == lp["pat"].get("id"))]
            for lp in comp_loops:
                uses = tast.find(lp["body"], lambda q: (q.get("k") == "Path" and q.get("id") in tainted) or any(q is fx for fx in fixed))
                key = "R-TOL-INDEX:%s:fixed-component-in-loop" % b["def"]
                if uses:
                    rep.violation("R-TOL-INDEX", key, "`%s` derives from the tolerance of one fixed component (%s) and is used inside the loop over `%s` that scales every component by its own tolerance: "
                                  "all components are then controlled by that one entry" % (tast.render(uses[0]), tast.render(fixed[0]), lp["pat"].get("name")), uses[0].get("sp"))
                    break
            else:
                rep.ok("R-TOL-INDEX", "R-TOL-INDEX:%s:fixed-component" % b["def"], "%d fixed-component read(s) stay outside the %d per-component loop(s)" % (len(fixed), len(comp_loops)))
    if n < 15:
        rep.inconc("R-TOL-INDEX", "R-TOL-INDEX:floor", "only %d tolerance index sites found" % n)
    else:
        rep.nontrivial.add("R-TOL-INDEX:%d-sites" % n)


def r_accept_one(rep, f):
    """the accept test compares the error norm with the literal 1"""
    for mod, ty in CONTROLLED:
        fn = solve_fn(mod, ty)
        b = f.body(fn)
        key = "R-ACCEPT-ONE:%s" % fn
        hk = rk.StepHooks(b["body"])
        cands = []
        if hk.accept_if is not None:
            cands.append((hk.accept_if["cond"], "accept" if hk.accept_branch == "then" else "reject"))
        else:
            # mirrored form: `if norm > 1.0 { reject; continue }` directly before `accepted += 1`
            main = main_loop_of(b)
            for i_ in tast.find(main, lambda z: z.get("k") == "If" and z["cond"].get("k") == "Binary" and z["cond"]["op"] in ("Gt", "Ge")
                                and z["cond"]["r"].get("k") == "Lit" and tast.contains(z["then"], lambda q: q.get("k") == "Continue")
                                and tast.contains(z["then"], lambda q: tast.is_field_write(q, "Steps::rejected"))):
                cands.append((i_["cond"], "reject"))
        if len(cands) != 1:
            rep.inconc("R-ACCEPT-ONE", key, "accept test not identified (%d candidates)" % len(cands))
            continue
        c, kind = cands[0]
        while c.get("k") == "Unary" and c.get("op") == "Not":
            c = c["e"]
            kind = "reject" if kind == "accept" else "accept"
        if c.get("k") == "Path" and c.get("res") == "local" and c.get("ty") == "bool":
            lets = tast.find(b["body"], lambda z: z.get("k") == "Let" and z["pat"].get("id") == c.get("id") and z.get("init") is not None)
            assigns = tast.find(b["body"], lambda z: z.get("k") == "Assign" and z["l"].get("k") == "Path" and z["l"].get("id") == c.get("id"))
            if len(lets) == 1 and not assigns:
                c = lets[0]["init"]
        ok = False
        if c.get("k") == "Binary":
            lit = c["r"] if c["r"].get("k") == "Lit" else (c["l"] if c["l"].get("k") == "Lit" else None)
            if lit is not None and Fraction(lit["v"].replace("_", "")) == 1:
                if kind == "accept":
                    ok = (c["op"] in ("Le", "Lt") and lit is c["r"]) or (c["op"] in ("Ge", "Gt") and lit is c["l"])
                else:
                    ok = (c["op"] in ("Gt", "Ge") and lit is c["r"]) or (c["op"] in ("Lt", "Le") and lit is c["l"])
        if ok:
            rep.ok("R-ACCEPT-ONE", key, "`%s` (%s edge)" % (tast.render(c), kind))
        else:
            rep.violation("R-ACCEPT-ONE", key, "the step is %sed under `%s`; it must be accepted exactly when the normalised error is <= 1" % (kind, tast.render(c)), c.get("sp"))


# ------------------------------------------------------------------------------------------ grading
def make_grader(sx, facts_obj=None, extra=None):
    int_names = set()
    for k, ty in sx.key_ty.items():
        if ty and ("usize" in ty or "i32" in ty or "bool" in ty):
            int_names.add(sx.names.get(k, k).split(".")[0])
    extra = extra or {}

    def base_name(a):
        return re.split(r"[~@#\[]", a)[0]

    def atom_grade(a):
        if a in extra:
            return extra[a]
        if a.startswith(("const:core::f64::", "const:std::f64::", "const:core::f32::")):
            return POLY      # EPSILON, MIN_POSITIVE, ...: literal constants (grade-polymorphic floors)
        if a.startswith(("it#", "unk#", "elem#")) or a.startswith("proj[it#") or "proj[it#" in a[:40]:
            return UNKNOWN
        if a.startswith("len(") or a.startswith("len["):
            return (Fraction(1), Fraction(0))
        if FRE.match(a) or a in ("Y", "YM"):
            return (Fraction(0), Fraction(1))
        if a in ("X", "XM", "xend", "x0", "true", "false", "unit") or a.startswith(("self.", "const:", "def:", "ref:", "mutref", "mutrecv", "signum[", "flag:", "closure[", "lit[")):
            return (Fraction(0), Fraction(0))
        bn = base_name(a)
        if BUFATOM.match(a):
            if bn in int_names:
                return POLY
            if bn.startswith("rtol"):
                return (Fraction(0), Fraction(0))
            d = DEFS.get(a)
            if d and d[0] in ("callout", "widen", "phi"):
                return "recurse"
            return (Fraction(0), Fraction(1))
        if a in DEFS:
            return "recurse"
        if bn in int_names or ATOM_TY.get(a) in ("usize", "u32", "i32", "bool"):
            return POLY
        # plain scalar locals / parameters (h, posneg, x, config values)
        return (Fraction(0), Fraction(0))

    def call_grade(op, gs, args, atom):
        base = op.split(":")[0]
        if base == "callout" or op.startswith("call:matrix::linear::lin_solve"):
            # a linear solve returns something of the grade of its right-hand side(s); factor matrices / pivots are scale-free
            real = [g for g in gs if g not in (POLY, UNKNOWN) and g != (0, 0)]
            if any(g == BAD for g in real):
                return UNKNOWN
            if not real:
                return UNKNOWN
            # heuristic summary of an opaque call: when its inputs disagree the grade is simply not determined
            return real[0] if all(g == real[0] for g in real) else UNKNOWN
        if op.startswith("call:methods::bdf::weighted_rms_scaled") and len(gs) >= 2:
            a_, b_ = gs[0], gs[1]
            if a_ in (BAD, UNKNOWN) or b_ in (BAD, UNKNOWN):
                return UNKNOWN
            if a_ is POLY or b_ is POLY:
                return UNKNOWN
            return (a_[0] - b_[0], a_[1] - b_[1])
        if base == "call" and ("unwrap_or" in op or "map_or" in op or "Option" in op):
            return (Fraction(0), Fraction(0))
        if op.startswith("call:methods::hinit"):
            return (Fraction(0), Fraction(0))     # its own homogeneity is R-GRADE-COPIES:methods::hinit
        if base in ("struct", "tuple", "array", "closure", "matches", "and", "or", "not", "is_nan", "is_finite"):
            return (Fraction(0), Fraction(0))
        return UNKNOWN
    return Grader(atom_grade, call_grade)


def r_grade_norm_helpers(rep, f):
    """error-norm helpers called by the solvers (BDF's weighted_rms_scaled): the result is a per-component RMS norm -
    degree 0 in the state scale and in the number of copies, and every sum over components adds dimensionless terms
    (each component is divided by its own scale before the reduction)"""
    helpers = []
    for mod, ty in CONTROLLED:
        b = f.body(solve_fn(mod, ty))
        for c in tast.find(b["body"], lambda z: z.get("k") == "Call" and (z.get("def") or "").startswith("methods::") and (z.get("ty") in ("f64",))
                           and len(z.get("args", [])) == 2 and all("[f64]" in (a_.get("ty") or "") or "Vec<f64>" in (a_.get("ty") or "") for a_ in z["args"])):
            if c["def"] in f.bodies and c["def"] not in helpers:
                helpers.append(c["def"])
    for fn in helpers:
        b = f.bodies[fn]
        key = "R-GRADE:%s:norm" % fn
        rep.fn(fn)
        sx = SymExec(f, fn, Hooks())
        sx.bind_params()
        ret = sx.eval(b["body"])
        ps = [p_ for p_ in b["params"] if p_.get("k") == "PBind"]
        if len(ps) != 2 or not isinstance(ret, Poly):
            rep.inconc("R-GRADE", key, "helper shape not understood")
            continue
        if sx.imprecise:
            rep.inconc("R-GRADE", key, "the helper contains a construct the interpreter cannot follow (%s)" % sx.imprecise[0][0])
            continue
        extra = {}
        for p_ in ps:
            extra["%s@0" % p_["name"]] = (Fraction(0), Fraction(1))
        g = make_grader(sx, extra=extra)
        g.strict_sum = True
        gr = g.poly(ret)
        if gr == (0, 0):
            rep.ok("R-GRADE", key, "%s is a per-component RMS norm: degree 0 in scale and copies, sums of dimensionless terms only" % fn.split("::")[-1])
        elif gr == UNKNOWN:
            rep.inconc("R-GRADE", key, "grade of %s's result not determined (%s)" % (fn.split("::")[-1], g.unknown_atoms[:2]))
        else:
            why = g.issues[-1][1] if g.issues else grade.fmt(gr)
            rep.violation("R-GRADE", key, "%s is not a per-component RMS norm: %s" % (fn.split("::")[-1], why[:400]), b.get("sp"))


def bare_derivative(p, depth=0):
    """a stage derivative F_j that enters p (through abs/max/min/joins) without being multiplied by a step: in a state-like
    quantity every f(x, y) value carries a factor h (y + h*sum a_j F_j); a bare F_j has the dimension state/time"""
    if not isinstance(p, Poly) or depth > 8:
        return None
    for m, c in p.t.items():
        fs = [a for a, e in m if STAGE_ATOM.match(a) and e > 0]
        if fs and len(m) == 1 and m[0][1] == 1:
            return fs[0]
        for a, e in m:
            d = DEFS.get(a)
            if d and d[0].split(":")[0] in ("abs", "max", "min", "phi", "neg", "clamp"):
                for x in d[1]:
                    r = bare_derivative(x, depth + 1)
                    if r:
                        return r
    return None


def _rtol_only(a, depth=0):
    """atom computed from the relative tolerance alone (rtol, rtol^(2/3), ...): scale-free"""
    if a.startswith("rtol"):
        return True
    d = DEFS.get(a)
    if not d or depth > 6:
        return False
    args = [x for x in d[1] if isinstance(x, Poly)]
    return bool(args) and all(x.is_const() or (x.atoms() and all(_rtol_only(b, depth + 1) for b in x.atoms())) for x in args) \
        and any(not x.is_const() for x in args)


def tol_form(p):
    """a tolerance scale built from the raw tolerances has the shape  atol*g(rtol) + h(rtol)*|state|: the absolute tolerance
    is never multiplied by a state quantity, the relative tolerance always is.  Returns a description of the first monomial
    that does not."""
    for m, c in p.t.items():
        at = [a for a, e in m if a.startswith("atol")]
        rt = [a for a, e in m if not a.startswith("atol") and _rtol_only(a)]
        rest = [a for a, e in m if not a.startswith("atol") and not _rtol_only(a)]
        if at and rest:
            return "the absolute tolerance %s is multiplied by %s" % (at[0], rest[0][:60])
        if rt and not at and not rest:
            return "the relative tolerance %s is added bare (not multiplied by a state magnitude)" % rt[0]
    return None


def r_grade_solvers(rep, f):
    """the accept operand is scale-free and copy-free; every tolerance scale has the grade of the state"""
    for mod, ty in CONTROLLED:
        fn = solve_fn(mod, ty)
        try:
            variants = rk.analyse_variants(f, fn)
        except rk.AnalysisError as e:
            rep.inconc("R-GRADE", "R-GRADE:%s" % fn, str(e))
            continue
        tag, sx, hk = variants[0]
        g = make_grader(sx)
        # (a) tolerance scales
        seen = set()
        for d in hk.divs:
            den = d["den"]
            at = den.atoms()
            if not (any(a.startswith("atol") for a in at) and any(a.startswith("rtol") for a in at)):
                continue
            sig = repr(den)[:200]
            if sig in seen:
                continue
            seen.add(sig)
            gd = g.poly(den)
            key = "R-GRADE-SCALE:%s:tolerance-scale%d" % (fn, len(seen))
            bd = bare_derivative(den)
            tf = tol_form(den)
            if tf:
                rep.violation("R-GRADE-SCALE", key, "the tolerance scale `%s` is not of the form atol + rtol*|y|: %s" % (sig[:120], tf), d["node"].get("sp") if d.get("node") else None)
            elif bd:
                rep.violation("R-GRADE-SCALE", key, "the tolerance scale `%s` contains the bare right-hand-side value %s (a slope, dimension state/time) where a state value belongs: "
                              "the relative tolerance is then applied to |y'| instead of |y|" % (sig[:120], bd), d["node"].get("sp") if d.get("node") else None)
            elif gd == (0, 1):
                rep.ok("R-GRADE-SCALE", key, "scale %s has the grade of the state" % sig[:80])
            elif gd == UNKNOWN:
                rep.note("%s grade of %s not determined" % (key, sig[:80]))
            else:
                why = g.issues[-1][1] if g.issues else grade.fmt(gd)
                rep.violation("R-GRADE-SCALE", key, "the tolerance scale `%s` is not homogeneous of degree 1 in the state (atol + rtol*|y|): %s" % (sig[:120], why), d["node"].get("sp") if d.get("node") else None)
        def alternatives(p, depth=0):
            """a value that is a join (`if tol == 0.0 { EPSILON } else { tol }`) stands for each of its alternatives"""
            a_ = p.single_atom() if isinstance(p, Poly) else None
            d_ = DEFS.get(a_) if a_ else None
            if d_ and d_[0] == "phi" and depth < 3:
                for x_ in d_[1]:
                    if isinstance(x_, Poly):
                        yield from alternatives(x_, depth + 1)
            elif isinstance(p, Poly):
                yield p
        stores = []
        for ev in sx.trace:
            if ev["kind"] == "store" and isinstance(ev["value"], Poly):
                for alt in alternatives(ev["value"]):
                    stores.append((ev, alt))
        for ev, den in stores:
            if True:
                at = den.atoms()
                if any(a.startswith("atol") for a in at) and any(a.startswith("rtol") for a in at):
                    sig = repr(den)[:200]
                    if sig in seen:
                        continue
                    seen.add(sig)
                    gd = g.poly(den)
                    key = "R-GRADE-SCALE:%s:tolerance-scale%d" % (fn, len(seen))
                    tf = tol_form(den)
                    if tf:
                        rep.violation("R-GRADE-SCALE", key, "the tolerance scale `%s` is not of the form atol + rtol*|y|: %s" % (sig[:120], tf), ev["node"].get("sp") if isinstance(ev.get("node"), dict) else hk.main_loop.get("sp"))
                    elif gd == (0, 1):
                        rep.ok("R-GRADE-SCALE", key, "scale %s has the grade of the state" % sig[:80])
                    elif gd == UNKNOWN:
                        rep.note("%s grade of %s not determined" % (key, sig[:80]))
                    else:
                        why = g.issues[-1][1] if g.issues else grade.fmt(gd)
                        rep.violation("R-GRADE-SCALE", key, "the tolerance scale `%s` is not homogeneous of degree 1 in the state (atol + rtol*|y|): %s" % (sig[:120], why), hk.main_loop.get("sp"))
        # an absolute floor / ceiling on a tolerance scale (scale.max(EPS), scale.min(c)) breaks the homogeneity the scale has:
        # scaling state and atol by 2^-k moves the scale below the floor. Replacing an exact zero is fine (phi, not max).
        from poly import reaches as _reaches
        floored = None
        for ev in sx.trace:
            v_ = ev.get("value") if ev["kind"] in ("store", "assign") else None
            a_ = v_.single_atom() if isinstance(v_, Poly) else None
            d_ = DEFS.get(a_) if a_ else None
            if not d_ or d_[0] not in ("max", "min", "clamp"):
                continue
            args_ = [x for x in d_[1] if isinstance(x, Poly)]
            tol_args = [x for x in args_ if any(at.startswith("atol") for at in x.atoms()) and any(at.startswith("rtol") for at in x.atoms())]
            consts = [x for x in args_ if (x.is_const() and x.const_value() != 0) or (x.single_atom() or "").startswith("const:")]
            if tol_args and consts and floored is None:
                floored = (ev, d_[0], tol_args[0], consts[0])
        if floored:
            ev, op_, ta_, c_ = floored
            rep.violation("R-GRADE-SCALE", "R-GRADE-SCALE:%s:absolute-floor" % fn, "the tolerance scale `%s` is combined by %s with the absolute constant %r: below that constant the scale no longer follows "
                          "atol + rtol*|y|, so rescaling state and atol by a power of two changes the step sequence" % (repr(ta_)[:80], op_, c_),
                          ev["node"].get("sp") if isinstance(ev.get("node"), dict) else hk.main_loop.get("sp"))
        else:
            rep.ok("R-GRADE-SCALE", "R-GRADE-SCALE:%s:absolute-floor" % fn, "no tolerance scale is floored or capped by an absolute constant", nontrivial=False)
        if not seen:
            rep.inconc("R-GRADE-SCALE", "R-GRADE-SCALE:%s" % fn, "no tolerance scale found")
        # (b) accept operand: every path variant that reaches the acceptance test has its own operand (a refined norm, a
        # norm computed on another branch); each distinct one is graded
        seen_E = set()
        for tag, sx, hk in variants:
            g = make_grader(sx)
            if r_grade_accept(rep, f, fn, sx, hk, g, seen_E) == 'stop':
                break
        if not seen_E:
            rep.inconc("R-GRADE", "R-GRADE:%s:accept-operand" % fn, "accept condition not found")


def r_grade_accept(rep, f, fn, sx, hk, g, seen_E):
    cond = None
    acc = hk.accept_if
    for ev in sx.trace:
        if ev["kind"] == "if" and acc is not None and ev["node"] is acc:
            cond = ev["cond"]
    if cond is None:
        # BDF: error_norm > 1.0
        for ev in sx.trace:
            if ev["kind"] == "if" and isinstance(ev["cond"], Poly):
                a = ev["cond"].single_atom()
                if a and a in DEFS and DEFS[a][0] in ("gt", "ge") and isinstance(DEFS[a][1][1], Poly) and DEFS[a][1][1].const_value() == 1 \
                        and tast.contains(ev["node"]["then"], lambda q: tast.is_field_write(q, "Steps::rejected")):
                    cond = ev["cond"]
    key = "R-GRADE:%s:accept-operand" % fn
    if cond is None or cond.single_atom() not in DEFS:
        return None
    op, xs = DEFS[cond.single_atom()]
    E = xs[0] if not (isinstance(xs[0], Poly) and xs[0].is_const()) else xs[1]
    sig_E = re.sub(r"#\d+", "#", repr(E))
    if sig_E in seen_E:
        return None
    if seen_E:
        key = key + ":variant%d" % (len(seen_E) + 1)
    seen_E.add(sig_E)
    g.issues.clear()
    g.strict_sum = True      # an error norm divides each component by its own scale BEFORE summing
    g.memo.clear()
    ge = g.poly(E)
    if ge == (0, 0):
        rep.ok("R-GRADE", key, "the normalised error is homogeneous of degree 0 in the state scale and in the number of copies (RMS norm)")
    elif ge == UNKNOWN:
        rep.note("%s grade of the accept operand not determined (opaque: %s)" % (key, sorted(set(g.unknown_atoms))[:3]))
        rep.ok("R-GRADE", key + ":partial", "no grade inconsistency found in the accept operand", nontrivial=False)
        # the degree in the number of COPIES does not need the opaque values: whatever a linear solve or a helper returns
        # per component is the same in every copy (degree 0); only sums over the components and the length carry degree 1
        g2 = make_grader(sx)
        ag_, cg_ = g2.atom_grade, g2.call_grade

        def flat(x):
            if x == UNKNOWN:
                return (Fraction(0), Fraction(0))
            return (x[0], Fraction(0)) if isinstance(x, tuple) else x
        # (only stored values - buffer elements, stage values - get the default; iterator items and other unknowns stay
        # unknown: an accumulation over an iterator is a reduction the grading cannot see)
        g2.atom_grade = lambda a: (flat(ag_(a)) if (ag_(a) != UNKNOWN or BUFATOM.match(a) or FRE.match(a)) else UNKNOWN)
        def flat_call(op, gs, args, atom):
            r_ = cg_(op, gs, args, atom) if cg_ is not None else UNKNOWN
            # an opaque helper may be a reduction over the components (degree 1) or a norm (degree 0): not decided here;
            # what a linear solve hands back per component is the same in every copy
            if r_ == UNKNOWN and op.startswith("call:") and not op.startswith("call:matrix::linear::"):
                return UNKNOWN
            return flat(r_)
        g2.call_grade = flat_call
        gc = g2.poly(E)
        kc = "R-GRADE:%s:accept-operand:copies" % fn
        if isinstance(gc, tuple) and gc[0] == 0 or gc is None:
            rep.ok("R-GRADE", kc, "the normalised error has degree 0 in the number of copies (sums over the components are divided by the length before the root)")
        elif gc == UNKNOWN:
            rep.note("%s degree in the number of copies not determined" % kc)
        else:
            why = g2.issues[-1][1] if g2.issues else ""
            rep.violation("R-GRADE", kc, "the quantity compared with 1 in the accept test has degree %s in the number of copies%s: duplicating the system changes which steps are accepted"
                          % (gc[0] if isinstance(gc, tuple) else "that differs between its alternatives", (" - " + why) if why else ""), (acc or hk.main_loop).get("sp"))
    elif rk.imprecise_in_main(sx, hk):
        rep.inconc("R-GRADE", key, "the accept operand is computed by a construct the interpreter cannot follow (%s)" % rk.imprecise_in_main(sx, hk)[0])
    else:
        why = g.issues[-1][1] if g.issues else ""
        rep.violation("R-GRADE", key, "the quantity compared with 1 in the accept test has grade %s%s: it changes when the state is rescaled or the system is duplicated"
                      % (grade.fmt(ge), (" - " + why) if why else ""), (acc or hk.main_loop).get("sp"))


def r_grade_branches(rep, f):
    """every comparison that steers the step loop relates quantities of the same state-scale degree (or tests against zero):
    a threshold of a different degree makes the branch taken depend on the units of the state"""
    CMP = ("lt", "le", "gt", "ge")
    total = 0
    for mod, ty in CONTROLLED:
        fn = solve_fn(mod, ty)
        try:
            variants = rk.analyse_variants(f, fn)
        except rk.AnalysisError as e:
            rep.inconc("R-GRADE-BRANCH", "R-GRADE-BRANCH:%s" % fn, str(e))
            continue
        seen, bad, n_ok = set(), [], 0
        for tag, sx, hk in variants:
            g = make_grader(sx)

            def walk(c, node):
                nonlocal n_ok
                a = c.single_atom() if isinstance(c, Poly) else None
                d = DEFS.get(a) if a else None
                if not d:
                    return
                if d[0] in ("and", "or", "not"):
                    for x in d[1]:
                        walk(x, node)
                    return
                if d[0] not in CMP or len(d[1]) != 2:
                    return
                l, r = d[1]
                if not (isinstance(l, Poly) and isinstance(r, Poly)):
                    return
                sig = (node.get("sp"), a)
                if sig in seen:
                    return
                seen.add(sig)
                if (l.is_const() and l.const_value() == 0) or (r.is_const() and r.const_value() == 0):
                    n_ok += 1
                    return
                g.issues.clear()
                gl, gr = g.poly(l), g.poly(r)
                if gl in (BAD, UNKNOWN) or gr in (BAD, UNKNOWN) or (gl is POLY and gr is POLY):
                    return
                dl = gl[1] if gl is not POLY else Fraction(0)
                dr = gr[1] if gr is not POLY else Fraction(0)
                if dl != dr:
                    bad.append((node, a, l if dl else r, dl or dr, r if dl else l))
                else:
                    n_ok += 1
            for ev in sx.trace:
                if ev["kind"] == "if" and ev.get("cond") is not None and hk.main_loop is not None and tast.contains(hk.main_loop, lambda q, n=ev["node"]: q is n):
                    walk(ev["cond"], ev["node"])
        total += n_ok + len(bad)
        key = "R-GRADE-BRANCH:%s" % fn
        rep.fn(fn)
        if bad:
            node, a, big, deg, other = bad[0]
            rep.violation("R-GRADE-BRANCH", key, "a branch of the step loop compares %s (degree %s in the state scale) with %s (degree 0, not zero): "
                          "rescaling the state changes which way it goes" % (repr(big)[:100], deg, repr(other)[:60]), node.get("sp"))
        else:
            rep.ok("R-GRADE-BRANCH", key, "%d loop branch comparison(s) relate operands of equal state-scale degree or test against zero" % n_ok)
    if total < 20:
        rep.inconc("R-GRADE-BRANCH", "R-GRADE-BRANCH:floor", "only %d branch comparisons graded" % total)


def r_tol_route(rep, f):
    """solve_ivp hands Options::rtol to the stepper parameter called rtol and Options::atol to atol, for every method:
    the error controllers compute atol + rtol*|y| from what they are given, so swapped arguments scale the wrong term"""
    sv = f.bodies.get("solve::solve_ivp::solve_ivp")
    if sv is None:
        rep.inconc("R-TOL-ROUTE", "R-TOL-ROUTE:solve_ivp", "solve_ivp not found")
        return
    rep.fn(sv["def"])
    n = 0
    for mod, ty in SOLVERS:
        d = solve_fn(mod, ty)
        cb = f.bodies.get(d)
        if cb is None:
            continue
        pnames = [p_.get("name") for p_ in cb.get("params", [])]
        if "rtol" not in pnames or "atol" not in pnames:
            continue
        calls = [c for c in tast.find(sv["body"], lambda z: z.get("k") in ("MethodCall", "Call") and z.get("def") == d)]
        for c in calls:
            n += 1
            args = ([c["recv"]] if c.get("k") == "MethodCall" else []) + list(c["args"])
            key = "R-TOL-ROUTE:solve_ivp:%s" % ty
            probs = []
            for want in ("rtol", "atol"):
                idx = pnames.index(want)
                if idx >= len(args):
                    probs.append("argument for `%s` not found" % want)
                    continue
                a = args[idx]
                src = a
                for _ in range(3):
                    while src.get("k") in ("AddrOf", "DropTemps", "Paren") or (src.get("k") == "MethodCall" and src.get("name") in ("clone", "to_owned", "into") and not src.get("args")):
                        src = src["e"] if src.get("k") != "MethodCall" else src["recv"]
                    if src.get("k") == "Path" and src.get("res") == "local":
                        lets = tast.find(sv["body"], lambda z: z.get("k") == "Let" and z["pat"].get("k") == "PBind" and z["pat"].get("id") == src.get("id") and z.get("init") is not None)
                        if len(lets) == 1:
                            src = lets[0]["init"]
                            continue
                    break
                fields = [q.get("name") for q in tast.find(src, lambda z: z.get("k") == "Field" and (z.get("fdef") or "").startswith("solve::options::Options::"))]
                if fields != [want]:
                    probs.append("the stepper's `%s` receives `%s` (Options fields: %s)" % (want, tast.render(a)[:40], fields or "none"))
            if probs:
                rep.violation("R-TOL-ROUTE", key, "; ".join(probs), c.get("sp"))
            else:
                rep.ok("R-TOL-ROUTE", key, "Options::rtol -> rtol, Options::atol -> atol")
    if n < 5:
        rep.inconc("R-TOL-ROUTE", "R-TOL-ROUTE:floor", "only %d stepper calls with tolerances found in solve_ivp (expected 5)" % n)


def r_grade_hinit(rep, f):
    fn = "methods::hinit"
    b = f.bodies.get(fn)
    key = "R-GRADE-COPIES:%s" % fn
    if b is None:
        rep.inconc("R-GRADE-COPIES", key, "hinit not found")
        return
    rep.fn(fn)

    class HH(Hooks):
        def call(self, sx, node, d):
            if d == "ivp::IVP::ode" and node["k"] == "MethodCall":
                lv = sx.lvalue(node["args"][2])
                if lv[0] == "key":
                    sx.st[lv[1]] = Buf("F1", {0: Poly.atom("F1")})
                return Poly.atom("unit")
            return NotImplemented
    sx = SymExec(f, fn, HH())
    sx.bind_params()
    ret = sx.eval(b["body"])
    extra = {"f0@0": (Fraction(0), Fraction(1)), "y@0": (Fraction(0), Fraction(1)), "f1@0": (Fraction(0), Fraction(1)), "y1@0": (Fraction(0), Fraction(1)),
             "iord": (Fraction(0), Fraction(0)), "hmax": (Fraction(0), Fraction(0)), "posneg": (Fraction(0), Fraction(0)), "x": (Fraction(0), Fraction(0))}
    g = make_grader(sx, extra=extra)
    # iord is a plain positive constant: powf with exponent 1/iord keeps degree-0 quantities degree 0 and scales others
    orig_by_def = g.by_def

    def by_def(a, depth):
        d = DEFS.get(a)
        if d and d[0] == "powf" and len(d[1]) == 2:
            base = g.poly(d[1][0], depth + 1)
            if base in (BAD, UNKNOWN, POLY) or base == (0, 0):
                return base
            # non-constant exponent 1/iord: degrees are divided by iord (symbolically: still non-zero)
            return (base[0] / 4, base[1] / 4)
        return orig_by_def(a, depth)
    g.by_def = by_def
    gr = g.poly(ret) if isinstance(ret, Poly) else UNKNOWN
    if gr == (0, 0):
        rep.ok("R-GRADE-COPIES", key, "the automatic initial step is independent of the number of copies and of the state scale")
    elif gr == UNKNOWN:
        rep.inconc("R-GRADE-COPIES", key, "grade of hinit's result not determined")
    else:
        why = g.issues[-1][1] if g.issues else ""
        rep.violation("R-GRADE-COPIES", key, "the automatic initial step mixes quantities of different homogeneity (%s): the norms are plain sums over the components, not RMS norms, so the "
                      "second-derivative estimate grows like sqrt(#copies) and the first step depends on how many identical copies of the system are integrated" % (why[:200] or grade.fmt(gr)), b.get("sp"))


# ------------------------------------------------------------------------------------------ R-PARITY
STAGE_ATOM = re.compile(r"^F\d+(@\d+)?$")   # values of the right-hand side (dy/dx): odd under time reflection


def parity_fn(odd, even=(), state_even=False):
    """parity of a symbolic value under time reflection given the atoms assumed odd. Constants are even; opaque scalar
    functions of consistent arguments are even; abs/sqrt/sum/comparisons of a value of definite parity are even; a join,
    min or max takes the common parity of its non-constant inputs and is `mixed` when they differ. `mixed` is contagious:
    |odd + even| is not invariant under reflection, so abs() does not launder it. An atom that (through a loop-carried
    definition) refers back to itself contributes nothing to a join (None)."""
    memo = {}
    INPROGRESS = object()
    why = []
    stage_memo = {}

    def has_stage(a, depth=0):
        """does the definition of atom a involve values of the right-hand side?"""
        if a in stage_memo:
            return stage_memo[a]
        stage_memo[a] = False
        r = bool(STAGE_ATOM.match(a))
        d_ = DEFS.get(a)
        if not r and d_ and depth < 40:
            r = any(has_stage(b, depth + 1) for x in d_[1] if isinstance(x, Poly) for b in x.atoms())
        stage_memo[a] = r
        return r

    def par_atom(a, depth=0):
        if a in memo:
            v = memo[a]
            return None if v is INPROGRESS else v
        if a in odd or (a not in even and STAGE_ATOM.match(a)):
            memo[a] = "odd"
            return "odd"
        if a in even or a not in DEFS or depth >= 60:
            memo[a] = "even"
            return "even"
        memo[a] = INPROGRESS
        op, xs = DEFS[a]
        args = [x for x in xs if isinstance(x, Poly)]
        base = op.split(":")[0]
        ps = [par(x, depth + 1) for x in args if not x.is_const()]
        if base == "call" and op.startswith("call:methods::hinit"):
            # the automatic first step is a signed step (R-PARITY:methods::hinit checks that it is)
            r = "odd"
        elif base == "clamp" and len(args) == 3 and (args[1] + args[2]).is_zero():
            # symmetric clamp(v, -M, M) keeps the parity of v
            r = par(args[0], depth + 1) or "even"
        elif state_even and base not in ("signum", "inv", "neg", "vec", "idx", "proj", "unwrap", "armval", "Some", "elt", "phi", "widen", "max", "min", "clamp", "powf", "powi") and has_stage(a):
            # a magnitude computed from state values (norms, sums of squares of state differences): states do not change
            # under time reflection. The stage model's polynomial right-hand side is not reflection-closed, so the
            # arguments are not inspected.
            r = "even"
        elif any(p_ == "mixed" for p_ in ps):
            r = "mixed"
        elif base in ("signum", "inv", "neg", "vec", "idx", "proj", "unwrap", "armval", "Some", "elt", "sum"):
            # linear / sign-preserving in their argument (a sum over components is linear)
            r = ps[0] if ps and ps[0] is not None else "even"
        elif base in ("phi", "widen", "max", "min", "clamp"):
            known = {p_ for p_ in ps if p_ is not None}
            r = known.pop() if len(known) == 1 else ("even" if not known else "mixed")
            if r == "odd" and base in ("max", "min", "clamp"):
                # min(-a, -b) = -max(a, b): ordering signed quantities is not reflection-symmetric
                r = "mixed"
            if r == "mixed" and not why:
                why.append("%s of %s" % (base, ["%s: %s" % (par(x, depth + 1), repr(x)[:90]) for x in args if not x.is_const()][:4]))
        elif base in ("powf", "powi"):
            r = "even" if (not ps or ps[0] in ("even", None)) else "mixed" if base == "powf" else ps[0]
        else:
            # abs, sqrt, sum of squares, comparisons, opaque scalar functions (norms, callee results): even
            r = "even"
        memo[a] = r
        return r

    def par(p, depth=0):
        ps = set()
        for m, c in p.t.items():
            k = 0
            for a, e in m:
                pa = par_atom(a, depth)
                if pa == "mixed":
                    return "mixed"
                if pa is None:
                    k = None
                    break
                if pa == "odd":
                    k += abs(e)
            if k is None:
                continue
            ps.add("odd" if k % 2 else "even")
        if not ps:
            return None if p.t and not p.is_const() else "even"
        if len(ps) > 1 and not why:
            why.append("sum of terms of different parity: %s" % repr(p)[:200])
        return ps.pop() if len(ps) == 1 else "mixed"
    par.why = why
    par.has_stage = has_stage
    return par


def r_parity_hinit(rep, f):
    """the automatic first step under time reflection: the probe abscissa offset and the returned step are odd, the probe
    state y + h*f0 is even (f is odd: dy/dx changes sign when x does)"""
    fn = "methods::hinit"
    b = f.bodies.get(fn)
    key = "R-PARITY:%s" % fn
    if b is None:
        rep.inconc("R-PARITY", key, "hinit not found")
        return
    rep.fn(fn)
    probes = []

    class HH(Hooks):
        def call(self, sx, node, d):
            if d == "ivp::IVP::ode" and node["k"] == "MethodCall":
                t = sx.eval(node["args"][0])
                lvy = sx.lvalue(node["args"][1])
                yb = sx.st.get(lvy[1]) if lvy[0] == "key" else None
                probes.append((node, t, yb.get(0) if isinstance(yb, Buf) else None))
                lv = sx.lvalue(node["args"][2])
                if lv[0] == "key":
                    sx.st[lv[1]] = Buf("F1", {0: Poly.atom("F1")})
                return Poly.atom("unit")
            return NotImplemented
    sx = SymExec(f, fn, HH())
    sx.bind_params()
    ret = sx.eval(b["body"])
    params = {p["name"] for p in b.get("params", []) if p.get("k") == "PBind"}
    need = {"x", "posneg", "f0"}
    if params and not need <= params:
        rep.inconc("R-PARITY", key, "hinit's parameters %s no longer include %s: the reflection model must be revisited" % (sorted(params), sorted(need)))
        return
    par = parity_fn({"x", "posneg", "f0@0", "F1", "f1@0"})
    probs = []
    n = 0
    if not probes:
        rep.inconc("R-PARITY", key, "no right-hand-side probe found in hinit")
        return
    for node, t, yv in probes:
        if isinstance(t, Poly):
            n += 1
            off = t - Poly.atom("x")
            if not off.is_zero() and par(off) != "odd":
                probs.append(("probe-abscissa", "the probe `%s` is made at x + (%r), an offset that is %s under time reflection: the probe does not follow the direction of integration" % (tast.render(node)[:80], off, par(off)), node))
        if isinstance(yv, Poly):
            n += 1
            if par(yv) != "even":
                probs.append(("probe-state", "the probe state is %r, which is %s under time reflection (state values must not change): the Euler step h*f0 uses a step without the direction" % (yv, par(yv)), node))
    if isinstance(ret, Poly):
        n += 1
        if par(ret) != "odd":
            probs.append(("result", "the returned step %s is %s under time reflection, it must change sign with the direction" % (repr(ret)[:200], par(ret)), b["body"]))
    for what, msg, node in probs:
        rep.violation("R-PARITY", "%s:%s" % (key, what), msg[:600], node.get("sp") if isinstance(node, dict) else None)
    if not probs:
        rep.ok("R-PARITY", key, "%d value(s) of hinit (probe abscissa, probe state, result) have the right parity under time reflection" % n)


def r_parity(rep, f):
    """time reflection (x0, xend, x, h, direction -> their negatives): the step taken, every stage offset and the
    step proposed for the next iteration change sign (or, for a magnitude-valued step variable, do not change)"""
    for mod, ty in SOLVERS:
        fn = solve_fn(mod, ty)
        key = "R-PARITY:%s" % fn
        try:
            variants = rk.analyse_variants(f, fn)
        except rk.AnalysisError as e:
            rep.inconc("R-PARITY", key, str(e))
            continue
        # the iteration after a rejected one: flags set to true where a step is rejected (`reject = true`) are false in the
        # state the analysis starts from, so the code they guard is analysed in a second pass with the flag assumed true
        body_ = f.body(fn)
        rej_flags = set()
        hk0 = variants[0][2] if variants else None
        acc_if = getattr(hk0, "accept_if", None)
        if acc_if is not None:
            rej_branch = acc_if.get("else") if getattr(hk0, "accept_branch", "then") == "then" else acc_if.get("then")
            if rej_branch is not None:
                for a_ in tast.find(rej_branch, lambda z: z.get("k") == "Assign" and z["l"].get("k") == "Path" and z["l"].get("ty") == "bool" and z["r"].get("k") == "Lit" and str(z["r"].get("v")).lower() == "true"):
                    rej_flags.add(a_["l"]["id"])
        if rej_flags:
            try:
                variants = list(variants) + [("after-reject," + t_, s_, h_) for t_, s_, h_ in
                                             rk.analyse_variants(f, fn, head_assume={k_: Poly.atom("true") for k_ in sorted(rej_flags)})]
            except rk.AnalysisError:
                pass
        probs = {}
        n = 0
        n_cond = set()
        # a plain parameter used as the signed step on some path (RK4's h) is a signed step on every path
        param_steps = set()
        for tag, sx, hk in variants:
            souts = [r for r in hk.solout_calls if r["in_main"]]
            if souts and isinstance(souts[0]["x"], Poly):
                for m, c in (souts[0]["x"] - Poly.atom("X")).t.items():
                    if len(m) == 1 and m[0][1] == 1 and m[0][0] not in DEFS and m[0][0] not in ("X", "xend", "x0"):
                        param_steps.add(m[0][0])
        for tag, sx, hk in variants:
            souts = [r for r in hk.solout_calls if r["in_main"]]
            if not souts or not isinstance(souts[0]["x"], Poly):
                continue
            step = souts[0]["x"] - Poly.atom("X")
            head_step = {}
            closure = set()
            stack = list(step.atoms())
            while stack:
                a_ = stack.pop()
                if a_ in closure:
                    continue
                closure.add(a_)
                d_ = DEFS.get(a_)
                if d_ and d_[0] == "phi":
                    for x_ in d_[1]:
                        if isinstance(x_, Poly):
                            stack.extend(x_.atoms())
            for k, v in (hk.head or {}).items():
                if isinstance(v, Poly) and v.single_atom() and DEFS.get(v.single_atom(), ("",))[0] == "widen" and k in (hk.pre_roots or ()) and v.single_atom() in closure:
                    head_step[k] = v.single_atom()
            # how does the step variable enter the step: as a signed step (odd) or as a magnitude times a direction (even)?
            var_parity = {}
            def monos_with(a, p, depth=0):
                out = []
                for m, c in p.t.items():
                    if any(x == a for x, e in m):
                        out.append(m)
                    for x, e in m:
                        d_ = DEFS.get(x)
                        if d_ and d_[0] == "phi" and depth < 6:
                            for y_ in d_[1]:
                                if isinstance(y_, Poly):
                                    out.extend(monos_with(a, y_, depth + 1))
                return out
            for k, a in head_step.items():
                for m in monos_with(a, step):
                    has_dir = any(x.startswith("signum[") or x in ("posneg", "direction") for x, e in m)
                    var_parity[k] = "even" if has_dir else "odd"

            odd_assumed = {a for k, a in head_step.items() if var_parity.get(k) == "odd"}
            even_assumed = {a for k, a in head_step.items() if var_parity.get(k) == "even"}
            # a plain parameter used as the signed step (RK4's h)
            for m, c in step.t.items():
                if len(m) == 1 and m[0][0] not in DEFS and m[0][0] not in ("X", "xend", "x0"):
                    odd_assumed.add(m[0][0])
            par = parity_fn(set(odd_assumed) | {"X", "xend", "x0", "XM", "posneg", "direction"}, set(even_assumed))
            # a fixed step that reaches the step taken through a join (`if last { xend - x } else { h }`)
            odd_c = set(odd_assumed) | param_steps
            for a_ in closure:
                d_ = DEFS.get(a_)
                if d_ and d_[0] == "phi":
                    for x_ in d_[1]:
                        if isinstance(x_, Poly):
                            for m, c in x_.t.items():
                                if len(m) == 1 and m[0][1] == 1 and m[0][0] not in DEFS and m[0][0] not in ("X", "xend", "x0"):
                                    odd_c.add(m[0][0])
            par_c = parity_fn(odd_c | {"X", "xend", "x0", "XM", "posneg", "direction"}, set(even_assumed), state_even=True)

            def check(p, want, what, node):
                nonlocal n
                if not isinstance(p, Poly) or p.is_zero():
                    return
                n += 1
                got = par(p)
                if got is not None and got != want:
                    probs[what] = ("%s is %s, which is %s (not %s) under time reflection: a direction factor is missing or duplicated%s (path variant %s)"
                                   % (what, repr(p)[:160], got, want, (" [" + par.why[0] + "]") if got == "mixed" and par.why else "", tag), node)
            check(step, "odd", "the step taken", souts[0]["node"])
            for s in hk.stages:
                if s.get("head") or not s.get("in_main") or not isinstance(s.get("T"), Poly):
                    continue
                check(s["T"] - Poly.atom("X"), "odd", "stage offset `%s`" % tast.render(s["node"]["args"][0]), s["node"])
            # every ordering test evaluated in the main loop is the same test after time reflection: the difference of the
            # two sides has one parity, and that parity is even (an odd difference means `<` becomes `>` for the mirrored run)
            def cond_parts(c, depth=0):
                a_ = c.single_atom() if isinstance(c, Poly) else None
                d_ = DEFS.get(a_) if a_ else None
                if not d_ or depth > 8:
                    return
                if d_[0] in ("and", "or", "not"):
                    for x_ in d_[1]:
                        yield from cond_parts(x_, depth + 1)
                elif d_[0] in ("lt", "le", "gt", "ge", "eq", "ne") and len(d_[1]) == 2 and all(isinstance(x_, Poly) for x_ in d_[1]):
                    yield d_[0], d_[1][0], d_[1][1]
            seen_c = set()
            for ev in sx.trace:
                if ev.get("kind") != "if" or not isinstance(ev.get("cond"), Poly):
                    continue
                nd = ev["node"]
                if id(nd) in seen_c and not tag.startswith("after-reject"):
                    pass
                if hk.main_loop is None or not tast.within(hk.main_loop, nd):
                    continue
                for op_, l_, r_ in cond_parts(ev["cond"]):
                    d_ = l_ - r_
                    if d_.is_zero() or d_.is_const() or any(STAGE_ATOM.match(a_) for a_ in d_.atoms()):
                        continue
                    del par_c.why[:]
                    got = par_c(d_)
                    n_cond.add(id(nd))
                    # `signed quantity > 0` is a test of the direction itself: the mirrored run takes the other branch by
                    # design (that the branches are mirror images is what the value clauses check)
                    nz_ = l_ if r_.is_zero() else r_
                    inv_ = {"x0", "xend", "posneg", "direction"} | param_steps
                    sign_test = got == "odd" and (l_.is_zero() or r_.is_zero()) and (
                        (len(nz_.t) == 1 and len(next(iter(nz_.t))) == 1) or all(a_ in inv_ or (a_.startswith("signum[") and "X" not in a_) for a_ in nz_.atoms()))
                    bad = got == "mixed" or (got == "odd" and op_ not in ("eq", "ne") and not sign_test)
                    if bad:
                        what = "the test `%s`" % tast.render(nd["cond"])[:70]
                        probs.setdefault(what, ("%s compares %s with %s: the difference is %s under time reflection, so the mirrored run takes the other branch%s (path variant %s)"
                                                % (what, repr(l_)[:120], repr(r_)[:60], got, (" [" + par_c.why[0] + "]") if got == "mixed" and par_c.why else "", tag), nd))
            acc_keys = [k for k, nm in sx.names.items() if nm.endswith(".accepted")]
            for L in hk.latch or []:
                for k in head_step:
                    hv = L.get(k)
                    if isinstance(hv, Poly):
                        # express relative to the latch x for landing forms xend - x
                        xl = L.get(hk.xkey)
                        if isinstance(xl, Poly) and hv == Poly.atom("xend") - xl:
                            continue
                        check(hv, var_parity.get(k, "odd"), "the next step `%s`" % sx.names.get(k, k), hk.main_loop)
        for what, (msg, node) in probs.items():
            wk = ("test " + what.split("`")[1]) if what.startswith("the test `") else what.split("`")[0].strip()
            rep.violation("R-PARITY", "%s:%s" % (key, wk), msg[:500], node.get("sp") if isinstance(node, dict) else None)
        if not probs:
            if n == 0:
                rep.inconc("R-PARITY", key, "nothing analysed")
            else:
                rep.ok("R-PARITY", key, "%d time-like value(s) (step taken, stage offsets, next step) have the right parity under time reflection; %d ordering test(s) evaluated in the main loop compare sides whose difference is even" % (n, len(n_cond)))


# ------------------------------------------------------------------------------------------ R-TOL-FROM
def r_tol_route_helpers(rep, f):
    """inside the crate the two tolerances travel as two parameters of the same type: at every call of a crate function that
    has parameters named `atol` and `rtol` (hinit, helpers) from a function that has them too, the argument in the `atol` position
    derives from the caller's `atol` and the one in the `rtol` position from its `rtol` - swapped, the callee computes
    rtol + atol*|y| and nothing fails to compile"""
    n = 0
    for b in f.body_list:
        fn = b["def"]
        cp = {p_.get("name"): p_.get("id") for p_ in b.get("params", []) if p_.get("k") == "PBind"}
        if "atol" not in cp or "rtol" not in cp or "::{closure" in fn:
            continue
        for c in tast.find(b["body"], lambda z: z.get("k") in ("Call", "MethodCall") and (z.get("def") or "") in f.bodies and (z.get("def") or "") != fn):
            cb = f.bodies[c["def"]]
            pn = [p_.get("name") for p_ in cb.get("params", [])]
            if "atol" not in pn or "rtol" not in pn:
                continue
            args = ([c["recv"]] if c.get("k") == "MethodCall" else []) + list(c["args"])
            n += 1
            key = "R-TOL-ROUTE:%s->%s" % (fn, c["def"].split("::")[-1])
            probs = []
            for want in ("atol", "rtol"):
                idx = pn.index(want)
                if idx >= len(args):
                    continue
                src = args[idx]
                roots = set()
                for _ in range(4):
                    ids = [q for q in tast.find(src, lambda z: z.get("k") == "Path" and z.get("res") == "local")]
                    roots = {q.get("id") for q in ids}
                    if roots & set(cp.values()) or len(ids) != 1:
                        break
                    lets = tast.find(b["body"], lambda z: z.get("k") == "Let" and z["pat"].get("k") == "PBind" and z["pat"].get("id") == ids[0].get("id") and z.get("init") is not None)
                    if len(lets) != 1:
                        break
                    src = lets[0]["init"]
                other = "rtol" if want == "atol" else "atol"
                if cp[other] in roots and cp[want] not in roots:
                    probs.append("the callee's `%s` receives the caller's `%s` (`%s`)" % (want, other, tast.render(args[idx])[:30]))
            if probs:
                rep.violation("R-TOL-ROUTE", key, "; ".join(probs) + ": the callee then weighs with rtol + atol*|y|", c.get("sp"))
            else:
                rep.ok("R-TOL-ROUTE", key, "atol -> atol, rtol -> rtol")
    if n < 4:
        rep.inconc("R-TOL-ROUTE", "R-TOL-ROUTE:helpers:floor", "only %d internal calls passing both tolerances found (expected >= 4: the hinit callers)" % n)


def r_tol_from(rep, f):
    """A tolerance given as a vector (slice, array, Vec) is per-component: after the conversion, component i of the Tolerance
    reads back entry i of what the user passed.  Every `From<..> for Tolerance` conversion of a sequence is evaluated exactly
    (polynomial domain) on vectors of length 1..4 with generic entries AND with entries that coincide in every pattern (equal
    ends, equal neighbours, all equal): a conversion that takes a shortcut on some coincidence must still return the entries."""
    from cxs import CxS, CxPanic, CxUnknown
    import itertools
    IDX = "<methods::Tolerance as std::ops::Index<usize>>::index"
    fns = sorted({n for n in f.bodies if n.startswith("<methods::Tolerance as std::convert::From<") and n != "<methods::Tolerance as std::convert::From<f64>>::from"})
    if IDX not in f.bodies or not fns:
        rep.inconc("R-TOL-FROM", "R-TOL-FROM:anchor", "Tolerance conversions / Index<usize> not found")
        return
    n_ok = 0
    for fn in fns:
        rep.fn(fn)
        key = "R-TOL-FROM:%s" % fn
        bad, unknown, n_inst = None, None, 0
        for n in range(1, 5):
            # set partitions of the positions through "restricted growth strings": every pattern of coincidences
            for pat in itertools.product(range(n), repeat=n):
                if any(pat[i] > max(pat[:i], default=-1) + 1 for i in range(n)) or pat[0] != 0:
                    continue
                vec = [Poly.atom("t%d" % c) for c in pat]
                try:
                    cx = CxS(f)
                    tolv = cx.call_fn(fn, [list(vec)])
                    got = [cx.call_fn(IDX, [tolv, i]) for i in range(n)]
                except CxPanic as e:
                    bad = bad or (pat, "panics (%s)" % e)
                    continue
                except (CxUnknown, Exception) as e:
                    unknown = unknown or str(e)[:140]
                    continue
                n_inst += 1
                from cxs import dderef as _dd
                got = [_dd(g) for g in got]
                if got != vec and bad is None:
                    j = next(i for i in range(n) if got[i] != vec[i])
                    bad = (pat, "component %d reads %r, the user passed %r" % (j, got[j], vec[j]))
        if bad:
            rep.violation("R-TOL-FROM", key, "a tolerance vector with the coincidence pattern %s is not kept per component: %s (a shortcut taken on equal entries looks at "
                          "some of them only)" % (list(bad[0]), bad[1]), f.bodies[fn].get("sp"))
        elif unknown or n_inst == 0:
            rep.inconc("R-TOL-FROM", key, "conversion not evaluated: %s" % (unknown or "no instance"), f.bodies[fn].get("sp"))
        else:
            n_ok += 1
            rep.ok("R-TOL-FROM", key, "%d instances (lengths 1..4, every coincidence pattern of the entries): component i reads back entry i" % n_inst)
    if n_ok < 1 and not rep_has(rep, "R-TOL-FROM"):
        rep.inconc("R-TOL-FROM", "R-TOL-FROM:floor", "no sequence conversion into Tolerance was decided")


def rep_has(rep, rule):
    return any(x.get("rule") == rule for x in list(rep.violations) + list(rep.inconclusive))
