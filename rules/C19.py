"""C19 The SolOut callback protocol of the low-level solvers."""
import facts
import tast
import mon
import rk
import aff
from poly import Poly, DEFS
from protocol import SOLVERS, SOLOUT, solve_fn, acc_rule, main_loop_of, is_solout_iflet

LEVEL = "other"
FLAG = "solout::ControlFlag::"
ALL6 = [dict(mod=m, ty=t) for m, t in SOLVERS]


def arm_flag(arm):
    p = arm["pat"]
    while p.get("k") == "PBind" and p.get("sub") is not None:      # `flag @ (A | B) => ..`
        p = p["sub"]
    d = p.get("def") or p.get("ctor_of") or ""
    if d.startswith(FLAG):
        return d[len(FLAG):]
    if p.get("k") == "POr":
        # `A | B => ..`: the arm is an Interrupt arm only if it names Interrupt
        names = [(q.get("def") or q.get("ctor_of") or "")[len(FLAG):] for q in p.get("pats", []) if (q.get("def") or q.get("ctor_of") or "").startswith(FLAG)]
        return "Interrupt" if "Interrupt" in names else (names[0] if names else None)
    return None


def solout_matches(body):
    """matches on the callback's answer: `match sol.solout(..) {..}` or `let flag = sol.solout(..); .. match flag {..}`"""
    bound = set()
    for l in tast.find(body, lambda x: x.get("k") == "Let" and x["pat"].get("k") == "PBind" and (x.get("init") or {}).get("k") == "MethodCall" and x["init"].get("def") == SOLOUT):
        bound.add(l["pat"]["id"])
    return [m for m in tast.find(body, lambda x: x.get("k") == "Match")
            if (m["scrut"].get("k") == "MethodCall" and m["scrut"].get("def") == SOLOUT)
            or (m["scrut"].get("k") == "Path" and m["scrut"].get("res") == "local" and m["scrut"].get("id") in bound)]


# ---------------------------------------------------------------- R-SOLOUT-INIT / CONTIG / INTERP-H
def init_contig_rules(rep, f):
    for m in ALL6:
        fn = aff.solve_def(m)
        rep.fn(fn)
        body = f.body(fn)
        main = main_loop_of(body)
        pre_calls = [c for c in tast.calls(body["body"], SOLOUT) if main is None or not tast.contains(main, lambda x: x is c)]
        key = "R-SOLOUT-INIT:%s" % fn
        try:
            variants = rk.analyse_variants(f, fn)
        except rk.AnalysisError as e:
            rep.inconc("R-SOLOUT-INIT", key, str(e))
            continue
        if len(pre_calls) != 1:
            rep.violation("R-SOLOUT-INIT", key + ":count", "expected exactly one SolOut callback before the main loop, found %d" % len(pre_calls), body.get("sp"))
        else:
            tag, sx, hk = variants[0]
            pre = [r for r in hk.solout_calls if not r["in_main"]]
            c = pre_calls[0]
            probs = []
            if len(pre) != 1:
                probs.append("the initial callback is not reached exactly once on the analysed path")
            else:
                r = pre[0]
                if r["xold"] != r["x"]:
                    probs.append("xold argument %r differs from x %r" % (r["xold"], r["x"]))
                if r["x"] != Poly.atom("x0"):
                    probs.append("x is %r, not the initial time" % (r["x"],))
                if r["y"] != Poly.atom("y0@0"):
                    probs.append("state is %r, not the initial state" % (r["y"],))
                if r["cond_depth"] != 0:
                    probs.append("the call is conditional on more than the presence of the callback")
            a3 = c["args"][3]
            if not (a3.get("k") == "Path" and (a3.get("def") or "").split("::")[-1] == "None" and a3.get("dk") == "Ctor"):
                probs.append("interpolant argument is %s, not None" % tast.render(a3))
            if probs:
                rep.violation("R-SOLOUT-INIT", key, "; ".join(probs), c.get("sp"))
            else:
                rep.ok("R-SOLOUT-INIT", key, "one pre-loop callback with xold == x == x0, y == y0, interpolant None")
        # contiguity + interpolant segment, per path variant
        bad = []
        n_with_cb = 0
        for tag, sx, hk in variants:
            recs = [r for r in hk.interp_calls if r["in_main"]]
            souts = [r for r in hk.solout_calls if r["in_main"]]
            if len(souts) == 0:
                continue    # no accepted step is feasible on this path variant
            n_with_cb += 1
            if len(souts) != 1:
                bad.append((tag, "expected one per-step callback site, found %d" % len(souts), None, "sites"))
                continue
            s = souts[0]
            if not isinstance(s["xold"], Poly) or not isinstance(s["x"], Poly):
                bad.append((tag, "non-scalar callback arguments", s["node"], "args"))
                continue
            if s["xold"] != Poly.atom("X"):
                bad.append((tag, "callback xold is %r, not the x of the previous callback (X)" % (s["xold"],), s["node"], "contig"))
            for r in recs:
                if not (isinstance(r["xold"], Poly) and isinstance(r["h"], Poly)):
                    bad.append((tag, "non-scalar interpolant arguments", r["node"], "interp-args"))
                    continue
                if not (r["xold"] + r["h"] - s["x"]).is_zero():
                    bad.append((tag, "interpolant covers [%r, %r] but the step ends at x = %r" % (r["xold"], r["xold"] + r["h"], s["x"]), r["node"], "interp-h"))
                if r["xold"] != s["xold"]:
                    bad.append((tag, "interpolant xold %r != callback xold %r" % (r["xold"], s["xold"]), r["node"], "interp-xold"))
        if n_with_cb == 0:
            bad.append(("all", "no path variant reaches the per-step callback", None, "sites"))
        seen = set()
        for tag, msg, node, what in bad:
            rule = "R-INTERP-H" if what.startswith("interp") else "R-SOLOUT-CONTIG"
            k = "%s:%s:%s" % (rule, fn, what)
            if k in seen:
                continue
            seen.add(k)
            rep.violation(rule, k, "%s (path variant %s)" % (msg, tag), node.get("sp") if node else None)
        if not any(w.startswith("interp") for _, _, _, w in bad):
            rep.ok("R-INTERP-H", "R-INTERP-H:%s" % fn, "xold + h == x and xold == callback xold on %d path variant(s)" % len(variants))
        if not any(not w.startswith("interp") for _, _, _, w in bad):
            rep.ok("R-SOLOUT-CONTIG", "R-SOLOUT-CONTIG:%s" % fn, "xold == previous x on %d path variant(s)" % len(variants))


# ---------------------------------------------------------------- R-INTERRUPT-STOP
FLAGS4 = ("Continue", "Interrupt", "ModifiedSolution", "XOut")


def flag_of_pattern(p):
    """set of ControlFlag variants a pattern accepts (None = any)"""
    k = p.get("k")
    if k in ("PWild",) or (k == "PBind" and not p.get("sub")):
        return None
    if k == "PBind" and p.get("sub"):
        return flag_of_pattern(p["sub"])
    if k in ("PRef", "PDeref") and p.get("pat") is not None:
        return flag_of_pattern(p["pat"])
    if k == "POr":
        out = set()
        for q in p.get("pats", []):
            r = flag_of_pattern(q)
            if r is None:
                return None
            out |= r
        return out
    d = p.get("def") or p.get("ctor_of") or ""
    if d.startswith(FLAG):
        return {d[len(FLAG):]}
    return None


class InterruptMon(mon.Monitor):
    """state = (answer of the last callback in this iteration: None | one of the four flags, status is UserInterrupt).
    At a callback site the state forks into the four answers; every test of the answer (match arms, `flag == X`,
    `if let X(..) = flag`, matches!) prunes the branches the assumed answer cannot take.  Under the answer Interrupt:
    no IVP / SolOut call, no further loop iteration, and the function is left with status UserInterrupt."""
    init = ((None, False),)

    def __init__(self, fn, body):
        super().__init__()
        self.fn = fn
        self.flagvars = set()
        for l in tast.find(body, lambda x: x.get("k") == "Let" and x["pat"].get("k") == "PBind" and x.get("init") is not None):
            i0 = l["init"]
            while i0.get("k") in ("DropTemps", "Paren"):
                i0 = i0["e"]
            if i0.get("k") == "MethodCall" and i0.get("def") == SOLOUT:
                self.flagvars.add(l["pat"]["id"])
        self.sites = set()
        self.interrupt_sites = set()

    def is_answer(self, e):
        while e is not None and e.get("k") in ("DropTemps", "Paren", "AddrOf") or (e is not None and e.get("k") == "Unary" and e.get("op") == "Deref"):
            e = e["e"]
        if e is None:
            return False
        if e.get("k") == "MethodCall" and e.get("def") == SOLOUT:
            return True
        return e.get("k") == "Path" and e.get("res") == "local" and e.get("id") in self.flagvars

    def cond_flags(self, c):
        """(set of answers under which the condition holds) for a test of the answer, else None"""
        while c.get("k") in ("DropTemps", "Paren"):
            c = c["e"]
        if c.get("k") == "Unary" and c.get("op") == "Not":
            r = self.cond_flags(c["e"])
            return None if r is None else set(FLAGS4) - r
        if c.get("k") == "Binary" and c["op"] in ("Eq", "Ne"):
            for a, b in ((c["l"], c["r"]), (c["r"], c["l"])):
                bb = b
                while bb.get("k") in ("DropTemps", "Paren", "AddrOf"):
                    bb = bb["e"]
                d = bb.get("def") or ""
                if self.is_answer(a) and d.startswith(FLAG) and bb.get("k") in ("Path", "Call"):
                    s_ = {d[len(FLAG):]}
                    return s_ if c["op"] == "Eq" else set(FLAGS4) - s_
        if c.get("k") == "LetExpr" and self.is_answer(c["init"]):
            return flag_of_pattern(c["pat"]) or set(FLAGS4)
        if c.get("k") == "Match" and self.is_answer(c["scrut"]):
            # matches!(flag, X | Y): a match on the answer whose arms are boolean literals
            def lit(b):
                while b is not None and b.get("k") in ("Block", "DropTemps", "Paren") and not b.get("stmts"):
                    b = b.get("tail") if b.get("k") == "Block" and b.get("tail") is not None else b.get("expr") if b.get("k") == "Block" else b.get("e")
                return (str(b.get("v")).lower() == "true") if (b is not None and b.get("k") == "Lit" and str(b.get("v")).lower() in ("true", "false")) else None
            out, left = set(), set(FLAGS4)
            for a in c["arms"]:
                v = lit(a["body"])
                if v is None or a.get("guard") is not None:
                    return None
                acc = flag_of_pattern(a["pat"])
                take = left if acc is None else (left & acc)
                if v:
                    out |= take
                left -= take
            return out
        return None

    def step(self, st, ev):
        kind, n = ev[0], ev[1]
        fl, ok = st
        if kind == "node" and n.get("k") == "MethodCall" and n.get("def") == SOLOUT:
            self.sites.add(id(n))
            return tuple((f_, False) for f_ in FLAGS4)
        if kind == "arm" and self.is_answer(n["scrut"]) and fl is not None:
            arms = n["arms"]
            j = ev[2]
            acc = flag_of_pattern(arms[j]["pat"])
            # an earlier arm without a guard that accepts the answer takes it first
            for a in arms[:j]:
                pa = flag_of_pattern(a["pat"])
                if a.get("guard") is None and (pa is None or fl in pa):
                    return ()
            if acc is not None and fl not in acc:
                return ()
            if fl == "Interrupt":
                self.interrupt_sites.add(id(n))
            return (st,)
        if kind in ("then", "else") and n.get("k") == "If" and fl is not None:
            cf = self.cond_flags(n["cond"])
            if cf is not None:
                holds = fl in cf
                if (kind == "then") != holds:
                    return ()
                if fl == "Interrupt":
                    self.interrupt_sites.add(id(n))
                return (st,)
        if kind == "else" and is_solout_iflet(n):
            return ()
        if kind == "node" and n.get("k") == "Path" and (n.get("def") or "") == "status::Status::UserInterrupt" and fl != "Interrupt":
            self.violate("R-INTERRUPT-STOP:%s:stray-status" % self.fn, "Status::UserInterrupt is produced on a path where the callback did not answer Interrupt", n, self.cur_trail)
        if fl != "Interrupt":
            if kind in ("loop_head", "latch"):
                return ((None, False),)
            return (st,)
        if kind == "node":
            k = n.get("k")
            if k in ("MethodCall", "Call"):
                d = n.get("def") or ""
                if d.startswith("ivp::IVP::") or d == SOLOUT:
                    self.violate("R-INTERRUPT-STOP:%s:work-after-interrupt:%s" % (self.fn, d.split("::")[-1]),
                                 "%s is reachable after the callback returned Interrupt" % d, n, self.cur_trail)
            if k == "Path" and (n.get("def") or "") == "status::Status::UserInterrupt":
                return (("Interrupt", True),)
            if k == "Assign" and n["l"].get("k") == "Path" and n["l"].get("ty") == "status::Status":
                r = n["r"]
                isui = r.get("k") == "Path" and r.get("def") == "status::Status::UserInterrupt"
                return (("Interrupt", isui),)
        if kind in ("return", "fn_end"):
            if not ok:
                self.violate("R-INTERRUPT-STOP:%s:status" % self.fn, "a path on which the callback answered Interrupt returns without status UserInterrupt", n, self.cur_trail)
        if kind in ("loop_head", "latch"):
            self.violate("R-INTERRUPT-STOP:%s:continues" % self.fn, "a path on which the callback answered Interrupt reaches another loop iteration", n, self.cur_trail)
            return ()
        return (st,)


def interrupt_rule(rep, f):
    n_sites = 0
    for mod, ty in SOLVERS:
        fn = solve_fn(mod, ty)
        body = f.body(fn)
        from protocol import answer_idiom_unknown
        unk_ = answer_idiom_unknown(body)
        if unk_:
            rep.inconc("R-INTERRUPT-STOP", "R-INTERRUPT-STOP:%s" % fn, "the callback's answer is merged with other values before it is tested (the call is the value of a match / if arm): the answer typestate does not follow that", unk_[0].get("sp"))
            n_sites += 2
            continue
        m = InterruptMon(fn, body["body"])
        mon.Runner(m).run_fn(body)
        n_sites += len(m.sites)
        for key, msg, node, trail in m.violations:
            rep.violation("R-INTERRUPT-STOP", key, msg, node.get("sp") if isinstance(node, dict) else None)
        if not m.violations:
            if len(m.sites) < 2:
                rep.inconc("R-INTERRUPT-STOP", "R-INTERRUPT-STOP:%s:sites" % fn, "only %d callback site(s) found (expected the initial and the per-step one)" % len(m.sites))
            else:
                rep.ok("R-INTERRUPT-STOP", "R-INTERRUPT-STOP:%s" % fn, "%d callback site(s): under the answer Interrupt no IVP/SolOut call, no further iteration, status UserInterrupt; UserInterrupt is produced under no other answer" % len(m.sites))
    if n_sites < 12:
        rep.inconc("R-INTERRUPT-STOP", "R-INTERRUPT-STOP:floor", "only %d callback sites found (expected 12)" % n_sites)


# ---------------------------------------------------------------- R-MODIFIED-REEVAL
def fsal_variants(rep, f):
    ctx = aff.Ctx(f)
    for m in ALL6:
        implicit = m["mod"] in ("radau", "bdf")
        for flag, init in (("Continue", "Continue"), ("ModifiedSolution", "Continue"), ("Continue", "ModifiedSolution"), ("XOut", "Continue")):
            rule = "R-MODIFIED-REEVAL" if "ModifiedSolution" in (flag, init) else "R-AFF-FSAL"
            aff.fsal_check(rep, ctx, m, flag, init_flag=init, rule=rule, per_latch=True)


# ---------------------------------------------------------------- R-XOUT-STEP
XOUT_SOLVERS = [m for m in ALL6 if m["mod"] != "bdf"]     # BDF prepares its interpolant on every step and ignores XOut


def is_payload(name):
    """the value carried by a present Option: closure parameter of map_or, or the binding of a Some(..) pattern"""
    if name.startswith("optval["):
        return True
    d = DEFS.get(name)
    if d and d[0] == "proj" and isinstance(d[1][0], Poly):
        a = d[1][0].single_atom()
        dd = DEFS.get(a) if a else None
        return bool(dd) and dd[0] in ("unwrap", "armval")
    return False


def xout_tests(sx):
    """boolean values computed from the payload of an Option<Float>: map_or closures, Some(..) arms of a match, if-let values"""
    from poly import reaches
    out = []
    for e in sx.trace:
        k = e.get("kind")
        cands = []
        if k == "map_or":
            cands = [e["value"]]
        elif k == "matchval" and "Option<f64>" in (e["node"]["scrut"].get("ty") or "") and e["node"].get("ty") == "bool":
            cands = [v for j, pat, v in e["arms"] if pat.get("k") == "PTupleStruct"]
        elif k == "ifval" and e["node"].get("ty") == "bool" and e["node"]["cond"].get("k") == "LetExpr" and e.get("v1") is not None:
            cands = [e["v1"]]
        for v in cands:
            if isinstance(v, Poly) and reaches(v, is_payload):
                out.append(dict(value=v, node=e["node"]))
    return out


def poly_atoms_deep(p):
    """atom names of a polynomial, including those inside the arguments of function atoms"""
    out = set()
    for a in p.atoms():
        out.add(a)
        d = DEFS.get(a)
        if d:
            for x in d[1]:
                if isinstance(x, Poly):
                    out |= poly_atoms_deep(x)
    return out


def xout_rule(rep, f):
    """A callback that answered XOut(xo) is owed an interpolant on the step that contains xo.  The solvers decide this with a
    test on the latched request; evaluated at a model point with xold < xo < x (x = the abscissa handed to the callback of this
    step) every such test must hold, otherwise the step's dense coefficients are not prepared."""
    import pnum
    from poly import reaches
    n_tests = 0
    for m in XOUT_SOLVERS:
        fn = aff.solve_def(m)
        body = f.body(fn)
        latch_arms = [a for mm in solout_matches(body["body"]) for a in mm["arms"] if arm_flag(a) == "XOut"
                      and tast.find(a["body"], lambda z: z.get("k") == "Assign")]
        key = "R-XOUT-STEP:%s" % fn
        if not latch_arms:
            rep.ok("R-XOUT-STEP", key, "no XOut request is latched", nontrivial=False)
            continue
        # the request can come from any call of the callback - the initial one included: every site latches it (in an XOut
        # arm of a match on the answer, or under `if let ControlFlag::XOut(..) = answer`)
        xids = {a_["l"].get("id") for arm in latch_arms for a_ in tast.find(arm["body"], lambda z: z.get("k") == "Assign" and z["l"].get("k") == "Path")}
        calls_ = tast.calls(body["body"], SOLOUT)

        def hears(call):
            # (also a binding whose initialiser yields the call's answer as the value of a match / if arm)
            ids = {l["pat"]["id"] for l in tast.find(body["body"], lambda z: z.get("k") == "Let" and z["pat"].get("k") == "PBind" and z.get("init") is not None
                                                     and (z["init"] is call or tast.contains(z["init"], lambda q: q is call)))}
            is_answer = lambda e: e is call or (isinstance(e, dict) and e.get("k") == "Path" and e.get("res") == "local" and e.get("id") in ids)
            stores = lambda blk: tast.contains(blk, lambda z: z.get("k") == "Assign" and z["l"].get("k") == "Path" and z["l"].get("id") in xids)
            for mm in tast.find(body["body"], lambda z: z.get("k") == "Match" and is_answer(z["scrut"])):
                for a in mm["arms"]:
                    pats = a["pat"]["sub"].get("pats", [a["pat"]["sub"]]) if (a["pat"].get("k") == "PBind" and a["pat"].get("sub") is not None) else a["pat"].get("pats", [a["pat"]]) if a["pat"].get("k") == "POr" else [a["pat"]]
                    if any((q.get("def") or q.get("ctor_of") or "") == FLAG + "XOut" for q in pats) and stores(a["body"]):
                        return True
            for ii in tast.find(body["body"], lambda z: z.get("k") == "If" and z["cond"].get("k") == "LetExpr" and is_answer(z["cond"]["init"])):
                pd = ii["cond"]["pat"].get("def") or ii["cond"]["pat"].get("ctor_of") or ""
                if pd == FLAG + "XOut" and stores(ii["then"]):
                    return True
            return False
        deaf = [c for c in calls_ if not hears(c)]
        if deaf:
            rep.violation("R-XOUT-STEP", key + ":latch", "%d of the %d callback sites of a solver that honours XOut drop(s) the request: the point asked for there gets no interpolant"
                          % (len(deaf), len(calls_)), deaf[0].get("sp"))
        else:
            rep.ok("R-XOUT-STEP", key + ":latch", "all %d callback sites latch an XOut request" % len(calls_))
        try:
            variants = rk.analyse_variants(f, fn)
        except rk.AnalysisError as e:
            rep.inconc("R-XOUT-STEP", key, str(e))
            continue
        bad, seen, unknown = [], 0, []
        for tag, sx, hk in variants:
            souts = [r for r in hk.solout_calls if r["in_main"]]
            if len(souts) != 1 or not isinstance(souts[0]["x"], Poly) or not isinstance(souts[0]["xold"], Poly):
                continue
            s = souts[0]
            tests = xout_tests(sx)
            if not tests:
                continue
            # two model points: a forward step (X=1 -> 1.5, heading for xend=3) and its mirror image (X=1 -> 0.5, heading
            # for xend=-1); on both the requested point is the midpoint of the step handed to the callback
            diff = s["x"] - s["xold"]
            step_atoms = {a for a in diff.atoms() if a not in ("X", "xend", "x0") and not a.startswith("signum[")}
            # a quantity whose sign the solver itself takes as the direction is signed
            signed = {a[7:-1] for t in tests if isinstance(t["value"], Poly) for a in poly_atoms_deep(t["value"]) if a.startswith("signum[") and a.endswith("]")}
            for sense in (1.0, -1.0):
                cur = {}

                def leaf(name, sense=sense, cur=cur):
                    if is_payload(name):
                        return cur["xo"]
                    if name == "xend":
                        return 1.0 + 2.0 * sense
                    if name == "x0":
                        return 1.0 - sense
                    if name == "X":
                        return 1.0
                    if name in ("posneg", "direction"):
                        return sense
                    if (name in step_atoms and len(step_atoms) == 1) or name in signed:
                        return 0.5 * sense
                    return 0.5
                try:
                    xo_, x_ = pnum.value(s["xold"], {}, leaf), pnum.value(s["x"], {}, leaf)
                except pnum.NoEval as e:
                    unknown.append((tag, str(e)))
                    continue
                if not (x_ - xo_) * sense > 0:
                    unknown.append((tag, "model point does not advance in direction %+d (xold %r = %r, x %r = %r)" % (sense, s["xold"], xo_, s["x"], x_)))
                    continue
                cur["xo"] = 0.5 * (xo_ + x_)
                for t in tests:
                    seen += 1
                    try:
                        v = pnum.value(t["value"], {}, leaf)
                    except pnum.NoEval as e:
                        unknown.append((tag, str(e)))
                        continue
                    if v is not True:
                        bad.append((tag, t, s, sense))
        n_tests += seen
        if bad:
            tag, t, s, sense = bad[0]
            rep.violation("R-XOUT-STEP", key, "the XOut test %r is false for a requested point strictly inside the %s step [%r, %r] handed to the callback "
                          "(path variant %s): the interpolant for that step is not prepared" % (t["value"], "forward" if sense > 0 else "backward", s["xold"], s["x"], tag), t["node"].get("sp"))
        elif unknown or not seen:
            rep.inconc("R-XOUT-STEP", key, "XOut request is latched in %d arm(s) but its test could not be evaluated: %s"
                       % (len(latch_arms), unknown[0][1] if unknown else "no test on the latched value found"), body.get("sp"))
        else:
            rep.ok("R-XOUT-STEP", key, "%d evaluation(s) of the XOut test hold for a requested point inside the step, forward and backward" % seen)
    if n_tests < 10:
        rep.inconc("R-XOUT-STEP", "R-XOUT-STEP:floor", "only %d XOut tests evaluated (expected >= 10)" % n_tests)


def bdf_restart_rule(rep, f):
    """BDF ModifiedSolution arms must restart the difference history."""
    fn = "methods::bdf::BDF::solve"
    body = f.body(fn)
    ms = solout_matches(body["body"])
    arms = [a for m in ms for a in m["arms"] if arm_flag(a) == "ModifiedSolution"]
    if len(arms) != 2:
        rep.inconc("R-MODIFIED-REEVAL", "R-MODIFIED-REEVAL:%s:bdf-arms" % fn, "expected 2 ModifiedSolution arms, found %d" % len(arms))
        return
    dir_ids0 = {l["pat"]["id"] for l in tast.find(body["body"], lambda z: z.get("k") == "Let" and z["pat"].get("k") == "PBind" and z.get("init") is not None
                                                   and z["init"].get("k") == "MethodCall" and z["init"].get("name") == "signum")}
    delegated = []
    import bdfx
    semantic = bdfx.r_bdf_restart(rep, f, arms)
    for j, a in enumerate(arms):
        if j in semantic:
            continue      # decided by exact evaluation of the arm
        b = a["body"]
        key = "R-MODIFIED-REEVAL:%s:history-restart:%s" % (fn, "initial" if j == 0 else "per-step")
        probs = []
        # the restart may be delegated to a private helper that receives the difference table mutably
        helper_calls = [c for c in tast.find(b, lambda z: z.get("k") == "Call" and (z.get("def") or "") in f.bodies and (z.get("def") or "").startswith("methods::") and (z.get("def") or "") != "methods::hinit")
                        if any(a_.get("k") == "AddrOf" and a_.get("mut") and "Vec<f64>" in (a_.get("ty") or "") for a_ in c["args"])]
        if helper_calls:
            c = helper_calls[0]
            hb = f.bodies[c["def"]]
            hp = [p_ for p_ in hb.get("params", []) if p_.get("k") == "PBind"]
            ok_order = tast.contains(b, lambda x: x.get("k") == "Assign" and x["l"].get("k") == "Path" and x["r"].get("k") == "Lit" and str(x["r"].get("v")) == "1" and "usize" in (x["l"].get("ty") or ""))
            d0 = tast.contains(hb["body"], lambda x: x.get("k") == "MethodCall" and x.get("name") in ("copy_from_slice", "clone_from_slice"))
            d1s = tast.find(hb["body"], lambda x: x.get("k") == "Assign" and tast.contains(x["r"], lambda z: z.get("k") == "Binary" and z.get("op") == "Mul"))
            zero = tast.contains(hb["body"], lambda x: x.get("k") == "MethodCall" and x.get("name") == "fill" and x["args"] and x["args"][0].get("k") == "Lit" and float(x["args"][0]["v"]) == 0.0)
            dir_ok = False
            for st_ in d1s:
                for k_, p_ in enumerate(hp):
                    if (p_.get("ty") or "") == "f64" and tast.contains(st_["r"], lambda z: z.get("k") == "Path" and z.get("id") == p_["id"]) and k_ < len(c["args"]):
                        arg = c["args"][k_]
                        if arg.get("k") == "Path" and arg.get("id") in dir_ids0:
                            dir_ok = True
            if ok_order and d0 and d1s and zero and dir_ok:
                rep.ok("R-MODIFIED-REEVAL", key, "restart delegated to %s: row 0 reloaded, row 1 rebuilt with the direction, higher rows cleared, order <- 1" % c["def"].split("::")[-1])
                rep.ok("R-MODIFIED-REEVAL", key + ":direction", "the helper's first difference is multiplied by the direction passed at the call site")
            else:
                rep.inconc("R-MODIFIED-REEVAL", key, "the history restart is delegated to %s, whose body this rule cannot match (order reset %s, row-0 copy %s, row-1 product %s, zero fill %s, direction %s)"
                           % (c["def"].split("::")[-1], ok_order, d0, bool(d1s), zero, dir_ok), a.get("sp"))
            delegated.append(tast.render(c))
            continue
        # order = 1
        if not tast.contains(b, lambda x: x.get("k") == "Assign" and x["l"].get("k") == "Path" and x["l"].get("name") == "order"
                             and x["r"].get("k") == "Lit" and str(x["r"].get("v")) == "1"):
            probs.append("order is not reset to 1")
        # d[0] <- y
        def is_d0_copy(x):
            return (x.get("k") == "MethodCall" and x.get("name") == "copy_from_slice" and x["recv"].get("k") == "Index"
                    and "Vec<std::vec::Vec<f64>>" in (x["recv"].get("base_ty") or "") and x["recv"]["i"].get("k") == "Lit" and str(x["recv"]["i"].get("v")) == "0"
                    and tast.contains(x["args"][0], lambda z: z.get("k") == "Path" and z.get("ty") == "std::vec::Vec<f64>"))
        if not tast.contains(b, is_d0_copy):
            probs.append("difference row 0 is not reloaded from the modified state")
        # d[1][i] = f0[i] * h * direction  (a store into row 1 whose value reads the derivative slot)
        def is_d1_store(x):
            if x.get("k") != "Assign" or x["l"].get("k") != "Index":
                return False
            inner = x["l"]["e"]
            return (inner.get("k") == "Index" and inner["i"].get("k") == "Lit" and str(inner["i"].get("v")) == "1"
                    and tast.contains(x["r"], lambda z: z.get("k") == "Index") and tast.contains(x["r"], lambda z: z.get("k") == "Binary" and z.get("op") == "Mul"))
        if not tast.contains(b, is_d1_store):
            probs.append("difference row 1 is not rebuilt as h*f(x, y)")
        # rows >= 2 zeroed
        def is_zero_fill(x):
            return (x.get("k") == "For" and tast.contains(x["iter"], lambda z: z.get("k") == "Lit" and str(z.get("v")) == "2")
                    and tast.contains(x["body"], lambda z: z.get("k") == "MethodCall" and z.get("name") == "fill"
                                      and z["args"][0].get("k") == "Lit" and float(z["args"][0]["v"]) == 0.0))
        if not tast.contains(b, is_zero_fill):
            probs.append("higher difference rows are not zeroed")
        if probs:
            rep.violation("R-MODIFIED-REEVAL", key, "; ".join(probs), a.get("sp"))
        else:
            rep.ok("R-MODIFIED-REEVAL", key, "d[0]<-y, d[1]<-h*f0, d[k>=2]<-0, order<-1")
    # the first difference d[1] = h*f(x, y) is a state increment: it must carry the direction of integration
    # (f is odd under time reflection, the step magnitude is even), and the two restarts must build it the same way
    body_all = body["body"]
    dir_ids = {l["pat"]["id"] for l in tast.find(body_all, lambda z: z.get("k") == "Let" and z["pat"].get("k") == "PBind" and z.get("init") is not None
                                                 and z["init"].get("k") == "MethodCall" and z["init"].get("name") == "signum")}
    forms = []
    if len(delegated) == 2:
        key = "R-MODIFIED-REEVAL:%s:history-restart:d1-siblings" % fn
        if delegated[0] == delegated[1]:
            rep.ok("R-MODIFIED-REEVAL", key, "both restarts call %s" % delegated[0][:80])
        else:
            rep.violation("R-MODIFIED-REEVAL", key, "the initial and the per-step ModifiedSolution restarts call the helper differently: %s vs %s" % (delegated[0][:80], delegated[1][:80]), arms[1].get("sp"))
        return
    for j, a in enumerate(arms):
        st = [x for x in tast.find(a["body"], lambda z: z.get("k") == "Assign" and z["l"].get("k") == "Index" and z["l"]["e"].get("k") == "Index"
                                   and z["l"]["e"]["i"].get("k") == "Lit" and str(z["l"]["e"]["i"].get("v")) == "1")]
        if len(st) != 1:
            forms.append(None)
            continue
        rhs = st[0]["r"]
        forms.append(tast.render(rhs))
        key = "R-MODIFIED-REEVAL:%s:history-restart:%s:direction" % (fn, "initial" if j == 0 else "per-step")
        if tast.contains(rhs, lambda z: z.get("k") == "Path" and z.get("id") in dir_ids):
            rep.ok("R-MODIFIED-REEVAL", key, "d[1] = %s carries the direction of integration" % tast.render(rhs))
        else:
            rep.violation("R-MODIFIED-REEVAL", key, "the restarted first difference d[1] = %s does not carry the direction of integration (wrong sign when integrating backward)"
                          % tast.render(rhs), st[0].get("sp"))
    key = "R-MODIFIED-REEVAL:%s:history-restart:d1-siblings" % fn
    if None not in forms and forms[0] == forms[1]:
        rep.ok("R-MODIFIED-REEVAL", key, "both restarts build d[1] as %s" % forms[0])
    elif None not in forms:
        rep.violation("R-MODIFIED-REEVAL", key, "the initial and the per-step ModifiedSolution restarts build the first difference differently: %s vs %s" % (forms[0], forms[1]), arms[1].get("sp"))
    # the two arms are siblings: identical effect sequences
    r0 = tast.render_block(arms[0]["body"])
    r1 = tast.render_block(arms[1]["body"])
    key = "R-MODIFIED-REEVAL:%s:siblings" % fn
    if r0 == r1:
        rep.ok("R-MODIFIED-REEVAL", key, "initial and per-step ModifiedSolution arms perform the same restart")
    else:
        rep.note("%s BDF's two ModifiedSolution arms differ structurally (not a violation by itself)" % key)


def run(rep, tier):
    f = facts.load("default")
    rep.rule("R-SOLOUT-INIT", "exactly one callback before the main loop, with xold == x == x0, y == y0 and no interpolant")
    rep.rule("R-SOLOUT-ONCE", "at most one per-step callback per main-loop iteration, reached with Steps::accepted incremented exactly once; iterations without callback do not accept")
    rep.rule("R-SOLOUT-CONTIG", "the callback's xold is the x of the previous callback (value-numbered over x + tau*h)")
    rep.rule("R-INTERP-H", "the interpolant handed to the callback covers exactly [xold, x]")
    rep.rule("R-INTERRUPT-STOP", "from every Interrupt arm no IVP::* or SolOut call is reachable and the returned status is UserInterrupt; UserInterrupt arises nowhere else")
    rep.rule("R-MODIFIED-REEVAL", "on ModifiedSolution the derivative slot is re-evaluated at the modified (x, y) (loop invariant slot = f(x, y)); BDF restarts its difference history")
    rep.rule("R-XOUT-STEP", "a latched XOut(xo) request with xold < xo < x makes the solver prepare the interpolant of that step: the solver's test on the "
             "latched value is true at a model point inside the interval handed to the callback (forward direction)")
    rep.rule("R-AFF-FSAL", "loop invariant: at every loop head the derivative slot holds f(x, y)")
    init_contig_rules(rep, f)
    acc_rule(rep, f, rule="R-SOLOUT-ONCE")
    interrupt_rule(rep, f)
    fsal_variants(rep, f)
    bdf_restart_rule(rep, f)
    xout_rule(rep, f)
    # the interpolant handed to the callback belongs to the step just taken: its left end is the state the step started from
    # (after ModifiedSolution: the modified state), its right end the state handed over - the identities C06 decides
    rep.rule("R-AFF-ENDPT", "the interpolant handed to the callback satisfies u(0) == y_old (the state the step started from, the modified one after ModifiedSolution) and u(1) == y_new, as algebraic identities of the stored forms (explicit methods)")
    ctx_ = aff.Ctx(f)
    for m_ in aff.EXPLICIT:
        t_ = aff.r_tableau(rep, ctx_, m_)
        if t_ is None:
            continue
        df_ = aff.dense_form(rep, ctx_, m_, t_, "R-AFF-ENDPT")
        if df_ is not None:
            aff.r_endpt(rep, ctx_, m_, t_, df_)
    rep.rule("R-XOUT-PREPARED", "whenever the callback is handed an interpolant the coefficient buffer behind it was filled for this step: the hand-out condition implies the condition of every block writing the buffer (truth-table over the conditions' atoms)")
    xout_prepared_rule(rep, f)
    rep.explanation = ("All-paths structural check of the callback protocol in the six solve() functions: monitor automata for call multiplicity and "
                       "Interrupt handling, symbolic value numbering (x + tau*h) for interval contiguity and the interpolant's segment, and the "
                       "loop invariant 'derivative slot = f(x, y)' on Continue/ModifiedSolution/XOut paths. Not decided: numerical effect of a modified state.")


# ---------------------------------------------------------------- R-XOUT-PREPARED
def xout_prepared_rule(rep, f):
    """Whenever the callback is handed an interpolant, the coefficient buffer behind it was filled for THIS step: the condition
    under which `Some(StepInterpolant::new(&cont, ..))` is built implies the condition of every block that writes `cont` in
    the main loop.  Both are boolean expressions over a few atoms (the stepper's dense_output flag, "the step reaches the point
    requested with XOut", "a callback is present"); the implication is decided by enumerating the atoms' truth values, with
    `solout.is_some()` true (the hand-out sits inside `if let Some(sol) = solout`)."""
    import itertools
    NEW = "dense::StepInterpolant"
    n_sites = 0
    for m in XOUT_SOLVERS:
        fn = aff.solve_def(m)
        body = f.body(fn)
        main = main_loop_of(body)
        key = "R-XOUT-PREPARED:%s" % fn
        if main is None:
            continue
        news = [c for c in tast.find(main, lambda z: z.get("k") == "Call" and (z.get("def") or "").startswith(NEW) and (z.get("def") or "").endswith("::new") and z.get("args"))]
        if len(news) != 1:
            rep.inconc("R-XOUT-PREPARED", key, "expected one StepInterpolant::new in the main loop, found %d" % len(news))
            continue
        new = news[0]
        buf = new["args"][0]
        while buf.get("k") in ("AddrOf", "DropTemps", "Paren") or (buf.get("k") == "Index" and buf.get("i", {}).get("k") in ("Range", "RangeFull", "Struct")):
            buf = buf["e"]
        if buf.get("k") != "Path" or buf.get("res") != "local":
            rep.inconc("R-XOUT-PREPARED", key, "the coefficient buffer handed to StepInterpolant::new is not a local")
            continue
        bid = buf["id"]
        params = {p_.get("id"): p_ for p_ in body.get("params", [])}
        # the callback parameter: the Option the hand-out's enclosing `if let Some(..) = <param>..` tests
        cb_params = set()
        for _, parents_ in tast.find_with_parents(main, lambda z: z is new):
            for p_ in parents_:
                if p_.get("k") == "If" and p_["cond"].get("k") == "LetExpr":
                    for q in tast.find(p_["cond"]["init"], lambda z: z.get("k") == "Path" and z.get("id") in params):
                        cb_params.add(q["id"])
            break
        hk0 = rk.StepHooks(body["body"])
        acc_region = hk0.accept_if.get(hk0.accept_branch) if hk0.accept_if is not None else None

        def resolve(e, depth=0):
            while e.get("k") in ("DropTemps", "Paren"):
                e = e["e"]
            if e.get("k") == "Path" and e.get("res") == "local" and (e.get("ty") or "") == "bool" and depth < 4:
                lets = tast.find(body["body"], lambda z: z.get("k") == "Let" and z["pat"].get("k") == "PBind" and z["pat"].get("id") == e.get("id") and z.get("init") is not None)
                assigned = tast.contains(body["body"], lambda z: z.get("k") == "Assign" and z["l"].get("k") == "Path" and z["l"].get("id") == e.get("id"))
                if len(lets) == 1 and not assigned:
                    return resolve(lets[0]["init"], depth + 1)
            return e

        def ev(e, env):
            e = resolve(e)
            k = e.get("k")
            if k == "Binary" and e.get("op") in ("And", "Or"):
                a, b = ev(e["l"], env), ev(e["r"], env)
                return (a and b) if e["op"] == "And" else (a or b)
            if k == "Unary" and e.get("op") == "Not":
                return not ev(e["e"], env)
            if k == "Lit" and str(e.get("v")).lower() in ("true", "false"):
                return str(e.get("v")).lower() == "true"
            if k == "MethodCall" and e.get("name") in ("is_some", "is_none") and not e.get("args"):
                r_ = e["recv"]
                while r_.get("k") in ("AddrOf", "DropTemps", "Paren"):
                    r_ = r_["e"]
                if r_.get("k") == "Path" and r_.get("id") in cb_params:
                    return e["name"] == "is_some"
            return env[atom_key(e)]

        def atom_key(e):
            e = resolve(e)
            if e.get("k") == "Path" and e.get("res") == "local":
                return "local:%s" % e.get("id")
            return tast.render(e)

        def atoms(e, out):
            e = resolve(e)
            k = e.get("k")
            if k == "Binary" and e.get("op") in ("And", "Or"):
                atoms(e["l"], out)
                atoms(e["r"], out)
            elif k == "Unary" and e.get("op") == "Not":
                atoms(e["e"], out)
            elif k == "Lit":
                pass
            elif k == "MethodCall" and e.get("name") in ("is_some", "is_none") and not e.get("args") and tast.contains(e["recv"], lambda q: q.get("k") == "Path" and q.get("id") in cb_params):
                pass
            else:
                out.add(atom_key(e))

        def guards_of(node):
            """conditions (expr, polarity) of the ifs / bool matches / bool::then between the main loop and the node"""
            out = []
            for _, parents in tast.find_with_parents(main, lambda z: z is node):
                for p_ in parents:
                    if p_.get("k") == "If" and p_["cond"].get("k") != "LetExpr":
                        if tast.contains(p_["then"], lambda z: z is node):
                            out.append((p_["cond"], True))
                        elif p_.get("else") is not None and tast.contains(p_["else"], lambda z: z is node):
                            out.append((p_["cond"], False))
                    elif p_.get("k") == "MethodCall" and p_.get("name") in ("then", "then_some") and (p_["recv"].get("ty") or "") == "bool" and any(tast.contains(a_, lambda z: z is node) for a_ in p_.get("args", [])):
                        out.append((p_["recv"], True))
                    elif p_.get("k") == "Match" and ((p_["scrut"].get("ty") or "") == "bool" or p_["scrut"].get("k") == "Tuple"):
                        # a match on a boolean or on a tuple of booleans: the arm's condition is its pattern (first match wins)
                        comps = [p_["scrut"]] if p_["scrut"].get("k") != "Tuple" else list(p_["scrut"].get("es") or p_["scrut"].get("elems") or p_["scrut"].get("args") or [])
                        T = {"k": "Lit", "v": "true"}

                        def NOT(a):
                            return {"k": "Unary", "op": "Not", "e": a}

                        def AND(a, b):
                            return {"k": "Binary", "op": "And", "l": a, "r": b}

                        def OR(a, b):
                            return {"k": "Binary", "op": "Or", "l": a, "r": b}

                        def pat_cond(pt):
                            k_ = pt.get("k")
                            if k_ == "POr":
                                c = None
                                for q in pt.get("pats", []):
                                    pc = pat_cond(q)
                                    if pc is None:
                                        return None
                                    c = pc if c is None else OR(c, pc)
                                return c
                            if k_ in ("PWild",) or (k_ == "PBind" and not pt.get("sub")):
                                return T
                            if k_ == "PLit" and len(comps) == 1:
                                v_ = str(((pt.get("e") or pt).get("v"))).lower()
                                return comps[0] if v_ == "true" else NOT(comps[0]) if v_ == "false" else None
                            if k_ == "PTuple" and len(pt.get("pats", [])) == len(comps):
                                c = T
                                for q, ce in zip(pt["pats"], comps):
                                    if q.get("k") == "PLit":
                                        v_ = str(((q.get("e") or q).get("v"))).lower()
                                        if v_ not in ("true", "false"):
                                            return None
                                        c = AND(c, ce if v_ == "true" else NOT(ce))
                                    elif q.get("k") in ("PWild",) or (q.get("k") == "PBind" and not q.get("sub")):
                                        pass
                                    else:
                                        return None
                                return c
                            return None
                        earlier = None
                        for a_ in p_["arms"]:
                            pc = pat_cond(a_["pat"]) if a_.get("guard") is None else None
                            if tast.contains(a_["body"], lambda z: z is node):
                                if pc is not None:
                                    out.append((pc if earlier is None else AND(NOT(earlier), pc), True))
                                break
                            if pc is None:
                                earlier = None
                                break
                            earlier = pc if earlier is None else OR(earlier, pc)
                break
            return out
        # the blocks that fill the buffer: writes to it inside the main loop, grouped by their outermost guard
        writes = tast.find(main, lambda z: (z.get("k") in ("Assign", "AssignOp") and z["l"].get("k") == "Index" and tast.contains(z["l"]["e"], lambda q: q.get("k") == "Path" and q.get("id") == bid))
                           or (z.get("k") == "MethodCall" and z.get("name") in ("copy_from_slice", "clone_from_slice", "fill") and tast.contains(z["recv"], lambda q: q.get("k") == "Path" and q.get("id") == bid)))
        # writes made through a helper that receives the buffer mutably count as writes at the call
        writes += tast.find(main, lambda z: z.get("k") in ("Call", "MethodCall") and (z.get("def") or "") in f.bodies and not (z.get("def") or "").startswith(NEW)
                            and any(a_.get("k") == "AddrOf" and a_.get("mut") and tast.contains(a_, lambda q: q.get("k") == "Path" and q.get("id") == bid) for a_ in z.get("args", [])))
        # the buffer may double as scratch space before the step is accepted (Radau's error refinement): what the interpolant reads
        # is what the accepted step stores
        if acc_region is not None:
            writes = [w for w in writes if tast.contains(acc_region, lambda z, w=w: z is w)]
        if not writes:
            rep.inconc("R-XOUT-PREPARED", key, "no write to the coefficient buffer `%s` found in the main loop" % buf.get("name"))
            continue
        H = guards_of(new)
        bad = None
        n_w = 0
        for w in writes:
            P = guards_of(w)
            n_w += 1
            names = set()
            for c_, _ in H + P:
                atoms(c_, names)
            names = sorted(names)
            if len(names) > 8:
                rep.inconc("R-XOUT-PREPARED", key, "too many independent conditions (%d) between the buffer writes and the hand-out" % len(names))
                bad = "skip"
                break
            for vals in itertools.product((False, True), repeat=len(names)):
                env = dict(zip(names, vals))
                try:
                    h = all(ev(c_, env) == pol for c_, pol in H)
                    p = all(ev(c_, env) == pol for c_, pol in P)
                except KeyError:
                    continue
                if h and not p:
                    bad = (w, env)
                    break
            if bad:
                break
        if bad == "skip":
            continue
        n_sites += 1
        if bad:
            w, env = bad
            show = ", ".join("%s = %s" % ((k_ if not k_.startswith("local:") else next((q.get("name") for q in tast.find(main, lambda z: z.get("k") == "Path" and "local:%s" % z.get("id") == k_)), k_)), v_) for k_, v_ in env.items())
            rep.violation("R-XOUT-PREPARED", key, "the callback can be handed an interpolant while the block that fills `%s` (%s) was skipped (%s): the interpolant reads coefficients of an "
                          "earlier step, or none" % (buf.get("name"), tast.render(w)[:40], show[:160]), w.get("sp"))
        else:
            rep.ok("R-XOUT-PREPARED", key, "the hand-out condition implies the condition of all %d write(s) to `%s`" % (n_w, buf.get("name")))
    if n_sites < 4:
        rep.inconc("R-XOUT-PREPARED", "R-XOUT-PREPARED:floor", "only %d solvers decided (expected >= 4)" % n_sites)
