"""C07 Dense output is accurate to the interpolant's order inside every step."""
import facts
import aff
import radau

LEVEL = "proof"


def run(rep, tier):
    f = facts.load("default")
    ctx = aff.Ctx(f)
    rep.rule("R-AFF-DENSE", "u(theta) = y + h*sum b_i(theta) F_i obtained by interpreting X::interpolate over the cont blocks written on the accepted path; "
                            "sum_i b_i(theta) Phi_i(t) == theta^|t|/gamma(t) identically in theta for every tree |t| <= q")
    for m in aff.EXPLICIT:
        t = aff.r_tableau(rep, ctx, m)
        if t is None:
            continue
        df = aff.dense_form(rep, ctx, m, t, "R-AFF-DENSE")
        if df is None:
            continue
        aff.r_dense(rep, ctx, m, t, df)
        # the elementary weights above are those of an autonomous system; for x-dependent right-hand sides every stage the
        # interpolant uses must be evaluated at the abscissa its weights sum to (c_i = sum_j a_ij)
        from fractions import Fraction
        tol = Fraction(0) if aff.exact_mode(t["A"], t["b"]) else aff.APPROX_TOL
        fn = aff.solve_def(m)
        for i in sorted(df["w"]):
            if i == 0 or i >= len(t["A"]):
                continue
            rs = sum(t["A"][i].values(), Fraction(0))
            key = "R-AFF-DENSE:%s:rowsum:stage%d" % (fn, i)
            if abs(rs - t["c"][i]) <= tol:
                rep.ok("R-AFF-DENSE", key, "dense stage %d: c = %s = sum of its weights" % (i, t["c"][i]))
            else:
                rep.violation("R-AFF-DENSE", key, "stage %d enters the interpolant; it is evaluated at x + %s*h but its weights sum to %s: the dense output loses its order for x-dependent right-hand sides"
                              % (i, t["c"][i], rs), aff.span(t["hk"].stages[i]["node"]))
    rep.rule("R-AFF-COLLOC", "Radau's interpolant, reconstructed from RADAU::interpolate and the stored blocks, passes through y_old and y_old + Z_i at theta = 0, c1, c2, 1: it is the collocation polynomial")
    radau.r_radau_dense(rep, f)
    import dense
    rep.rule("R-BDF-INTERP", "BDF: with the dense block solve() stores, interpolate() passes through the last k+1 solution values: u(x) = y_new, u(xold) = y_old, u(x - m h) = y_(n+1-m)")
    import bdfx
    bdfx.r_bdf_interp(rep, f)
    rep.rule("R-BDF-DENSE", "BDF dense block: writer and reader agree on which backward differences enter the interpolant for every order")
    interp_decided = any(r_ == "R-BDF-INTERP" for r_, k_, d_ in rep.discharged) and not any(x["rule"] == "R-BDF-INTERP" for x in rep.inconclusive)
    dense.r_bdf_dense(rep, f, semantic_backup=interp_decided)
    rep.explanation = ("Proof-level for RK4, RK23, DOPRI5, DOP853: the polynomial the interpolant evaluates is reconstructed from X::interpolate and the "
                       "coefficient blocks X::solve stores, and the continuous order conditions are discharged coefficient-wise in theta for all trees "
                       "up to the advertised dense order q (3, 3, 4, 7). Not decided: error constants; BDF/Radau numerical accuracy after step changes.")
    rep.trusted_base = ["rustc nightly HIR/typeck", "driver/ivp-facts", "engine/symx.py", "engine/trees.py (continuous B-series order conditions, HNW II.6)"]
