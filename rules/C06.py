"""C06 Dense output is continuous, matches the samples, and covers exactly the span."""
import facts
import aff
import radau
import C19

LEVEL = "proof"


def run(rep, tier):
    f = facts.load("default")
    ctx = aff.Ctx(f)
    rep.rule("R-AFF-ENDPT", "u(0) == y_old and u(1) == y_new as exact algebraic identities of the forms the code stores/evaluates")
    rep.rule("R-INTERP-H", "the (xold, h) handed to StepInterpolant::new satisfy xold = previous x and xold + h = new x on every accepted path")
    for m in aff.EXPLICIT:
        t = aff.r_tableau(rep, ctx, m)
        if t is None:
            continue
        df = aff.dense_form(rep, ctx, m, t, "R-AFF-ENDPT")
        if df is not None:
            aff.r_endpt(rep, ctx, m, t, df)
        aff.r_interp_h(rep, ctx, m, t)
    radau.r_radau_dense(rep, f, rule="R-AFF-ENDPT")
    rep.rule("R-SOLOUT-CONTIG", "segments abut: each interpolant covers exactly [xold, x] and xold is the previous x (all six solvers, all path variants)")
    C19.init_contig_rules(rep, f)
    rep.explanation = "End-point identities of every step interpolant (explicit methods) at proof level; segment = step taken."
    rep.trusted_base = ["rustc nightly HIR/typeck", "driver/ivp-facts", "engine/symx.py"]
