"""C06 Dense output is continuous, matches the samples, and covers exactly the span."""
import facts
import aff
import radau
import C19
import dense

LEVEL = "proof"


def run(rep, tier):
    f = facts.load("default")
    ctx = aff.Ctx(f)
    rep.rule("R-AFF-ENDPT", "u(0) == y_old and u(1) == y_new as exact algebraic identities of the forms the code stores/evaluates")
    rep.rule("R-INTERP-H", "the (xold, h) handed to StepInterpolant::new satisfy xold = previous x and xold + h = new x on every accepted path")
    for m in aff.EXPLICIT:
        t = aff.r_tableau(rep, ctx, m)
        if t is None:
            continue
        df = aff.dense_form(rep, ctx, m, t, "R-AFF-ENDPT")
        if df is not None:
            aff.r_endpt(rep, ctx, m, t, df)
        aff.r_interp_h(rep, ctx, m, t)
    radau.r_radau_dense(rep, f, rule="R-AFF-ENDPT")
    rep.rule("R-SOLOUT-CONTIG", "segments abut: each interpolant covers exactly [xold, x] and xold is the previous x (all six solvers, all path variants)")
    C19.init_contig_rules(rep, f)
    rep.rule("R-SOL-ERRMAP", "Solution::sol/sol_many: no dense output -> NotEnabled, t outside [min,max] of the span -> OutOfRange; continuous_sol is Some exactly when dense_output was requested")
    rep.rule("R-CONT-LAYOUT", "per method: allocation of cont, blocks read by interpolate, Method::coeffs_per_state and Method::interpolate_fn agree")
    rep.rule("R-SEG-KEEP", "the output handler stores every non-degenerate segment, guarded only by (collect_dense, x != xold, interpolant present, h != 0), before any return")
    rep.rule("R-SEG-LOOKUP", "segment lookup uses the direction-agnostic window [min(xold,xold+h)-tol, max(..)+tol]")
    dense.r_sol_errmap(rep, f)
    dense.r_cont_layout(rep, f)
    dense.r_seg_keep(rep, f)
    dense.r_seg_filter(rep, f)
    rep.rule("R-SEG-VERBATIM", "the handler stores the fields of one to_segment() result unmodified, from_segments reads each tuple position back into the same field, and the store is append-only (no mutable access other than push)")
    dense.r_seg_verbatim(rep, f)
    rep.rule("R-SEG-FIELDS", "StepInterpolant and DenseSegment copy each other field by field and call the interpolation function with their own (cont, xold, h) in the declared positions")
    dense.r_seg_fields(rep, f)
    dense.r_seg_lookup(rep, f)
    dense.r_seg_per_query(rep, f)
    rep.rule("R-SEG-WIDTH", "a segment the library builds by itself (the placeholder of a zero-length run) gets a width that interval evaluation shows non-zero for every start point: the interpolation routines divide by it")
    dense.r_seg_width(rep, f)
    rep.rule("R-SPAN-ENDS", "ContinuousOutput::t_span() is (first segment's xold, last segment's xold + h) in the order of integration (symbolic, dense.rs helpers interpreted in place)")
    dense.r_span_ends(rep, f)
    rep.rule("R-BDF-INTERP", "BDF: with the dense block solve() stores, interpolate() passes through the last k+1 solution values: u(x) = y_new, u(xold) = y_old, u(x - m h) = y_(n+1-m)")
    import bdfx
    bdfx.r_bdf_interp(rep, f)
    rep.rule("R-BDF-DENSE", "BDF dense block: for every order the slots BDF::solve fills with backward differences are exactly the slots BDF::interpolate sums, slot s holding D_s (finite evaluation of the writer's guard and the reader's range)")
    interp_decided = any(r_ == "R-BDF-INTERP" for r_, k_, d_ in rep.discharged) and not any(x["rule"] == "R-BDF-INTERP" for x in rep.inconclusive)
    dense.r_bdf_dense(rep, f, semantic_backup=interp_decided)
    rep.rule("R-XOUT-PREPARED", "whenever the callback is handed an interpolant the coefficient buffer behind it was filled for this step (the hand-out condition implies the condition of every block writing the buffer)")
    C19.xout_prepared_rule(rep, f)
    rep.explanation = "End-point identities of every step interpolant (explicit methods) at proof level; segment = step taken."
    rep.trusted_base = ["rustc nightly HIR/typeck", "driver/ivp-facts", "engine/symx.py"]
