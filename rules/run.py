"""Entry point: python3 rules/run.py <Cxx> [quick|thorough]"""
import importlib
import os
import sys
import traceback

HERE = os.path.dirname(os.path.abspath(__file__))
sys.path.insert(0, os.path.join(os.path.dirname(HERE), "engine"))
sys.path.insert(0, HERE)

import facts  # noqa: E402
from report import Report  # noqa: E402


def extras(prop, tier, rep, mod):
    """checks shared by all properties: extractor cross-check (both tiers), second build configuration and the
    self-test corpus (thorough)"""
    import xcheck
    cfg = "python" if prop == "C20" else os.environ.get("IVP_CFG_OVERRIDE", "default")
    f = facts.load(cfg)
    names = None if tier == "thorough" else {n for n in rep.functions if n in f.bodies}
    bad, n_fn, n_calls = xcheck.mismatches(f, names)
    rep.rule("R-XCHECK", "for every analysed function the multiset of resolved crate-local callees in the typed syntax tree equals the multiset of MIR call terminators (guards the counting/pairing rules against a serializer that drops an expression kind)")
    if bad:
        for fn, d in bad[:5]:
            rep.inconc("R-XCHECK", "R-XCHECK:%s" % fn, "syntax-tree and MIR views disagree on the callees of %s: %s (callee: (tree, MIR))" % (fn, dict(list(d.items())[:4])))
    elif n_fn:
        rep.ok("R-XCHECK", "R-XCHECK:%s" % cfg, "%d function(s), %d crate-local call(s): both views agree" % (n_fn, n_calls))
    if tier != "thorough" or os.environ.get("IVP_THOROUGH_CHILD"):
        return
    import json
    import subprocess
    verif = os.path.dirname(HERE)
    scratch = os.path.join(facts.CACHE, "thorough-%s" % prop)
    os.makedirs(scratch, exist_ok=True)
    # (a) the other build configuration the crate has: the same rules on the `--features python` build
    if prop != "C20":
        env = dict(os.environ, IVP_CFG_OVERRIDE="python", IVP_EVIDENCE_DIR=scratch, IVP_THOROUGH_CHILD="1")
        r = subprocess.run([sys.executable, os.path.join(HERE, "run.py"), prop, "quick"], env=env, capture_output=True, text=True)
        rep.rule("R-CFG-PYTHON", "the property's rules hold on the `--features python` build as well (same crate, other cfg)")
        if r.returncode == 1:
            keys = [l.split("key=")[1].strip() for l in r.stdout.splitlines() if l.startswith("  rule=")]
            for k in keys:
                if not any(v["key"] == k for v in rep.violations):
                    rep.violation("R-CFG-PYTHON", k, "violated on the --features python build only: %s" % k)
        elif r.returncode == 0:
            rep.ok("R-CFG-PYTHON", "R-CFG-PYTHON:%s" % prop, "all rule instances also hold with --features python")
        else:
            rep.inconc("R-CFG-PYTHON", "R-CFG-PYTHON:%s" % prop, "inconclusive on the python build: %s" % (r.stdout.strip().splitlines() or [""])[-1][:300])
    # (b) checker self-test: stored mutants of this property must be caught, behaviour-preserving variants must stay silent
    if rep.violations:
        rep.note("self-test corpus skipped: the base tree already violates the property")
        return
    r = subprocess.run([sys.executable, os.path.join(verif, "tools", "corpus.py"), "--props", prop, "--own-seeds", "--jobs", "12"],
                       env=dict(os.environ, IVP_THOROUGH_CHILD="1"), capture_output=True, text=True)
    summ = [l for l in r.stdout.splitlines() if l.startswith("CORPUS ")]
    rep.rule("R-SELFTEST", "checker self-test on scratch copies of the current tree: every stored seeded change for this property (seeded/*) is reported, every behaviour-preserving variant (selftest/benign/*) raises no violation")
    if not summ:
        rep.inconc("R-SELFTEST", "R-SELFTEST:%s" % prop, "corpus runner failed: %s" % (r.stderr or r.stdout)[-300:])
        return
    sj = json.loads(summ[0][7:])
    rep.extra["selftest"] = sj
    for l in r.stdout.splitlines():
        if l.startswith(("seeded", "benign")):
            rep.sample(l[:200])
    if sj["failed"]:
        rep.inconc("R-SELFTEST", "R-SELFTEST:%s" % prop, "checker self-test failed for %s (a stored change went unreported or a harmless variant was flagged): the checker, not the tree, needs attention" % sj["failed"])
    else:
        rep.ok("R-SELFTEST", "R-SELFTEST:%s" % prop, "%d patched scratch copies behaved as expected (%d not applicable to the current tree)" % (sj["ok"], sj["skipped"]))


def main():
    if len(sys.argv) < 2:
        print("usage: run.py <Cxx> [quick|thorough]")
        return 2
    prop = sys.argv[1]
    tier = sys.argv[2] if len(sys.argv) > 2 else os.environ.get("VERIF_TIER", "quick")
    if tier not in ("quick", "thorough"):
        tier = "quick"
    try:
        mod = importlib.import_module(prop)
    except ImportError as e:
        print("INCONCLUSIVE property=%s no rule module: %s" % (prop, e))
        return 2
    rep = Report(prop, tier, getattr(mod, "LEVEL", "other"))
    if tier == "thorough":
        os.environ.setdefault("IVP_MAX_SPLIT", "7")
    try:
        mod.run(rep, tier)
        extras(prop, tier, rep, mod)
    except facts.FactsError as e:
        print("INCONCLUSIVE property=%s facts: %s" % (prop, e))
        rep.inconc("facts", "facts", str(e))
        rep.finish()
        return 2
    except Exception:
        traceback.print_exc()
        rep.inconc("engine", "engine-crash", traceback.format_exc()[-500:])
        rep.finish()
        return 2
    return rep.finish()


if __name__ == "__main__":
    sys.exit(main())
