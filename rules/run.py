"""Entry point: python3 rules/run.py <Cxx> [quick|thorough]"""
import importlib
import os
import sys
import traceback

HERE = os.path.dirname(os.path.abspath(__file__))
sys.path.insert(0, os.path.join(os.path.dirname(HERE), "engine"))
sys.path.insert(0, HERE)

import facts  # noqa: E402
from report import Report  # noqa: E402


def main():
    if len(sys.argv) < 2:
        print("usage: run.py <Cxx> [quick|thorough]")
        return 2
    prop = sys.argv[1]
    tier = sys.argv[2] if len(sys.argv) > 2 else os.environ.get("VERIF_TIER", "quick")
    if tier not in ("quick", "thorough"):
        tier = "quick"
    try:
        mod = importlib.import_module(prop)
    except ImportError as e:
        print("INCONCLUSIVE property=%s no rule module: %s" % (prop, e))
        return 2
    rep = Report(prop, tier, getattr(mod, "LEVEL", "other"))
    try:
        mod.run(rep, tier)
    except facts.FactsError as e:
        print("INCONCLUSIVE property=%s facts: %s" % (prop, e))
        rep.inconc("facts", "facts", str(e))
        rep.finish()
        return 2
    except Exception:
        traceback.print_exc()
        rep.inconc("engine", "engine-crash", traceback.format_exc()[-500:])
        rep.finish()
        return 2
    return rep.finish()


if __name__ == "__main__":
    sys.exit(main())
