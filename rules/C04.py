"""C04 solve_ivp always terminates and never panics on valid input (structural clauses)."""
import re

import facts
import tast
import mon
import rk
import interval
from symx import FACTS
from poly import Poly, DEFS
from protocol import SOLVERS, SOLOUT, solve_fn, main_loop_of, is_solout_iflet

LEVEL = "other"
CONTROLLED = [s for s in SOLVERS if s[0] != "rk4"]
FRE = re.compile(r"^F\d+$")
LAUNDER = {"max", "min", "clamp"}
BOOLOPS = {"lt", "le", "gt", "ge", "eq", "ne", "and", "or", "not", "matches", "is_nan", "is_finite", "is_some", "is_none"}


# ------------------------------------------------------------------------------------------ R-NAN-REJECT
def tsources(p, memo, depth=0):
    """stage atoms F_j such that F_j = NaN forces p = NaN (Rust float semantics)"""
    if not isinstance(p, Poly):
        return frozenset()
    out = set()
    for a in p.atoms():
        out |= tsrc_atom(a, memo, depth)
    return frozenset(out)


def tsrc_atom(a, memo, depth=0):
    if a in memo:
        return memo[a]
    memo[a] = frozenset()   # cycle guard
    if FRE.match(a):
        r = frozenset([a])
    elif a in DEFS and depth < 60:
        op, xs = DEFS[a]
        args = [x for x in xs if isinstance(x, Poly)]
        base = op.split(":")[0]
        if base in BOOLOPS:
            r = frozenset()
        elif base in LAUNDER or base in ("phi", "widen"):
            # max/min return the other operand when one is NaN; a phi may take either input
            sets = [tsources(x, memo, depth + 1) for x in args]
            r = frozenset.intersection(*sets) if sets else frozenset()
        else:
            r = frozenset()
            for x in args:
                r |= tsources(x, memo, depth + 1)
    else:
        r = frozenset()
    memo[a] = r
    return r


def reach_F(p, stop=()):
    """all stage atoms p depends on in any way (not looking through the atoms in `stop`)"""
    out = set()
    seen = set(stop)
    stack = list(p.atoms()) if isinstance(p, Poly) else []
    while stack:
        a = stack.pop()
        if a in seen:
            continue
        seen.add(a)
        if FRE.match(a):
            out.add(a)
        d = DEFS.get(a)
        if d:
            for x in d[1]:
                if isinstance(x, Poly):
                    stack.extend(x.atoms())
    return out


def clean_from_fact(cond, truth, memo, out, flagfacts=None, depth=0):
    a = cond.single_atom() if isinstance(cond, Poly) else None
    if a and a.startswith("flag:") and flagfacts is not None and depth < 4:
        # a boolean flag known to have this value: it was assigned under one of several fact sets
        alts = flagfacts.get((a[5:], truth), ())
        sets = []
        for fs in alts:
            o = set()
            for c2, t2 in fs:
                clean_from_fact(c2, t2, memo, o, flagfacts, depth + 1)
            sets.append(o)
        if sets:
            out |= set.intersection(*sets)
        return
    if not a or a not in DEFS:
        return
    op, xs = DEFS[a]
    if op == "not" and xs:
        return clean_from_fact(xs[0], not truth, memo, out)
    if op == "and" and truth:
        for x in xs:
            clean_from_fact(x, True, memo, out)
        return
    if op == "or" and not truth:
        for x in xs:
            clean_from_fact(x, False, memo, out)
        return
    if (op in ("lt", "le", "gt", "ge", "eq") and truth) or (op == "ne" and not truth):
        # an ordered comparison that came out true has no NaN operand
        for x in xs:
            out |= tsources(x, memo)
    if op == "is_nan" and not truth or op == "is_finite" and truth:
        for x in xs:
            out |= tsources(x, memo)


def r_nan_reject(rep, f):
    for mod, ty in CONTROLLED:
        fn = solve_fn(mod, ty)
        rep.fn(fn)
        key = "R-NAN-REJECT:%s" % fn
        try:
            variants = rk.analyse_variants(f, fn)
        except rk.AnalysisError as e:
            rep.inconc("R-NAN-REJECT", key, str(e))
            continue
        worst = None
        n = 0
        for tag, sx, hk in variants:
            for r in hk.solout_calls:
                if not r["in_main"]:
                    continue
                n += 1
                yv = r["y"]
                # values carried in from previous iterations (the generalised loop-head values) are this iteration's inputs
                stop = set()
                for hv_ in (hk.head or {}).values():
                    if isinstance(hv_, Poly):
                        a_ = hv_.single_atom()
                        if a_ and DEFS.get(a_, ("",))[0] == "widen":
                            stop.add(a_)
                need = reach_F(yv, stop)
                memo = {}
                clean = set()
                for cond, truth in r["state"].get(FACTS, frozenset()):
                    clean_from_fact(cond, truth, memo, clean, sx.flagfacts)
                this_iter = {s_["name"] for s_ in hk.stages if s_.get("in_main")}
                need &= this_iter
                missing = need - clean
                if missing and (worst is None or len(missing) > len(worst[0])):
                    worst = (missing, tag, r, need, clean)
        if n == 0:
            rep.inconc("R-NAN-REJECT", key, "no accepted-step callback reached by the analysis")
            continue
        imp = []
        for tag_, sx_, hk_ in variants:
            imp = imp or rk.imprecise_in_main(sx_, hk_)
        if worst and imp:
            rep.inconc("R-NAN-REJECT", key, "the error norm / accept decision is computed by a construct the interpreter cannot follow (%s): NaN propagation not derivable" % imp[0])
            continue
        if worst:
            missing, tag, r, need, clean = worst
            names = sorted(missing, key=lambda s: int(s[1:]))
            sites = []
            for s in hk.stages:
                if s["name"] in missing and s.get("node"):
                    sites.append("%s@%s" % (s["name"], s["node"].get("sp", "?").split(":")[1]))
            rep.violation("R-NAN-REJECT", key,
                          "a step can be accepted although a right-hand-side evaluation it depends on returned NaN: the new state depends on stage value(s) %s, "
                          "but no comparison that holds on the accepted path has an operand that is forced to NaN by them (NaN is laundered by max/min or the test is left on its false edge); "
                          "path variant %s" % (names, tag), r["node"].get("sp"))
        else:
            rep.ok("R-NAN-REJECT", key, "on %d accepted path(s) every stage value the new state depends on forces an operand of a satisfied comparison to NaN" % n)


# ------------------------------------------------------------------------------------------ R-GUARD-UNDERFLOW / R-BUDGET
def exits_with(main, n, variant):
    """the true edge of `if` n leaves the main loop with Status::<variant>: directly (`{ status = V; break }`), or deferred
    through an Option<Status> local (`let abort = if C { Some(V) } else ..; if let Some(r) = abort { status = r; break }`)"""
    if n.get("k") != "If":
        return False
    is_v = lambda z: z.get("k") == "Path" and z.get("def") == "status::Status::" + variant
    if tast.contains(n["then"], is_v) and tast.contains(n["then"], lambda z: z.get("k") == "Break"):
        return True
    # deferred: the then-arm's value is Some(V) and n sits in the initialiser of a local whose Some-payload is stored as the
    # status on a breaking path
    t = n["then"]
    while t is not None and t.get("k") == "Block" and not t.get("stmts"):
        t = t.get("tail") if t.get("tail") is not None else t.get("expr")
    if not (t is not None and t.get("k") == "Call" and (t.get("def") or "").endswith("Some") and t["args"] and is_v(t["args"][0])):
        return False
    for lt in tast.find(main, lambda z: z.get("k") == "Let" and z["pat"].get("k") == "PBind" and z.get("init") is not None and tast.contains(z["init"], lambda q: q is n)):
        lid = lt["pat"]["id"]
        # every arm of the chain that produces a value produces an Option: only the tail position of nested ifs
        for use in tast.find(main, lambda z: z.get("k") in ("If", "Match")):
            src = use["cond"]["init"] if use.get("k") == "If" and use["cond"].get("k") == "LetExpr" else (use.get("scrut") if use.get("k") == "Match" else None)
            if src is None or not (src.get("k") == "Path" and src.get("id") == lid):
                continue
            if use.get("k") == "If":
                pat, br = use["cond"]["pat"], use["then"]
                arms = [(pat, br)]
            else:
                arms = [(a["pat"], a["body"]) for a in use.get("arms", [])]
            for pat, br in arms:
                if not (pat.get("ctor_of") or pat.get("def") or "").endswith("Some"):
                    continue
                binds = {q["id"] for q in tast.find(pat, lambda q: q.get("k") == "PBind")}
                stores = tast.contains(br, lambda z: z.get("k") == "Assign" and "Status" in (z["l"].get("ty") or "Status") and tast.contains(z["r"], lambda q: q.get("k") == "Path" and q.get("id") in binds))
                if stores and tast.contains(br, lambda z: z.get("k") == "Break"):
                    return True
    return False


class GuardMon(mon.Monitor):
    """(underflow guard passed, budget consumed, bounded retry counter bumped) within the current iteration"""
    init = ((False, False, False),)

    def __init__(self, fn, main, retry_ids, nmax_guard):
        super().__init__()
        self.fn, self.main, self.retry_ids, self.nmax_guard = fn, main, retry_ids, nmax_guard
        self._ug = {}

    def is_underflow_guard(self, n):
        k = id(n)
        if k not in self._ug:
            self._ug[k] = exits_with(self.main, n, "StepSizeTooSmall")
        return self._ug[k]

    def step(self, st, ev):
        kind, n = ev[0], ev[1]
        g, b, r = st
        if kind == "loop_head" and n is self.main:
            return ((False, False, False),)
        if kind == "else" and self.is_underflow_guard(n):
            return ((True, b, r),)
        if kind == "then" and n.get("k") == "If" and not tast.contains(n["then"], lambda z: z.get("k") == "Break"):
            # the true edge of a deferred exit (`Some(status)` picked up by a later `if let .. { status = ..; break }`) leaves
            # the loop: no cycle continues from here
            kk = ("d", id(n))
            if kk not in self._ug:
                self._ug[kk] = any(exits_with(self.main, n, v) for v in ("NeedLargerNMax", "StepSizeTooSmall", "ProbablyStiff", "SingularMatrix", "UserInterrupt"))
            if self._ug[kk]:
                return ()
        if kind == "else" and is_solout_iflet(n):
            return ()
        if kind == "node" and n.get("k") == "AssignOp" and n["op"].startswith("Add"):
            l = n["l"]
            if l.get("k") == "Field" and (l.get("fdef") or "") == "methods::Steps::total":
                return ((g, True, r),)
            if l.get("k") == "Path" and l.get("id") in self.retry_ids:
                return ((g, b, True),)
        if kind == "latch" and n is self.main:
            if not g and not r:
                self.violate("R-GUARD-UNDERFLOW:%s:cycle" % self.fn,
                             "an iteration of the main loop can repeat without passing a step-size underflow test (|h| against rounding level -> StepSizeTooSmall) "
                             "or a bounded retry counter; path: %s" % " -> ".join(self.cur_trail[-4:]), n, self.cur_trail)
            if not b and not r:
                self.violate("R-BUDGET:%s:cycle" % self.fn,
                             "an iteration of the main loop can repeat without consuming the step budget (Steps::total) or a bounded retry counter, "
                             "so max_steps does not bound the work; path: %s" % " -> ".join(self.cur_trail[-4:]), n, self.cur_trail)
            return ((False, False, False),)
        return (st,)


def retry_counters(body, main):
    """integer locals that are incremented in the loop and whose comparison against a literal exits the loop"""
    ids = set()
    for n in tast.find(main, lambda z: z.get("k") == "If" and z["cond"].get("k") == "Binary" and z["cond"]["op"] in ("Gt", "Ge")
                       and z["cond"]["l"].get("k") == "Path" and z["cond"]["l"].get("res") == "local" and z["cond"]["r"].get("k") == "Lit"
                       and tast.contains(z["then"], lambda q: q.get("k") == "Break")):
        lid = n["cond"]["l"]["id"]
        if tast.contains(main, lambda q: q.get("k") == "AssignOp" and q["op"].startswith("Add") and q["l"].get("k") == "Path" and q["l"].get("id") == lid):
            ids.add(lid)
    return ids


def r_guard_condition(rep, f, fn, body, main, m):
    """the underflow exit really tests the magnitude of the step against a non-negative rounding-level threshold: its
    condition is  c*|h| <= R  with c > 0 and R >= 0 for every sign of x and of the direction (or  x + c*|h| == x).
    A threshold that can be negative (x * eps for x < 0) never fires and the rejected-step loop spins for ever."""
    import limits
    guards = [g for g in tast.find(main, lambda z: m.is_underflow_guard(z))]
    key = "R-GUARD-UNDERFLOW:%s:condition" % fn
    if not guards:
        return
    try:
        sx, hk = rk.analyse_solve(f, fn)
    except rk.AnalysisError as e:
        rep.inconc("R-GUARD-UNDERFLOW", key, str(e))
        return
    conds = {}
    for ev in sx.trace:
        if ev["kind"] == "if" and any(ev["node"] is g for g in guards):
            conds[id(ev["node"])] = ev["cond"]
    good = 0
    probs = []
    defaults = interval.default_fields(f, fn)
    # configuration fields whose builder default is a positive literal (the solvers validate them to stay positive)
    assume = lambda at: at in defaults and defaults[at].lo > 0
    nonneg = lambda q: limits.nonneg(q, assume=assume)
    for g in guards:
        cv = conds.get(id(g))
        a = cv.single_atom() if isinstance(cv, Poly) else None
        d = DEFS.get(a) if a else None
        if not d or len(d[1]) != 2 or not all(isinstance(x, Poly) for x in d[1]):
            probs.append(("inconc", "condition `%s` of the underflow exit is not a comparison the analysis understands" % tast.render(g["cond"])[:80], g))
            continue
        op, (L, R) = d[0], d[1]
        if op in ("ge", "gt"):
            L, R = R, L
            op = {"ge": "le", "gt": "lt"}[op]

        def strictly_positive(p):
            # a sum of non-negative terms one of which is a positive constant or a positive configuration field
            if not nonneg(p):
                return False
            for mono, c in p.t.items():
                if c > 0 and all(assume(a_) or (a_.startswith("const:") and a_.endswith(("::EPSILON", "::MIN_POSITIVE"))) for a_, _ in mono):
                    return True
            return False

        def is_step_magnitude(p):
            # positive multiple of |h| (abs[..] of the step variable) or of a magnitude-valued step variable
            if len(p.t) != 1:
                return False
            (mono, c), = p.t.items()
            return c > 0 and nonneg(Poly({mono: 1})) and bool(mono)
        if op in ("le", "lt"):
            if not is_step_magnitude(L):
                probs.append(("viol", "the tested quantity %r is not a positive multiple of the step magnitude |h|" % (L,), g))
            elif not nonneg(R):
                probs.append(("viol", "the threshold %r can be negative (it is not a magnitude): for x < 0 the test `%s` never fires, rejected steps can shrink h to zero and the loop never exits"
                              % (R, tast.render(g["cond"])[:70]), g))
            elif op == "lt" and not strictly_positive(R):
                probs.append(("viol", "the strict test `%s` cannot fire when its threshold %r is zero (x == 0): a step that has shrunk to exactly 0 is retried for ever"
                              % (tast.render(g["cond"])[:70], R), g))
            else:
                good += 1
        elif op == "eq":
            diff = L - R
            if is_step_magnitude(diff) or is_step_magnitude(-diff):
                good += 1
            else:
                probs.append(("viol", "`%s` does not test whether the step is absorbed by x" % tast.render(g["cond"])[:70], g))
        else:
            probs.append(("inconc", "condition `%s` of the underflow exit is not an ordering test" % tast.render(g["cond"])[:80], g))
    for kind, msg, g in probs:
        if kind == "viol":
            rep.violation("R-GUARD-UNDERFLOW", key, msg[:500], g.get("sp"))
            return
    if probs and not good:
        rep.inconc("R-GUARD-UNDERFLOW", key, probs[0][1], probs[0][2].get("sp"))
    elif good:
        rep.ok("R-GUARD-UNDERFLOW", key, "%d underflow test(s) compare a positive multiple of |h| with a non-negative threshold" % good)


def r_unwrap_guard(rep, f):
    """no `unwrap()` on the output path can panic for a valid run: in the default output handler, the continuous-output
    container and the Solution accessors every `Option::unwrap` is dominated by the fact that makes it `Some`:
    * `v.last()/first().unwrap()`  - `v.is_empty()` is known false (early return, or the left operand of `||`);
    * `<Option parameter>.unwrap()` (the step interpolant) - `is_some()` is known true, or the callback is known not to be
      the initial one (a comparison of xold with x is known to separate them): the solvers hand out an interpolant with
      every accepted step when run by solve_ivp (R-SOLOUT-INIT / R-OBS-FIELDS);
    * comparator results (`partial_cmp(..).unwrap()`) and closures over already range-checked values are listed, not decided."""
    import handler as H
    from symx import SymExec, Hooks
    scopes = []
    hc = H.HandlerCtx(f)
    if hc.body is not None:
        scopes.append((hc.body["def"], hc.sx, hc.body))
    for d, b in f.bodies.items():
        if d.startswith(("solve::cont::ContinuousOutput::", "solve::solution::Solution::")) and b.get("dk") in ("Fn", "AssocFn"):
            sx = SymExec(f, d, Hooks())
            sx.bind_params()
            try:
                sx.eval(b["body"])
            except Exception:
                continue
            scopes.append((d, sx, b))
    def prev_state_place(pl, sx_, b_):
        """`place:<self>.<field>` of a Vec field that the function only ever fills from its state parameter `y`
        (the saved previous state): non-empty <=> at least one callback has completed"""
        a_ = pl.single_atom() if isinstance(pl, Poly) else None
        if not a_ or not a_.startswith("place:") or "." not in a_:
            return False
        fld = a_.rsplit(".", 1)[1]
        ps_ = [p_ for p_ in b_.get("params", []) if p_.get("k") == "PBind"]
        state_ids = {p_["id"] for p_ in ps_ if "[f64]" in (p_.get("ty") or "")}
        writes = tast.find(b_["body"], lambda z: (z.get("k") == "Assign" and z["l"].get("k") == "Field" and z["l"].get("name") == fld)
                           or (z.get("k") == "MethodCall" and z.get("name") in ("copy_from_slice", "clone_from_slice", "extend_from_slice", "clone_from", "push")
                               and z["recv"].get("k") == "Field" and z["recv"].get("name") == fld))
        if not writes:
            return False
        for w in writes:
            src = w["r"] if w.get("k") == "Assign" else (w["args"][0] if w.get("args") else {})
            if not tast.contains(src, lambda q: q.get("k") == "Path" and q.get("id") in state_ids):
                return False
        return True

    n_dec = 0
    listed = []
    for d, sx, b in scopes:
        short = d.split("::")[-1] if "DefaultSolOut" not in d else "DefaultSolOut::solout"
        opt_params = {p_["name"] for p_ in b.get("params", []) if p_.get("k") == "PBind" and "Option<" in (p_.get("ty") or "")}
        float_params = [p_["name"] for p_ in b.get("params", []) if p_.get("k") == "PBind" and (p_.get("ty") or "").lstrip("&mut ").strip() in ("f64",)]
        k = 0
        for ev in sx.trace:
            if ev["kind"] != "unwrap":
                continue
            k += 1
            rv = ev["recv"]
            a = rv.single_atom() if isinstance(rv, Poly) else None
            dd = DEFS.get(a) if a else None
            key = "R-UNWRAP-GUARD:%s:%d" % (short, k)
            fs = ev.get("facts") or frozenset()

            def fact_atoms():
                todo = list(fs)
                while todo:
                    cond, truth = todo.pop()
                    ca = cond.single_atom() if isinstance(cond, Poly) else None
                    cd = DEFS.get(ca) if ca else None
                    if not cd:
                        continue
                    if (cd[0] == "and" and truth is True) or (cd[0] == "or" and truth is False):
                        todo += [(x, truth) for x in cd[1] if isinstance(x, Poly)]
                    elif cd[0] == "not":
                        todo += [(x, not truth) for x in cd[1] if isinstance(x, Poly)]
                    else:
                        yield ca, cd, truth
            if dd and dd[0] in ("last", "first"):
                place = dd[1][0]
                ok = any(cd[0] == "is_empty" and cd[1][0] == place and truth is False for ca, cd, truth in fact_atoms())
                n_dec += 1
                if ok:
                    rep.ok("R-UNWRAP-GUARD", key, "%s().unwrap() under a known non-empty %s" % (dd[0], str(place)[-30:]))
                else:
                    rep.violation("R-UNWRAP-GUARD", key, "`%s` can panic: nothing on this path establishes that the vector is non-empty (no `is_empty()` test dominates it)" % tast.render(ev["node"])[:80], ev["node"].get("sp"))
                continue
            if a in opt_params or (a or "").split("~")[0] in opt_params:
                ok = False
                for ca, cd, truth in fact_atoms():
                    if cd[0] == "is_some" and truth is True and isinstance(cd[1][0], Poly) and cd[1][0] == rv:
                        ok = True
                    if cd[0] == "is_empty" and truth is False and prev_state_place(cd[1][0], sx, b):
                        ok = True    # the saved previous state exists: a callback has already happened, this is a step callback
                    if cd[0] in ("le", "lt", "ge", "gt", "eq", "ne") and len(float_params) >= 2:
                        txt = repr(cd[1])
                        if float_params[0] in txt and float_params[1] in txt:
                            # a comparison between xold and x that failed / held: the two are known to differ on this path
                            if (cd[0] in ("le", "lt", "eq") and truth is False) or (cd[0] in ("gt", "ge", "ne") and truth is True):
                                ok = True
                n_dec += 1
                if ok:
                    rep.ok("R-UNWRAP-GUARD", key, "%s.unwrap() where it is known to be Some (is_some / not the initial callback)" % a)
                else:
                    rep.violation("R-UNWRAP-GUARD", key, "`%s` can panic: on this path nothing separates the initial callback (no interpolant) from a step callback" % tast.render(ev["node"])[:80], ev["node"].get("sp"))
                continue
            listed.append("%s: %s" % (short, tast.render(ev["node"])[:60]))
    rep.extra["unwrap_sites_not_decided"] = listed
    # coverage control instead of a floor (a refactoring that replaces unwraps by `if let` legitimately lowers the count):
    # every syntactic unwrap site in the analysed functions must have been reached by the interpreter
    missing = []
    for d, sx, b in scopes:
        seen_nodes = {id(ev.get("inner_node", ev["node"])) for ev in sx.trace if ev["kind"] == "unwrap"} | {id(ev["node"]) for ev in sx.trace if ev["kind"] == "unwrap"}
        for n_ in tast.find(b["body"], lambda z: z.get("k") == "MethodCall" and z.get("name") in ("unwrap", "expect")
                            and (z["recv"].get("ty") or "").startswith(("std::option::Option", "std::result::Result", "&std::option::Option"))):
            inside_closure = any(True for c_, ps in tast.find_with_parents(b["body"], lambda z: z is n_) for p_ in ps if p_.get("k") == "Closure")
            if id(n_) not in seen_nodes and not inside_closure:
                missing.append("%s at %s" % (tast.render(n_)[:50], n_.get("sp")))
    if missing:
        rep.inconc("R-UNWRAP-GUARD", "R-UNWRAP-GUARD:coverage", "unwrap site(s) not reached by the interpreter: %s" % missing[:3])
    else:
        rep.ok("R-UNWRAP-GUARD", "R-UNWRAP-GUARD:coverage", "all syntactic unwrap sites of %d functions were reached (%d decided, %d listed)" % (len(scopes), n_dec, len(listed)), nontrivial=False)


class BudgetOrderMon(mon.Monitor):
    """(budget test passed since the last increment, increment waiting for its test)"""
    init = ((False, False),)

    def __init__(self, fn, main, tests, ode_def):
        super().__init__()
        self.fn, self.main, self.tests, self.ode_def = fn, main, tests, ode_def

    def step(self, st, ev):
        kind, n = ev[0], ev[1]
        t, p = st
        if kind == "loop_head" and n is self.main:
            return ((False, p),)
        if kind == "else" and any(n is q for q in self.tests):
            return ((True, False),)
        if kind == "then" and any(n is q for q in self.tests):
            return ()         # the exit
        if kind == "else" and is_solout_iflet(n):
            return ()
        if kind == "node":
            if n.get("k") == "AssignOp" and n["op"].startswith("Add") and n["l"].get("k") == "Field" and (n["l"].get("fdef") or "") == "methods::Steps::total":
                return ((False, False),) if t else ((False, True),)
            if p and n.get("k") == "MethodCall" and n.get("def") == self.ode_def:
                self.violate("R-NMAX-GUARD:%s:order" % self.fn, "Steps::total is incremented and the attempt goes on to evaluate the right-hand side without passing the budget test "
                             "`total >= max_steps`: attempts that end in `continue` never reach the test, so more than max_steps + 1 attempts can be made", n, self.cur_trail)
                return ((t, False),)
        return (st,)


def r_guards(rep, f, include_rk4=False):
    for mod, ty in (SOLVERS if include_rk4 else CONTROLLED):
        fn = solve_fn(mod, ty)
        body = f.body(fn)
        main = main_loop_of(body)
        if main is None:
            rep.inconc("R-GUARD-UNDERFLOW", "R-GUARD-UNDERFLOW:%s" % fn, "no main loop")
            continue
        rc = retry_counters(body, main)
        m = GuardMon(fn, main, rc, None)
        mon.Runner(m).run_fn(body)
        seen_rules = set()
        for key, msg, node, trail in m.violations:
            rule = key.split(":")[0]
            if mod == "rk4" and rule == "R-GUARD-UNDERFLOW":
                continue   # fixed step size: nothing can underflow
            seen_rules.add(rule)
            rep.violation(rule, key, msg, node.get("sp") if isinstance(node, dict) else None)
        if "R-GUARD-UNDERFLOW" not in seen_rules and mod != "rk4":
            rep.ok("R-GUARD-UNDERFLOW", "R-GUARD-UNDERFLOW:%s" % fn, "every cycle passes an underflow exit or a bounded retry counter (%d counter(s))" % len(rc))
        if mod != "rk4":
            r_guard_condition(rep, f, fn, body, main, m)
        if "R-BUDGET" not in seen_rules:
            rep.ok("R-BUDGET", "R-BUDGET:%s" % fn, "every cycle increments Steps::total or a bounded retry counter")
        # the budget test itself: Steps::total compared with the local read from max_steps; true edge -> NeedLargerNMax and exit
        tests = tast.find(main, lambda z: z.get("k") == "If" and z["cond"].get("k") == "Binary" and z["cond"]["op"] in ("Gt", "Ge")
                          and tast.contains(z["cond"]["l"], lambda q: q.get("k") == "Field" and (q.get("fdef") or "") == "methods::Steps::total")
                          and exits_with(main, z, "NeedLargerNMax"))
        if len(tests) == 1:
            bm = BudgetOrderMon(fn, main, tests, "ivp::IVP::ode")
            mon.Runner(bm).run_fn(body)
            if bm.violations:
                k_, msg_, node_, tr_ = bm.violations[0]
                rep.violation("R-NMAX-GUARD", k_, msg_, node_.get("sp") if isinstance(node_, dict) else None)
            else:
                rep.ok("R-NMAX-GUARD", "R-NMAX-GUARD:%s:order" % fn, "every increment of Steps::total is paired with the budget test before the attempt's stage evaluations")
        key = "R-NMAX-GUARD:%s" % fn
        if len(tests) != 1:
            rep.violation("R-NMAX-GUARD", key, "expected one `steps.total >= nmax => NeedLargerNMax; break` test in the main loop, found %d" % len(tests), main.get("sp"))
        else:
            r = tests[0]["cond"]["r"]
            src = r
            if r.get("k") == "Path" and r.get("res") == "local":
                lets = tast.find(body["body"], lambda z: z.get("k") == "Let" and z["pat"].get("id") == r["id"])
                src = lets[0]["init"] if lets and lets[0].get("init") else r
            if tast.contains(src, lambda q: q.get("k") == "Field" and (q.get("fdef") or "").endswith("::max_steps")):
                rep.ok("R-NMAX-GUARD", key, "`%s` exits with NeedLargerNMax" % tast.render(tests[0]["cond"]))
            else:
                rep.violation("R-NMAX-GUARD", key, "the budget test compares against %s, not max_steps" % tast.render(src), tests[0].get("sp"))


# ------------------------------------------------------------------------------------------ R-REJECT-SHRINK
def r_clamp_order(rep, f):
    """`f64::clamp(lo, hi)` panics when lo > hi. Every clamp evaluated by a solver must have provably ordered bounds:
    two constants, or hi - lo non-negative on the symbolic values (a positive `max_step` is the property's domain; nothing
    is assumed about the relation of two independent fields). Bounds taken from two independent configuration fields
    (min_step, max_step / the span) are NOT ordered for every configuration the builders accept."""
    import limits
    n = 0
    for mod, ty in SOLVERS:
        fn = solve_fn(mod, ty)
        body = f.body(fn)
        sites = tast.find(body["body"], lambda z: z.get("k") == "MethodCall" and z.get("name") == "clamp" and len(z.get("args", [])) == 2 and (z.get("ty") or "") in ("f64", "f32"))
        if not sites:
            continue
        try:
            variants = rk.analyse_variants(f, fn)
        except rk.AnalysisError as e:
            rep.inconc("R-CLAMP-ORDER", "R-CLAMP-ORDER:%s" % fn, str(e))
            continue
        positive = lambda at: at == "self.max_step"
        nn = lambda q: limits.nonneg(q, assume=positive)
        for j, site in enumerate(sites):
            n += 1
            key = "R-CLAMP-ORDER:%s:site%d" % (fn, j + 1)
            txt = tast.render(site)[:70]
            evs = [ev for tag, sx, hk in variants for ev in sx.trace if ev.get("kind") == "clamp" and ev.get("node") is site]
            if not evs:
                rep.inconc("R-CLAMP-ORDER", key, "`%s` is not reached by the symbolic runs" % txt, site.get("sp"))
                continue
            bad = None
            for ev in evs:
                d = ev["hi"] - ev["lo"]
                if not (d.is_zero() or (d.is_const() and d.const_value() >= 0) or nn(d)):
                    bad = (ev["lo"], ev["hi"])
                    break
            if bad:
                rep.violation("R-CLAMP-ORDER", key, "`%s`: the lower bound %r is not provably <= the upper bound %r; f64::clamp panics when min > max "
                              "(e.g. min_step larger than max_step or than the interval)" % (txt, bad[0], bad[1]), site.get("sp"))
            else:
                rep.ok("R-CLAMP-ORDER", key, "`%s`: hi - lo is non-negative on %d evaluation(s)" % (txt, len(evs)))
    if n == 0:
        rep.ok("R-CLAMP-ORDER", "R-CLAMP-ORDER:none", "no f64::clamp call in the solvers", nontrivial=False)


def r_reject_shrink(rep, f, only=None, positive=False):
    for mod, ty in CONTROLLED:
        if only is not None and mod not in only:
            continue
        fn = solve_fn(mod, ty)
        key = "R-REJECT-SHRINK:%s" % fn
        try:
            res = interval.reject_factor(f, fn)
        except (rk.AnalysisError, interval.IntervalError) as e:
            rep.inconc("R-REJECT-SHRINK", key, str(e))
            continue
        bad = [r for r in res if not r["ok"]]
        if positive:
            # a retry with a step of 0 is no retry: the solver gives up with StepSizeTooSmall on a problem it could solve
            for r in res:
                if r["ok"] and not r.get("unknown") and r.get("lo") is not None and not r["lo"] > 0:
                    r = dict(r, ok=False, msg="on a rejecting path the next step is h * g with |g| in %s (g = %s): the factor can be 0, the retried step has no length" % (r["range"], r["g"][:160]))
                    bad.append(r)
        for r in bad:
            rep.violation("R-REJECT-SHRINK", "%s:%s" % (key, r["case"]), r["msg"], r.get("span"))
        if not bad:
            rep.ok("R-REJECT-SHRINK", key, "; ".join("%s: |h_next/h| in %s" % (r["case"], r["range"]) for r in res))
        rep.sample(dict(rule="R-REJECT-SHRINK", fn=fn, cases=[{k: str(v) for k, v in r.items() if k != "span"} for r in res]))


def r_retry_floor(rep, f):
    """R-REJECT-SHRINK shows that a rejected attempt leaves a smaller step behind; termination under repeated rejection then
    rests on the step reaching the underflow exit.  That argument needs the trial step to stay what the rejection made it:
    a statement between the loop head and the stages that RAISES the trial step (`if h < hmin { h = hmin }`, `h = h.max(hmin)`)
    undoes the shrink, and the same attempt is repeated for ever when it keeps failing (a right-hand side that is NaN beyond a
    point, with min_step set).  Rule: every raising assignment to a variable that flows into the abscissa of the stage
    evaluations sits in a branch that also contains a give-up exit (break / return with a non-success status)."""
    ODE = "ivp::IVP::ode"
    n_sites = 0
    for mod, ty in SOLVERS:
        fn = solve_fn(mod, ty)
        body = f.body(fn)
        main = main_loop_of(body)
        if main is None:
            continue
        key = "R-RETRY-FLOOR:%s" % fn

        def strip(e):
            while isinstance(e, dict) and e.get("k") in ("DropTemps", "Paren"):
                e = e["e"]
            return e
        # locals that carry the trial step into the time argument of a stage evaluation: followed through copies, sums with
        # the abscissa and products with a sign or a constant (NOT through the controller's factors, min/max, powers)
        signlike = {l["pat"]["id"] for l in tast.find(body["body"], lambda z: z.get("k") == "Let" and z["pat"].get("k") == "PBind" and z.get("init") is not None
                                                      and tast.contains(z["init"], lambda q: q.get("k") == "MethodCall" and q.get("name") == "signum"))}

        def constlike(e):
            e = strip(e)
            return e.get("k") == "Lit" or (e.get("k") == "Path" and (e.get("dk") in ("Const", "AssocConst") or e.get("id") in signlike)) or (e.get("k") == "Cast") \
                or (e.get("k") == "Unary" and constlike(e["e"])) or (e.get("k") == "Index" and e["e"].get("k") == "Path" and e["e"].get("dk") in ("Const", "AssocConst"))

        def carriers(e, out):
            e = strip(e)
            k = e.get("k")
            if k == "Path" and e.get("res") == "local" and (e.get("ty") or "") in ("f64", "f32"):
                out.add(e["id"])
            elif k == "Binary" and e.get("op") in ("Add", "Sub"):
                carriers(e["l"], out)
                carriers(e["r"], out)
            elif k == "Binary" and e.get("op") == "Mul":
                if constlike(e["l"]):
                    carriers(e["r"], out)
                if constlike(e["r"]):
                    carriers(e["l"], out)
            elif k == "Unary":
                carriers(e["e"], out)
            elif k == "MethodCall" and e.get("name") == "abs":
                carriers(e["recv"], out)
        timey = set()
        for c in tast.find(main, lambda z: z.get("k") == "MethodCall" and z.get("def") == ODE and z.get("args")):
            carriers(c["args"][0], timey)
        for _ in range(5):
            for st in tast.find(main, lambda z: (z.get("k") == "Let" and z.get("init") is not None and z["pat"].get("k") == "PBind") or (z.get("k") == "Assign" and z["l"].get("k") == "Path")):
                tid = st["pat"]["id"] if st["k"] == "Let" else st["l"].get("id")
                if tid in timey:
                    carriers(st["init"] if st["k"] == "Let" else st["r"], timey)
        timey -= signlike
        raises = []      # (node whose branch must contain the exit, assignment, description)

        def conjuncts(c):
            c = strip(c)
            if c.get("k") == "Binary" and c.get("op") == "And":
                return conjuncts(c["l"]) + conjuncts(c["r"])
            return [c]
        for node, parents in tast.find_with_parents(main, lambda z: z.get("k") == "If"):
            for c in conjuncts(node["cond"]):
                if c.get("k") != "Binary" or c.get("op") not in ("Lt", "Le", "Gt", "Ge"):
                    continue
                small, big = (c["l"], c["r"]) if c["op"] in ("Lt", "Le") else (c["r"], c["l"])
                small, big = strip(small), strip(big)
                if small.get("k") != "Path" or small.get("res") != "local" or small.get("id") not in timey:
                    continue
                bt = tast.render(big)
                for a_ in tast.find(node["then"], lambda z: z.get("k") == "Assign" and z["l"].get("k") == "Path" and z["l"].get("id") == small["id"]):
                    if tast.render(strip(a_["r"])) == bt:
                        raises.append((node["then"], a_, "`if %s { %s = %s }`" % (tast.render(c)[:40], small.get("name"), bt[:30]), parents))
        for a_, parents in tast.find_with_parents(main, lambda z: z.get("k") in ("Assign", "Let")):
            tgt = a_["l"] if a_["k"] == "Assign" else a_["pat"]
            src = strip(a_["r"] if a_["k"] == "Assign" else (a_.get("init") or {}))
            tid = tgt.get("id") if tgt.get("k") in ("Path", "PBind") else None
            if tid not in timey or not isinstance(src, dict) or src.get("k") != "MethodCall" or src.get("name") != "max" or (src.get("ty") or "") not in ("f64", "f32"):
                continue
            ops = [strip(src["recv"])] + [strip(x) for x in src.get("args", [])]
            if any(o.get("k") == "Path" and o.get("id") in timey for o in ops) and not all(o.get("k") == "Lit" or (o.get("k") == "Path" and o.get("id") in timey) for o in ops):
                encl = next((p_ for p_ in reversed(parents) if p_.get("k") == "Block"), main)
                raises.append((encl, a_, "`%s`" % tast.render(a_)[:60], parents))
        # raising the step on the ACCEPTED path (the controller's growth, `hnew.max(hmin)` after an accepted step) is not a
        # retry: only sites that a rejected iteration can reach count - those not nested in the accepting branch
        if raises:
            try:
                hk0 = rk.analyse_variants(f, fn)[0][2]
                acc_if, acc_br = hk0.accept_if, getattr(hk0, "accept_branch", "then")
            except rk.AnalysisError:
                acc_if, acc_br = None, "then"
            acc_region = (acc_if.get(acc_br) if acc_if is not None else None)
            if acc_region is not None:
                raises = [r_ for r_ in raises if not tast.contains(acc_region, lambda z, a_=r_[1]: z is a_)]
        if not raises:
            rep.ok("R-RETRY-FLOOR", key, "no statement raises the trial step between a rejection and the next attempt", nontrivial=False)
            continue
        for region, a_, what, parents in raises:
            n_sites += 1
            # raising the step of an ACCEPTED path (the controller's growth) is not a retry: only sites that a rejected
            # iteration reaches before the stages count - those not nested in the accepting branch
            gives_up = tast.contains(region, lambda z: z.get("k") in ("Break", "Return") and z is not a_)
            k2 = "%s:%s" % (key, re.sub(r"[^A-Za-z0-9_<>=. ]", "", what)[:40].strip().replace(" ", "_"))
            if gives_up:
                rep.ok("R-RETRY-FLOOR", k2, "%s: the branch that raises the trial step also contains a give-up exit" % what)
                # the give-up test can only see a rejected trial that was put on record: every local it reads that the loop
                # assigns must have been assigned in the iteration that rejected, on every path that goes round the loop
                guard_ifs = [i_ for i_ in tast.find(region, lambda z: z.get("k") == "If") if tast.contains(i_["then"], lambda z: z.get("k") in ("Break", "Return"))]
                assigned_in_loop = {a2["l"].get("id") for a2 in tast.find(main, lambda z: z.get("k") in ("Assign", "AssignOp") and z["l"].get("k") == "Path")}
                rec = {}
                for gi in guard_ifs:
                    for q in tast.find(gi["cond"], lambda z: z.get("k") == "Path" and z.get("res") == "local" and z.get("id") in assigned_in_loop):
                        rec[q["id"]] = q.get("name")
                rec = {k_: v_ for k_, v_ in rec.items() if k_ not in timey}
                if rec:
                    k3 = k2 + ":record"
                    try:
                        runs = rk.analyse_variants(f, fn) + rk.analyse_variants(f, fn, accept="else")
                    except rk.AnalysisError as e_:
                        rep.inconc("R-RETRY-FLOOR", k3, str(e_))
                        continue
                    stale, n_lat = None, 0
                    for tag, sx, hk in runs:
                        for L in (hk.latch or []):
                            xl = L.get(hk.xkey)
                            if not isinstance(xl, Poly) or xl != Poly.atom("X"):
                                continue          # the iteration advanced: not a retry
                            n_lat += 1
                            for k_, nm_ in rec.items():
                                if k_ in (hk.head or {}) and L.get(k_) == hk.head[k_] and stale is None:
                                    stale = (nm_, tag)
                    if stale:
                        rep.violation("R-RETRY-FLOOR", k3, "`%s`, which the give-up test reads, is not updated on a rejecting path that goes round the loop (path variant %s): "
                                      "the test looks at the record of an earlier trial, puts the step back to the floor and the rejected attempt is repeated for ever" % stale, a_.get("sp"))
                    elif n_lat == 0:
                        rep.inconc("R-RETRY-FLOOR", k3, "no retrying end-of-iteration state found")
                    else:
                        rep.ok("R-RETRY-FLOOR", k3, "the record read by the give-up test (%s) is refreshed on all %d retrying paths" % (", ".join(sorted(rec.values())), n_lat))
            else:
                rep.violation("R-RETRY-FLOOR", k2, "%s raises the trial step on the way to the next attempt and has no give-up exit: after a rejection the shrunken step is put back "
                              "to the floor and the same attempt repeats for as long as it keeps failing (min_step set and a right-hand side that fails beyond a point: the run never "
                              "ends with the default unlimited step budget)" % what, a_.get("sp"))
    return n_sites


def run(rep, tier):
    f = facts.load("default")
    rep.rule("R-NAN-REJECT", "NaN-taint with Rust's float semantics: on every accepted path, each stage value the new state depends on forces (through NaN-propagating operations only; "
                             "max/min launder, false edges prove nothing) an operand of a comparison that is known to hold there, so a NaN evaluation cannot be accepted")
    rep.rule("R-UNWRAP-GUARD", "every Option::unwrap on a vector end (last/first) or on the step-interpolant parameter in the output handler, ContinuousOutput and Solution is dominated by the fact that makes it Some (non-empty / is_some / not the initial callback)")
    r_unwrap_guard(rep, f)
    rep.rule("R-GUARD-UNDERFLOW", "every cycle of an error-controlled main loop passes a step-size underflow exit (StepSizeTooSmall) or bumps a bounded retry counter")
    rep.rule("R-BUDGET", "every cycle increments Steps::total or a bounded retry counter; the loop exits with NeedLargerNMax when total reaches max_steps")
    rep.rule("R-REJECT-SHRINK", "on every rejecting path the next step is at most c*|h| with c < 1, for err in (1, inf] and for err = NaN, with configuration fields in their validated ranges / builder defaults")
    r_nan_reject(rep, f)
    r_guards(rep, f)
    r_reject_shrink(rep, f)
    rep.rule("R-CLAMP-ORDER", "every f64::clamp(lo, hi) a solver evaluates has provably ordered bounds (constants, a symmetric pair -m, m, or hi - lo >= 0 symbolically): clamp panics when lo > hi")
    r_clamp_order(rep, f)
    rep.rule("R-RETRY-FLOOR", "no statement puts a shrunken trial step back up (if h < hmin { h = hmin }, h = h.max(hmin)) on the way from a rejection to the next attempt unless its branch contains a give-up exit: otherwise R-REJECT-SHRINK's decreasing measure is undone and a persistently failing attempt repeats for ever")
    r_retry_floor(rep, f)
    rep.explanation = ("Structural clauses of termination for the five error-controlled solvers: rejecting cycles strictly shrink the step (also for a NaN norm), every cycle meets an "
                       "underflow exit and consumes the step budget, and a NaN right-hand side cannot be accepted. Together these make the loop well-founded on |h| down to rounding level. "
                       "Not decided: absence of panics from indexing/arithmetic, 'bounded work' as a number, blow-up detection.")
