"""C10 A terminal event stops the run at the event."""
import facts
import handler as H
import C19

LEVEL = "other"


def run(rep, tier):
    f = facts.load("default")
    hc = H.HandlerCtx(f)
    if hc.body is None:
        rep.inconc("anchor", "anchor:DefaultSolOut::solout", "default output handler not found")
        return
    rep.fn(hc.body["def"])
    rep.rule("R-TERM-COND", "Interrupt <= event_hits[i] >= terminal_count in the chronologically sorted processing loop, after recording (earlier events kept, later ones not recorded)")
    rep.rule("R-TERM-POINT", "the final sample is the terminal event's (time, state)")
    rep.rule("R-TERM-TAINT", "terminal_count influences nothing but the Interrupt decision")
    rep.rule("R-INTERRUPT-STOP", "all six solvers turn Interrupt into UserInterrupt and perform no further evaluation or callback")
    rep.rule("R-TEVAL-BEFORE-INTERRUPT", "every path that returns Interrupt has passed a t_eval sampling region (requested times before the stop are still reported)")
    rep.rule("R-TEVAL-WINDOW", "the samples flushed before the stop are guarded by the same direction-matched window test as in a run without the terminal flag")
    rep.rule("R-EVT-SORT", "co-located events are processed in integration order")
    rep.rule("R-OBS-FLAGS", "the handler returns only Continue or Interrupt")
    H.r_term(rep, hc)
    H.r_term_taint(rep, hc)
    H.r_evt_sort(rep, hc)
    H.r_obs_flags(rep, hc)
    H.r_prev_update(rep, hc)
    rep.rule("R-EVT-LOOP", "the detection loop examines every event function 0..n_events (no break/continue/return skipping an index): an earlier event of another function is found even when a terminal one fires in the same step")
    H.r_evt_loop_one(rep, hc)
    H.r_teval_before_interrupt(rep, hc)
    H.r_teval_window(rep, hc)
    rep.rule("R-DIR-MIRROR", "every `if forward { A } else { B }` comparison pair of time points in the handler is symmetric under time reflection")
    H.r_dir_mirror(rep, hc)
    rep.rule("R-TIME-ORDER", "an ordering test between two time points (a time difference compared with a tolerance, not under abs) is never evaluated in the same form for both directions of integration")
    H.r_time_order(rep, hc)
    C19.interrupt_rule(rep, f)
    rep.rule("R-CONFIG-FRAME", "each &mut self setter of EventConfig writes exactly one of the two settings (direction filter, terminal count) and leaves the other as configured")
    H.r_config_frame(rep, f)
    rep.rule("R-DIR-FROM", "the integer conversion into Direction selects by sign (exact evaluation at the function's literals, their neighbours and the i32 range ends)")
    H.r_dir_from(rep, f)
    rep.explanation = ("Largely decided structurally. 'Everything before the stop is identical to the non-terminal run' follows from R-TERM-TAINT "
                       "(the terminal flag feeds only the Interrupt decision) together with determinism (C12).")
