"""./check --replay <evidence/replay/Cxx-k.json>: re-evaluate the reported rule instance on /repo's current tree.
The replay file names the property, rule and instance key; the property's rules are run again (static analysis has no
input to replay - the 'input' is the tree itself) and the verdict of that one instance is printed.
exit 1 + VIOLATION line if the instance is still violated, exit 0 if it now holds, exit 2 if it could not be evaluated."""
import json
import os
import subprocess
import sys

HERE = os.path.dirname(os.path.abspath(__file__))


def main():
    if len(sys.argv) < 2 or not os.path.exists(sys.argv[1]):
        print("usage: replay.py <replay.json>")
        return 2
    rp = json.load(open(sys.argv[1]))
    prop, key = rp["property"], rp["key"]
    scratch = os.path.join(os.path.dirname(HERE), ".cache", "replay-evidence")
    os.makedirs(scratch, exist_ok=True)
    env = dict(os.environ, IVP_EVIDENCE_DIR=scratch)
    r = subprocess.run([sys.executable, os.path.join(HERE, "run.py"), prop, "quick"], env=env, capture_output=True, text=True)
    lines = r.stdout.splitlines()
    hit = [i for i, l in enumerate(lines) if l.startswith("  rule=") and l.strip().endswith("key=" + key)]
    known = [l for l in lines if l.startswith("KNOWN-FINDING:") and key in l]
    if hit:
        i = hit[0]
        print("VIOLATION property=%s replay=%s" % (prop, os.path.abspath(sys.argv[1])))
        print(lines[i])
        if i + 1 < len(lines):
            print(lines[i + 1])
        return 1
    if known:
        print(known[0])
        return 0
    if r.returncode == 2:
        print("\n".join(l for l in lines if l.startswith("INCONCLUSIVE"))[:2000])
        return 2
    print("HOLDS property=%s rule=%s key=%s on the current tree (reported earlier: %s)" % (prop, rp.get("rule"), key, (rp.get("msg") or "")[:200]))
    return 0


if __name__ == "__main__":
    sys.exit(main())
