"""Landing / status rules: R-STATUS-SUCCESS (incl. R-LAND), R-LAND-COVER, R-LAND-STRETCH."""
from fractions import Fraction

import rk
import tast
import mon
from poly import Poly, DEFS, reaches
from symx import FACTS
from protocol import SOLVERS, SOLOUT, solve_fn, main_loop_of, is_solout_iflet

SUCCESS = "def:status::Status::Success"
ODE = "ivp::IVP::ode"


def status_keys(body):
    return [l["pat"]["id"] for l in tast.find(body["body"], lambda z: z.get("k") == "Let" and z["pat"].get("k") == "PBind" and z["pat"].get("ty") == "status::Status")]


def exits_of(sx, hk, body):
    """(event, status value or None) for every exit of the main loop / function reached by the run"""
    sk = status_keys(body)
    out = []
    for ev in sx.trace:
        if ev["kind"] == "break" and hk.main_loop is not None and ev.get("target") == hk.main_loop["id"] and ev.get("state") is not None:
            st = ev["state"]
            sv = None
            for k in sk:
                if k in st:
                    sv = st[k]
            out.append((ev, sv))
        elif ev["kind"] == "return" and ev.get("state") is not None:
            v = ev.get("value")
            sv = Poly.atom(SUCCESS) if isinstance(v, Poly) and reaches(v, lambda a: a == SUCCESS) else None
            out.append((ev, sv))
    return out


def is_success(sv):
    return isinstance(sv, Poly) and sv.single_atom() == SUCCESS


def xend_atom(body):
    # the parameter named by position: (self, f, x0, y0, xend, ...)
    for p in body["params"]:
        if p.get("name") == "xend":
            return Poly.atom("xend")
    return None


def recognised_guard(ev, hk, xv, xend):
    """the exit is dominated by the true edge of a comparison establishing that x has reached xend"""
    for node, branch, cval in ev["pc"]:
        c = node["cond"]
        if branch != "then" or c.get("k") != "Binary":
            continue
        mx = tast.contains(c, lambda z: z.get("k") == "Path" and z.get("id") == hk.xkey)
        me = tast.contains(c, lambda z: z.get("k") == "Path" and z.get("name") == "xend")
        if mx and me and c["op"] in ("Ge", "Gt", "Eq"):
            return "dominated by `%s`" % tast.render(c)
        # |xend - x| == 0 through a local
        if c["op"] == "Eq" and isinstance(cval, Poly):
            a = cval.single_atom()
            if a and a in DEFS and DEFS[a][0] == "eq":
                l, r = DEFS[a][1]
                for u, v in ((l, r), (r, l)):
                    if isinstance(v, Poly) and v.is_zero() and isinstance(u, Poly):
                        ua = u.single_atom()
                        if ua and ua in DEFS and DEFS[ua][0] == "abs" and isinstance(DEFS[ua][1][0], Poly):
                            inner = DEFS[ua][1][0]
                            if isinstance(xv, Poly) and (inner == xend - xv or inner == xv - xend):
                                return "dominated by `%s` (|xend - x| == 0)" % tast.render(c)
    return None


class RemainderMon(mon.Monitor):
    """state: the step in flight was clipped to `xend - x` by a landing test without stretch and has not been used yet"""
    init = (False,)

    def __init__(self, fn, clips, ode_def):
        super().__init__()
        self.fn, self.clips, self.ode_def = fn, clips, ode_def

    def step(self, st, ev):
        kind, n = ev[0], ev[1]
        if kind == "node":
            if any(n is c for c in self.clips):
                return (True,)
            if n.get("k") == "MethodCall" and n.get("def") == self.ode_def:
                return (False,)
            if tast.is_field_write(n, "Steps::rejected") or tast.is_field_write(n, "Steps::accepted"):
                return (False,)      # the clipped step was tried (factorisation / iteration failed): what follows is a new step
        if st and kind == "then" and n.get("k") == "If" and tast.contains(n["then"], lambda z: z.get("k") == "Path" and z.get("def") == "status::Status::StepSizeTooSmall"):
            self.violate("R-LAND-REMAINDER:%s" % self.fn, "a step clipped to the remaining distance xend - x can be rejected by the step-size underflow test `%s` before it is used"
                         % tast.render(n["cond"])[:70], n, self.cur_trail)
        return (st,)


def r_land_remainder(rep, f):
    """when max_step (or the controller) makes the steps add up to the interval, the last unclipped step ends a few ulps
    short of xend and the landing test clips the next step to that remainder - a step of rounding size. A solver may take
    that step, or avoid it by stretching the landing test (x + s*h >= xend with s > 1 absorbs any remainder below
    (s-1)*h into the previous step); what it must not do is run the clipped step into its step-size underflow exit: the
    interval is covered to rounding but the run ends with StepSizeTooSmall."""
    ODE_ = "ivp::IVP::ode"
    for mod, ty in SOLVERS:
        fn = solve_fn(mod, ty)
        body = f.body(fn)
        key = "R-LAND-REMAINDER:%s" % fn
        # clipping assignments  <step> = xend - x   whose landing test has no stretch factor
        clips, stretched = [], 0
        for a_, parents in tast.find_with_parents(body["body"], lambda z: z.get("k") == "Assign" and z["r"].get("k") == "Binary" and z["r"]["op"] == "Sub"
                                                  and z["r"]["l"].get("k") == "Path" and z["r"]["l"].get("name") == "xend" and z["r"]["r"].get("k") == "Path"):
            guard = next((p_ for p_ in reversed(parents) if p_.get("k") == "If" and (tast.contains(p_["then"], lambda z: z is a_) or (p_.get("else") is not None and tast.contains(p_["else"], lambda z: z is a_)))), None)
            gc = guard["cond"] if guard else None
            # a named (and possibly negated) landing test stands for its comparison
            for _ in range(3):
                if gc is not None and gc.get("k") == "Unary" and gc.get("op") == "Not":
                    gc = gc["e"]
                    continue
                if gc is not None and gc.get("k") == "Path" and gc.get("res") == "local" and (gc.get("ty") or "") == "bool":
                    lets_ = tast.find(body["body"], lambda z: z.get("k") == "Let" and z["pat"].get("k") == "PBind" and z["pat"].get("id") == gc.get("id") and z.get("init") is not None)
                    if len(lets_) == 1:
                        gc = lets_[0]["init"]
                        continue
                break
            lits = [float(str(q["v"]).replace("_", "")) for q in tast.find(gc, lambda z: z.get("k") == "Lit" and z.get("lk") == "Float")] if gc is not None else []
            if any(v > 1.0 for v in lits):
                stretched += 1
            else:
                clips.append(a_)
        if not clips and not stretched:
            rep.ok("R-LAND-REMAINDER", key, "no clipping assignment of the form h = xend - x", nontrivial=False)
            continue
        if not clips:
            rep.ok("R-LAND-REMAINDER", key, "%d landing test(s), all with a stretch factor > 1: a rounding-size remainder is absorbed by the previous step" % stretched)
            continue
        m = RemainderMon(fn, clips, ODE_)
        mon.Runner(m).run_fn(body)
        if m.violations:
            k_, msg, node, trail = m.violations[0]
            rep.violation("R-LAND-REMAINDER", key, msg + "; with max_step dividing the interval the run ends with StepSizeTooSmall a few ulps before xend", node.get("sp") if isinstance(node, dict) else None)
        else:
            rep.ok("R-LAND-REMAINDER", key, "%d unstretched clip(s): no step-size underflow exit between the clip and the stage evaluations of the clipped step" % len(clips))


def r_land_exact(rep, f):
    """a solver that decides completion by comparing its abscissa with xend must put x ON xend when it clips the last step:
    `x + (xend - x)` (or x + |xend - x|*direction) is a rounded sum that can land one ulp short; the comparison then fails,
    no further step is possible and the run reports StepSizeTooSmall although the interval was covered. Solvers that decide
    completion with a flag set while clipping do not depend on the rounding (R-STATUS-SUCCESS covers them)."""
    import pnum
    for mod, ty in SOLVERS:
        fn = solve_fn(mod, ty)
        body = f.body(fn)
        xend = xend_atom(body)
        key = "R-LAND-EXACT:%s" % fn
        try:
            variants = rk.analyse_variants(f, fn)
        except rk.AnalysisError as e:
            rep.inconc("R-LAND-EXACT", key, str(e))
            continue
        if xend is None:
            continue
        guards = set()
        for tag, sx, hk in variants:
            for ev, sv in exits_of(sx, hk, body):
                if not is_success(sv) or ev.get("state") is None:
                    continue
                xv = ev["state"].get(hk.xkey)
                if hk.main_loop is None or not tast.contains(hk.main_loop, lambda z: z is ev["node"]):
                    continue
                g = recognised_guard(ev, hk, xv, xend)
                if g:
                    guards.add(g)
        if not guards:
            rep.ok("R-LAND-EXACT", key, "completion is not decided by comparing a computed abscissa with xend", nontrivial=False)
            continue
        model = lambda nm: {"X": 1.0, "xend": 3.0, "x0": 0.0}.get(nm, 0.37 + (sum(map(ord, nm)) % 97) / 1000.0)
        bad, n_land = None, 0
        for tag, sx, hk in variants:
            for s_ in [r for r in hk.solout_calls if r["in_main"]]:
                x0v = s_["x"]
                if not isinstance(x0v, Poly):
                    continue
                # a joined step variable (phi of the clipped and the unclipped step) is examined alternative by alternative
                alts = [x0v]
                for a_ in x0v.atoms():
                    d_ = DEFS.get(a_)
                    if d_ and d_[0] == "phi" and d_[1]:
                        alts = [x0v.subst({a_: inp}) for inp in d_[1] if isinstance(inp, Poly)]
                        break
                for xv in alts:
                    try:
                        lands = abs(pnum.value(xv, {}, model) - 3.0) < 1e-12
                    except pnum.NoEval:
                        continue
                    if not lands:
                        continue
                    n_land += 1
                    if xv != xend and bad is None:
                        bad = (tag, xv, s_["node"])
                    elif xv == xend and bad is None:
                        # equal as real numbers - but is it a COPY of xend, or a sum x + (xend - x) that is rounded?
                        # follow the assignments to the abscissa on this path back to their source expression
                        key_ = hk.xkey
                        prov = None
                        for _ in range(4):
                            evs_ = [ev for ev in sx.trace if ev.get("kind") == "assign" and ev.get("lv") and ev["lv"][0] == "key" and ev["lv"][1] == key_
                                    and isinstance(ev.get("node"), dict) and (hk.main_loop is None or tast.contains(hk.main_loop, lambda z, n_=ev["node"]: z is n_))]
                            if not evs_:
                                break
                            nd = evs_[-1]["node"]
                            if nd.get("k") == "AssignOp":
                                prov = ("computed", nd)
                                break
                            r_ = nd.get("r") or {}
                            while r_.get("k") in ("DropTemps", "Paren", "Cast"):
                                r_ = r_["e"]
                            if r_.get("k") == "Path" and r_.get("name") == "xend":
                                prov = ("copy", nd)
                                break
                            if r_.get("k") == "Path" and r_.get("res") == "local":
                                key_ = r_["id"]
                                lets_ = [l for l in tast.find(body["body"], lambda z: z.get("k") == "Let" and z["pat"].get("k") == "PBind" and z["pat"].get("id") == key_ and z.get("init") is not None)]
                                has_assign = any(ev.get("kind") == "assign" and ev.get("lv") and ev["lv"][0] == "key" and ev["lv"][1] == key_ for ev in sx.trace)
                                if lets_ and not has_assign:
                                    i_ = lets_[0]["init"]
                                    prov = ("copy", nd) if (i_.get("k") == "Path" and i_.get("name") == "xend") else ("computed", lets_[0])
                                    break
                                continue
                            if r_.get("k") == "Match" and (r_["scrut"].get("ty") or "") == "bool":
                                r_ = {"k": "If", "then": r_["arms"][0]["body"], "else": r_["arms"][1]["body"] if len(r_["arms"]) > 1 else None}
                            if r_.get("k") == "If":
                                # x = if last { xend } else { x + h }: on the landing path the flagged branch is a copy
                                arms_ = [r_["then"], r_.get("else")]
                                tails_ = []
                                for a_ in arms_:
                                    while a_ is not None and a_.get("k") == "Block" and not a_.get("stmts"):
                                        a_ = a_.get("tail") if a_.get("tail") is not None else a_.get("expr")
                                    tails_.append(a_)
                                if any(t_ is not None and t_.get("k") == "Path" and t_.get("name") == "xend" for t_ in tails_):
                                    prov = ("copy", nd)
                                    break
                            prov = ("computed", nd)
                            break
                        if prov and prov[0] == "computed":
                            bad = (tag, "the rounded sum `%s`" % tast.render(prov[1])[:50], prov[1])
        if bad:
            rep.violation("R-LAND-EXACT", key, "the step clipped to end the integration advances x to %s - a rounded sum, not xend itself - while completion is decided by %s: "
                          "when the sum is off by an ulp the test fails: the solver then takes another step of rounding size (possibly against the direction of integration; naccpt exceeds the reported intervals) "
                          "or cannot step at all and ends with StepSizeTooSmall instead of Success "
                          "(path variant %s)" % (bad[1] if isinstance(bad[1], str) else repr(bad[1]), sorted(guards)[0], bad[0]), bad[2].get("sp") if isinstance(bad[2], dict) else None)
        elif n_land == 0:
            rep.inconc("R-LAND-EXACT", key, "completion is decided by %s but no path variant landing on xend was found" % sorted(guards)[0])
        else:
            rep.ok("R-LAND-EXACT", key, "completion is decided by %s and the clipped step assigns x = xend exactly (%d landing variant(s))" % (sorted(guards)[0], n_land))


def r_status_success(rep, f):
    for mod, ty in SOLVERS:
        fn = solve_fn(mod, ty)
        body = f.body(fn)
        rep.fn(fn)
        xend = xend_atom(body)
        key0 = "R-STATUS-SUCCESS:%s" % fn
        try:
            variants = rk.analyse_variants(f, fn)
        except rk.AnalysisError as e:
            rep.inconc("R-STATUS-SUCCESS", key0, str(e))
            continue
        if xend is None:
            rep.inconc("R-STATUS-SUCCESS", key0, "no xend parameter")
            continue
        n_succ = 0
        problems = {}
        flagged = []   # (variant tag, event, flag key)
        kinds = set()
        for tag, sx, hk in variants:
            for ev, sv in exits_of(sx, hk, body):
                if not is_success(sv):
                    continue
                st = ev["state"]
                xv = st.get(hk.xkey)
                if ev["kind"] == "return" and not hk.in_main and hk.latch is None:
                    pass
                # pre-loop returns (empty state etc.) are not loop exits: require x == x0 == trivial case; handled below
                n_succ += 1
                if isinstance(xv, Poly) and xv == xend:
                    kinds.add("x == xend")
                    continue
                g = recognised_guard(ev, hk, xv, xend)
                if g:
                    kinds.add(g)
                    continue
                if ev["kind"] == "return" and hk.main_loop is not None and not tast.contains(hk.main_loop, lambda z: z is ev["node"]):
                    # a Success return before the main loop (degenerate input shortcut)
                    c = [tast.render(n["cond"]) for n, b, cv in ev["pc"]]
                    kinds.add("pre-loop shortcut under %s" % c[-1:] )
                    continue
                # flag form: the innermost guard is a boolean flag
                fl = None
                for node, branch, cval in reversed(ev["pc"]):
                    c = node["cond"]
                    if branch == "then" and c.get("k") == "Path" and c.get("ty") == "bool":
                        fl = c["id"]
                        break
                flagged.append((tag, sx, hk, ev, fl, xv))
        # flag analysis
        for tag, sx, hk, ev, fl, xv in flagged:
            carried = fl is not None and fl in (hk.pre_state or {})
            where = ev["node"].get("sp")
            if not carried:
                problems["not-landed"] = ("Success is returned on a path where the step was not made to land on xend: x = %r at the exit (path variant %s)" % (xv, tag), where)
                continue
            # the flag is carried across iterations: prove `flag => h == xend - x` inductively
            d = xv - Poly.atom("X") if isinstance(xv, Poly) else None
            hatom = d.single_atom() if d is not None else None
            skey = None
            if hatom:
                for k, v in (hk.head or {}).items():
                    if isinstance(v, Poly) and v.single_atom() == hatom:
                        skey = k
            if skey is None:
                problems["carried-flag"] = ("cannot identify the step variable behind x = %r for the carried last-step flag" % (xv,), where)
                continue
            # (1) establishment + (2) preservation
            TRUE, FALSE = Poly.atom("true"), Poly.atom("false")
            est_ok = True
            n_est = 0
            runs = list(variants)
            try:
                assume_true = rk.analyse_variants(f, fn, head_assume={fl: TRUE, skey: xend - Poly.atom("X")})
                assume_false = rk.analyse_variants(f, fn, head_assume={fl: FALSE})
            except rk.AnalysisError as e:
                rep.inconc("R-STATUS-SUCCESS", key0 + ":assume", str(e))
                continue
            # the iteration that REJECTS its step goes round the loop as well: the invariant must survive it (a rejected
            # landing step is shortened, so the flag has to be cleared on every rejected path)
            rejected_runs = []
            try:
                rejected_runs = [("rejected," + t_, s_, h_) for t_, s_, h_ in rk.analyse_variants(f, fn, head_assume={fl: TRUE, skey: xend - Poly.atom("X")}, accept="else")]
                rejected_runs += [("rejected," + t_, s_, h_) for t_, s_, h_ in rk.analyse_variants(f, fn, head_assume={fl: FALSE}, accept="else")]
            except rk.AnalysisError:
                rejected_runs = []
            for t2, s2, h2 in rejected_runs:
                for L in (h2.latch or []):
                    if L.get(fl) == TRUE:
                        hv, xl = L.get(skey), L.get(h2.xkey)
                        if not (isinstance(hv, Poly) and isinstance(xl, Poly) and hv == xend - xl):
                            problems["flag-invariant-rejected"] = ("after a rejected step the last-step flag is still set while the step is %r, not xend - x (x = %r): the next accepted step "
                                                                   "ends the run with Success before xend (path variant %s)" % (hv, xl, t2), where)
            for t2, s2, h2 in runs + assume_true + assume_false:
                for L in (h2.latch or []):
                    if L.get(fl) == TRUE or (isinstance(L.get(fl), Poly) and L.get(fl) != FALSE and t2 is None):
                        pass
                    if L.get(fl) == TRUE:
                        n_est += 1
                        hv, xl = L.get(skey), L.get(h2.xkey)
                        if not (isinstance(hv, Poly) and isinstance(xl, Poly) and hv == xend - xl):
                            est_ok = False
                            problems["flag-invariant"] = ("the last-step flag is carried to the next iteration with step %r, which is not xend - x (x = %r)" % (hv, xl), where)
                    elif isinstance(L.get(fl), Poly) and L.get(fl) != FALSE:
                        # unknown flag value at the latch: must not happen (flag is assigned literals only)
                        if t2 in [t for t, _, _ in assume_true + assume_false]:
                            problems["flag-unknown"] = ("the last-step flag has an undetermined value %r at the end of an iteration" % (L.get(fl),), where)
            if n_est == 0:
                problems["flag-never-set"] = ("Success depends on a flag that no analysed path sets", where)
            # (3) with the invariant assumed at the head, Success exits land on xend
            for t2, s2, h2 in assume_true + assume_false:
                for ev2, sv2 in exits_of(s2, h2, body):
                    if not is_success(sv2):
                        continue
                    x2 = ev2["state"].get(h2.xkey)
                    if h2.main_loop is not None and ev2["kind"] == "return" and not tast.contains(h2.main_loop, lambda z: z is ev2["node"]):
                        continue
                    if isinstance(x2, Poly) and x2 == xend:
                        kinds.add("x == xend (flag invariant: last => h == xend - x)")
                    elif recognised_guard(ev2, h2, x2, xend):
                        kinds.add("guard")
                    else:
                        problems["not-landed"] = ("Success is returned with x = %r although the last-step flag invariant holds at the loop head" % (x2,), ev2["node"].get("sp"))
        # a last-step flag that the analysis found constant (false) at the loop head was found so over the ACCEPTED
        # iterations; the iteration that rejects its step goes round the loop too and must leave the flag as it found it
        # (or keep the step tied to it): a rejected landing step is shortened, and a flag that survives ends the run early
        TRUE_, FALSE_ = Poly.atom("true"), Poly.atom("false")
        succ_flags = {}
        for tag, sx, hk in variants:
            for ev, sv in exits_of(sx, hk, body):
                if is_success(sv):
                    for node, branch, cval in ev["pc"]:
                        c = node["cond"]
                        if branch == "then" and c.get("k") == "Path" and c.get("ty") == "bool" and c.get("res") == "local":
                            succ_flags[c["id"]] = ev["node"].get("sp")
        done_flags = {fl for _, _, _, _, fl, _ in flagged}
        for fl, where in sorted(succ_flags.items()):
            if fl in done_flags or not all((hk.head or {}).get(fl) == FALSE_ for _, _, hk in variants):
                continue
            try:
                rej = rk.analyse_variants(f, fn, accept="else")
            except rk.AnalysisError as e:
                rep.inconc("R-STATUS-SUCCESS", key0 + ":rejected", str(e))
                continue
            for t2, s2, h2 in rej:
                skey = None
                for k, v in (h2.head or {}).items():
                    if isinstance(v, Poly) and v.single_atom() and any(isinstance(r_["x"], Poly) and r_["x"] == Poly.atom("X") + v for _, _, hk_ in variants for r_ in hk_.solout_calls if r_["in_main"]):
                        skey = k
                for L in (h2.latch or []):
                    lv = L.get(fl)
                    if lv == FALSE_:
                        continue
                    hv, xl = (L.get(skey) if skey else None), L.get(h2.xkey)
                    if lv == TRUE_ and isinstance(hv, Poly) and isinstance(xl, Poly) and hv == xend - xl:
                        continue
                    problems["flag-invariant-rejected"] = ("after a rejected step the last-step flag is %s while the step is %r, not xend - x (x = %r): the next accepted step "
                                                           "ends the run with Success before xend (path variant rejected,%s)" % ("still set" if lv == TRUE_ else "undetermined (%r)" % (lv,), hv, xl, t2), where)
        if n_succ == 0:
            rep.inconc("R-STATUS-SUCCESS", key0, "no Success exit reached by the analysis")
            continue
        for pk, (msg, where) in problems.items():
            rep.violation("R-STATUS-SUCCESS", "%s:%s" % (key0, pk), msg, where)
        if not problems:
            rep.ok("R-STATUS-SUCCESS", key0, "%d Success exit(s) over %d path variant(s): %s" % (n_succ, len(variants), "; ".join(sorted(str(k) for k in kinds))[:300]))


# ------------------------------------------------------------------------------------------ R-LAND-COVER
class CoverMon(mon.Monitor):
    """(tested, accepted in this iteration, landing test seen since acceptance).
    tested is False at entry; a landing test sets it; at the end of an iteration that accepted a step
    without a landing test after the acceptance it is reset (a new step size was chosen untested)."""
    init = ((False, False, False),)

    def __init__(self, fn, main, xid, timevars, stage_calls):
        super().__init__()
        self.fn, self.main, self.xid, self.timevars, self.stage_calls = fn, main, xid, timevars, stage_calls

    def is_landing_test(self, c):
        # a named test: `let last = (x + h - xend) * posneg > 0.0; if last { .. }`
        c0 = c
        for _ in range(3):
            if c.get("k") == "Unary" and c.get("op") == "Not":
                c = c["e"]
                continue
            if c.get("k") == "Path" and c.get("res") == "local" and c.get("ty") == "bool":
                scope = getattr(self, "fn_body", None) or self.main
                lets = tast.find(scope, lambda z: z.get("k") == "Let" and z["pat"].get("k") == "PBind" and z["pat"].get("id") == c.get("id") and z.get("init") is not None)
                assigned = tast.find(scope, lambda z: z.get("k") == "Assign" and z["l"].get("k") == "Path" and z["l"].get("id") == c.get("id"))
                if len(lets) == 1 and not assigned:
                    c = lets[0]["init"]
                    continue
                if len(lets) == 1 and assigned:
                    # a mutable flag tested right after its declaration (`let mut last = <test>; if last { .. }`): the value
                    # tested is the initialiser when nothing between the two statements writes the flag
                    cid = c.get("id")
                    done = False
                    for blk in tast.find(scope, lambda z: z.get("k") == "Block" and any(st is lets[0] for st in z.get("stmts", []))):
                        sts = list(blk.get("stmts", [])) + ([blk["tail"]] if blk.get("tail") is not None else [])
                        i0 = next(i for i, st in enumerate(sts) if st is lets[0])
                        for st in sts[i0 + 1:]:
                            inner = st.get("e") if st.get("k") in ("ExprStmt", "Semi") else st
                            if inner is not None and inner.get("k") == "If" and inner["cond"] is c0:
                                c = lets[0]["init"]
                                done = True
                                break
                            if tast.contains(st, lambda z: z.get("k") in ("Assign", "AssignOp") and z["l"].get("k") == "Path" and z["l"].get("id") == cid):
                                break
                    if done:
                        continue
            break
        if c.get("k") == "Call" and c.get("def") in getattr(self, "helpers", {}):
            # a private predicate `fn overshoots(x, h, xend, posneg) -> bool { (x + h - xend) * posneg > 0.0 }`
            hb = self.helpers[c["def"]]
            tail = hb["body"]
            while tail is not None and tail.get("k") == "Block" and not tail.get("stmts"):
                tail = tail.get("tail") if tail.get("tail") is not None else tail.get("expr")
            if tail is not None and tail.get("k") == "Binary" and tail["op"] in ("Gt", "Ge", "Lt", "Le", "Eq"):
                me = any(a.get("k") == "Path" and a.get("name") == "xend" for a in c["args"])
                mv = any(tast.contains(a, lambda z: z.get("k") == "Path" and z.get("id") in self.timevars) for a in c["args"])
                return me and mv
            return False
        if c.get("k") != "Binary" or c["op"] not in ("Gt", "Ge", "Lt", "Le", "Eq"):
            return False

        def mentions(e, pred, depth=0):
            """e, with named sub-expressions (`let overshoot = (x + h - xend) * posneg;`) looked through"""
            if tast.contains(e, pred):
                return True
            if depth >= 3:
                return False
            for q in tast.find(e, lambda z: z.get("k") == "Path" and z.get("res") == "local"):
                lets = tast.find(self.main, lambda z: z.get("k") == "Let" and z["pat"].get("k") == "PBind" and z["pat"].get("id") == q.get("id") and z.get("init") is not None)
                if len(lets) == 1 and not tast.contains(self.main, lambda z: z.get("k") in ("Assign", "AssignOp") and z["l"].get("k") == "Path" and z["l"].get("id") == q.get("id")):
                    if mentions(lets[0]["init"], pred, depth + 1):
                        return True
            return False
        me = mentions(c, lambda z: z.get("k") == "Path" and z.get("name") == "xend")
        mv = mentions(c, lambda z: z.get("k") == "Path" and z.get("id") in self.timevars)
        return me and mv

    def step(self, st, ev):
        kind, n = ev[0], ev[1]
        t, a, ta = st
        if kind in ("then", "else") and n.get("k") == "If" and self.is_landing_test(n["cond"]):
            return ((True, a, True if a else ta),)
        if kind == "else" and is_solout_iflet(n):
            return ()
        if kind == "latch" and n is self.main:
            if a and not ta:
                return ((False, False, False),)
            return ((t, False, False),)
        if kind == "node":
            if n.get("k") == "AssignOp" and n["l"].get("k") == "Field" and (n["l"].get("fdef") or "") == "methods::Steps::accepted":
                return ((t, True, False),)
            if n.get("k") == "MethodCall" and any(n is c for c in self.stage_calls):
                if not t:
                    self.violate("R-LAND-COVER:%s:untested-step" % self.fn,
                                 "a stage is evaluated at x + c*h although no landing test (comparison of x/h with xend) was made since the step size was "
                                 "last chosen (initialisation or accepted-step update): the step can pass xend or end on it unnoticed; path: %s"
                                 % " -> ".join(self.cur_trail[-4:]), n, self.cur_trail)
                    return ((True, a, ta),)
        return (st,)


def r_land_cover(rep, f):
    for mod, ty in SOLVERS:
        fn = solve_fn(mod, ty)
        body = f.body(fn)
        main = main_loop_of(body)
        key = "R-LAND-COVER:%s" % fn
        if main is None:
            rep.inconc("R-LAND-COVER", key, "no main loop")
            continue
        # stage evaluations: ode calls in the main loop outside callback-match arms
        arms = []
        for m in tast.find(main, lambda z: z.get("k") == "Match" and z["scrut"].get("k") == "MethodCall" and z["scrut"].get("def") == SOLOUT):
            arms.append(m)
        stage_calls = [c for c in tast.calls(main, ODE) if not any(tast.contains(m, lambda z: z is c) for m in arms)]
        # variables the stage abscissae depend on (transitively through let/assign of locals)
        tv = set()
        for c in stage_calls:
            for p in tast.find(c["args"][0], lambda z: z.get("k") == "Path" and z.get("res") == "local"):
                tv.add(p["id"])
        changed = True
        while changed:
            changed = False
            for n in tast.find(body["body"], lambda z: (z.get("k") == "Let" and z.get("init") is not None and tast.contains(z["pat"], lambda q: q.get("k") == "PBind" and q.get("id") in tv))
                               or (z.get("k") == "Assign" and z["l"].get("k") == "Path" and z["l"].get("id") in tv)):
                src = n.get("init") if n["k"] == "Let" else n["r"]
                for p in tast.find(src, lambda z: z.get("k") == "Path" and z.get("res") == "local" and z.get("ty") in ("f64", "f32")):
                    if p["id"] not in tv:
                        tv.add(p["id"])
                        changed = True
        xid = None
        m = CoverMon(fn, main, xid, tv, stage_calls)
        m.fn_body = body["body"]
        m.helpers = {d_: b_ for d_, b_ in f.bodies.items() if d_.startswith("methods::") and b_.get("params") is not None and "::solve" not in d_}
        mon.Runner(m).run_fn(body)
        for k2, msg, node, trail in m.violations:
            rep.violation("R-LAND-COVER", k2, msg, node.get("sp") if isinstance(node, dict) else None)
        if not m.violations:
            rep.ok("R-LAND-COVER", key, "%d stage evaluation site(s), each preceded by a landing test since the last (re)choice of the step" % len(stage_calls),
                   nontrivial=len(stage_calls) > 0)


# ------------------------------------------------------------------------------------------ R-LAND-STRETCH
def r_land_stretch(rep, f):
    """literal factor multiplying the step in a landing test lies in [1, 1.01] (the final step is stretched by at most 1%)"""
    for mod, ty in SOLVERS:
        fn = solve_fn(mod, ty)
        body = f.body(fn)
        main = main_loop_of(body)
        if main is None:
            continue
        tests = tast.find(body["body"], lambda z: z.get("k") == "If" and z["cond"].get("k") == "Binary" and z["cond"]["op"] in ("Gt", "Ge")
                          and tast.contains(z["cond"]["l"], lambda q: q.get("k") == "Path" and q.get("name") == "xend")
                          and tast.contains(z["then"], lambda q: q.get("k") == "Assign" and q["r"].get("k") == "Binary" and q["r"]["op"] == "Sub"
                                            and tast.contains(q["r"]["l"], lambda w: w.get("k") == "Path" and w.get("name") == "xend")))
        for j, t in enumerate(tests):
            key = "R-LAND-STRETCH:%s:test%d" % (fn, j)
            # literals multiplying / dividing a step-like operand inside the comparison
            bad = []
            facs = []
            for b in tast.find(t["cond"]["l"], lambda z: z.get("k") == "Binary" and z["op"] in ("Mul", "Div")):
                for side, other in ((b["l"], b["r"]), (b["r"], b["l"])):
                    v = None
                    if side.get("k") == "Lit" and side.get("lk") == "Float":
                        v = Fraction(side["v"].replace("_", ""))
                    elif side.get("k") == "Path" and side.get("res") == "local":
                        lets = tast.find(body["body"], lambda z: z.get("k") == "Let" and z["pat"].get("id") == side["id"] and z.get("init") is not None
                                         and z["init"].get("k") == "Lit" and z["init"].get("lk") == "Float")
                        if lets:
                            v = Fraction(lets[0]["init"]["v"].replace("_", ""))
                    if v is None:
                        continue
                    if b["op"] == "Div" and side is b["r"]:
                        v = 1 / v if v != 0 else None
                    elif b["op"] == "Div":
                        continue
                    if v is None:
                        continue
                    facs.append(v)
                    if not (Fraction(1) <= v <= Fraction(101, 100)):
                        bad.append(v)
            if bad:
                rep.violation("R-LAND-STRETCH", key, "the landing test stretches/shrinks the step by a factor %s outside [1, 1.01]" % [float(x) for x in bad], t.get("sp"))
            else:
                rep.ok("R-LAND-STRETCH", key, "stretch factor(s) %s" % ([float(x) for x in facs] or [1.0]))


def r_land_stretch_sem(rep, f):
    """semantic form of the 1% rule: a test in a main loop that replaces the step variable by the remaining distance
    (`if C { h = xend - x }`) is evaluated numerically at model points: the step P it would otherwise take (the value at the
    loop head, or the value the else-branch assigns) and the remaining distance D = r * P for ratios r on both sides of 1.01,
    both directions, several magnitudes and abscissae. C may hold only where r <= 1.01: the step is stretched by at most 1%.
    Tests whose operands include quantities with no model value (user parameters, error norms) are left to the literal rule."""
    import pnum
    RS = [0.2, 0.5, 0.9, 0.99, 1.0, 1.005, 1.0099, 1.010001, 1.011, 1.02, 1.1, 1.3, 1.49, 1.51, 2.0, 3.7, 10.0]
    for mod, ty in SOLVERS:
        fn = solve_fn(mod, ty)
        key = "R-LAND-STRETCH:%s:semantic" % fn
        try:
            variants = rk.analyse_variants(f, fn)
        except rk.AnalysisError as e:
            rep.inconc("R-LAND-STRETCH", key, str(e))
            continue
        seen = set()
        worst = None
        n_eval = 0
        n_tests = set()
        skipped = []
        for tag, sx, hk in variants:
            if hk.main_loop is None:
                continue
            assigns = {}
            for ev in sx.trace:
                if ev.get("kind") == "assign" and isinstance(ev.get("node"), dict) and ev.get("lv") and ev["lv"][0] == "key":
                    assigns[id(ev["node"])] = ev
            ifs = {id(ev["node"]): ev for ev in sx.trace if ev.get("kind") == "if" and isinstance(ev.get("cond"), Poly)}
            for a, parents in tast.find_with_parents(hk.main_loop, lambda z: z.get("k") == "Assign" and id(z) in assigns
                                                     and tast.contains(z["r"], lambda q: q.get("k") == "Path" and q.get("name") == "xend")
                                                     and tast.contains(z["r"], lambda q: q.get("k") == "Binary" and q["op"] == "Sub")):
                nd = next((p_ for p_ in reversed(parents) if p_.get("k") == "If"), None)
                if nd is None or id(nd) not in ifs or not tast.contains(nd["then"], lambda z: z is a):
                    continue
                cond = ifs[id(nd)]["cond"]
                if cond.is_const() or cond.single_atom() in ("true", "false"):
                    continue   # decided earlier on this path (a named test that an earlier `if` already refined)
                ck = (id(nd), repr(cond))
                if ck in seen:
                    continue
                seen.add(ck)
                vkey = assigns[id(a)]["lv"][1]
                D = assigns[id(a)].get("value")
                # P: what the variable holds when the test fails
                P = None
                if nd.get("else") is not None:
                    els = [assigns[id(z)] for z in tast.find(nd["else"], lambda z: z.get("k") == "Assign" and id(z) in assigns and assigns[id(z)]["lv"][1] == vkey)]
                    if els:
                        P = els[-1].get("value")
                if P is None:
                    P = (hk.head or {}).get(vkey)
                pat = P.single_atom() if isinstance(P, Poly) else None
                if pat is None or not isinstance(D, Poly) or pat in ("X", "xend"):
                    skipped.append("`%s`: the step it replaces is not a single value" % tast.render(nd["cond"])[:50])
                    continue
                # signed remaining distance A (D itself, or the argument of the |.| it is)
                A = D
                magnitude = False
                da = D.single_atom()
                if da and DEFS.get(da, ("",))[0] == "abs":
                    A = DEFS[da][1][0]
                    magnitude = True
                done = False
                for sgn in (1.0, -1.0):
                    for H in (0.25, 3.0):
                        for X in (1.0, -2.0, 0.0):
                            for r in RS:
                                Pv = H if magnitude else sgn * H
                                env = {"X": X, pat: Pv, "x0": X - 5.0 * sgn * H, "xend": 0.0}
                                hh = (hk.head or {}).get(vkey)
                                if isinstance(hh, Poly) and hh.single_atom() and hh.single_atom() not in env:
                                    env[hh.single_atom()] = 0.5 * Pv
                                try:
                                    A0 = pnum.value(A, env, None)
                                    env["xend"] = r * sgn * H - A0
                                    if abs(pnum.value(A, env, None) - r * sgn * H) > 1e-9 * max(1.0, H):
                                        raise pnum.NoEval("remaining distance is not xend - x")
                                    c = pnum.value(cond, env, None)
                                except pnum.NoEval as e:
                                    skipped.append("`%s`: %s" % (tast.render(nd["cond"])[:50], e))
                                    done = True
                                    break
                                except ZeroDivisionError:
                                    continue
                                n_eval += 1
                                n_tests.add(id(nd))
                                if c is True and r > 1.01 * (1 + 1e-9) and (worst is None or r > worst[0]):
                                    worst = (r, nd, tag, sgn)
                            if done:
                                break
                        if done:
                            break
                    if done:
                        break
        if worst:
            r, nd, tag, sgn = worst
            rep.violation("R-LAND-STRETCH", key, "the test `%s` replaces the step by the remaining distance although that distance is %.4g times the step (%s integration): "
                          "the last reported interval is longer than the step size by more than the permitted 1%% (path variant %s)" % (tast.render(nd["cond"])[:70], r, "forward" if sgn > 0 else "backward", tag), nd.get("sp"))
        elif n_eval:
            rep.ok("R-LAND-STRETCH", key, "%d clip test(s) hold only for remaining/step <= 1.01 at %d model evaluations" % (len(n_tests), n_eval))
        elif skipped:
            rep.note("R-LAND-STRETCH %s: clip test not evaluated numerically (%s)" % (fn, skipped[0][:160]))


# ------------------------------------------------------------------------------------------ R-AFF-CRANGE (all six)
def r_crange_all(rep, f):
    """every stage of a step is evaluated at x + tau*(step taken) with 0 <= tau <= 1"""
    for mod, ty in SOLVERS:
        fn = solve_fn(mod, ty)
        try:
            variants = rk.analyse_variants(f, fn)
        except rk.AnalysisError as e:
            rep.inconc("R-AFF-CRANGE", "R-AFF-CRANGE:%s" % fn, str(e))
            continue
        bad = {}
        n = 0
        taus = set()
        for tag, sx, hk in variants:
            souts = [r for r in hk.solout_calls if r["in_main"]]
            if len(souts) != 1 or not isinstance(souts[0]["x"], Poly):
                continue
            step = souts[0]["x"] - Poly.atom("X")
            for s in hk.stages:
                if s.get("head") or not s.get("in_main"):
                    continue
                T = s["T"]
                if not isinstance(T, Poly):
                    bad["stage@%s" % s["node"].get("sp", "?").split(":")[1]] = ("stage abscissa is not a scalar expression", s["node"])
                    continue
                # evaluations after a ModifiedSolution callback are at the (new) x itself
                d = T - Poly.atom("X")
                n += 1
                if d.is_zero():
                    taus.add(Fraction(0))
                    continue
                from poly import const_ratio
                q = const_ratio(d, step)
                if q is None and T == souts[0]["x"]:
                    q = Fraction(1)
                if q is None or not (0 <= q <= 1):
                    bad["stage@%s" % tast.render(s["node"]["args"][0])] = ("a stage is evaluated at %r while the step covers [X, %r] (path variant %s)" % (T, souts[0]["x"], tag), s["node"])
                else:
                    taus.add(q)
        key = "R-AFF-CRANGE:%s" % fn
        for k, (msg, node) in bad.items():
            rep.violation("R-AFF-CRANGE", "%s:%s" % (key, k), msg, node.get("sp"))
        if not bad:
            if n == 0:
                rep.inconc("R-AFF-CRANGE", key, "no in-loop stage evaluation analysed")
            else:
                rep.ok("R-AFF-CRANGE", key, "stage abscissae tau in %s over %d path variant(s)" % (sorted(float(t) for t in taus), len(variants)))


# ------------------------------------------------------------------------------------------ R-LAND-FINISH
def r_land_finish(rep, f):
    """The iteration whose accepted step lands on xend ends the run there: it must not go round the loop again.  A solver that
    leaves the decision to the next loop head runs its budget and step-size tests first - with x already on xend they report
    NeedLargerNMax (max_steps equal to the steps needed) or StepSizeTooSmall (nothing left to step over) for a run that
    covered the interval.  Symbolically: no path variant has an end-of-iteration state with x == xend."""
    n_land = 0
    for mod, ty in SOLVERS:
        fn = solve_fn(mod, ty)
        body = f.body(fn)
        xend = xend_atom(body)
        key = "R-LAND-FINISH:%s" % fn
        try:
            variants = rk.analyse_variants(f, fn)
        except rk.AnalysisError as e:
            rep.inconc("R-LAND-FINISH", key, str(e))
            continue
        if xend is None:
            continue
        bad, lands = None, 0
        for tag, sx, hk in variants:
            lands += sum(1 for r in hk.solout_calls if r["in_main"] and isinstance(r["x"], Poly) and r["x"] == xend)
            for L in (hk.latch or []):
                xl = L.get(hk.xkey)
                if isinstance(xl, Poly) and xl == xend and bad is None:
                    # a state that got here on the false edge of `x == xend` (or the true edge of `!=`) with x IS xend does not exist
                    infeasible = False
                    for c_, t_ in L.get(FACTS, frozenset()):
                        a_ = c_.single_atom() if isinstance(c_, Poly) else None
                        d_ = DEFS.get(a_) if a_ else None
                        if d_ and d_[0] in ("eq", "ne") and len(d_[1]) == 2 and all(isinstance(q, Poly) for q in d_[1]):
                            same = d_[1][0] == d_[1][1]
                            if same and ((d_[0] == "eq" and not t_) or (d_[0] == "ne" and t_)):
                                infeasible = True
                    if not infeasible:
                        bad = tag
        n_land += lands
        if bad:
            rep.violation("R-LAND-FINISH", key, "an iteration that advanced x to xend reaches the end of the loop body and starts another iteration (path variant %s): the "
                          "tests at the loop head (step budget, step-size underflow) run before completion is noticed and can end a run that covered the interval with "
                          "NeedLargerNMax or StepSizeTooSmall" % bad, body.get("sp"))
        elif lands == 0:
            rep.note("R-LAND-FINISH %s: no path variant hands x == xend to the callback symbolically (completion decided otherwise)" % fn)
            rep.ok("R-LAND-FINISH", key, "no end-of-iteration state with x == xend", nontrivial=False)
        else:
            rep.ok("R-LAND-FINISH", key, "%d landing variant(s): none reaches the end of the loop body" % lands)
    if n_land < 4:
        rep.inconc("R-LAND-FINISH", "R-LAND-FINISH:floor", "only %d landing variants found over all solvers (expected >= 4)" % n_land)
