"""C12 Output options do not perturb the integration."""
import re

import facts
import handler as H
import obs
import rk
from symx import Buf
from poly import Poly
from protocol import SOLVERS, solve_fn

LEVEL = "other"


def norm(v):
    return re.sub(r"#\d+", "#", repr(v))


def r_dense_indep(rep, f):
    """the stepper's own dense_output flag cannot change the trajectory: when the `dense_output` branches are joined,
    nothing carried to the next iteration (state, derivative slot, scalars declared before the loop) depends on the join"""
    import tast
    from poly import reaches
    for mod, ty in SOLVERS:
        fn = solve_fn(mod, ty)
        key = "R-DENSE-INDEP:%s" % fn
        try:
            sx, hk = rk.analyse_solve(f, fn, dense=None)
        except rk.AnalysisError as e:
            rep.inconc("R-DENSE-INDEP", key, str(e))
            continue
        if not hk.latch:
            rep.inconc("R-DENSE-INDEP", key, "no latch state")
            continue
        phis = set()
        sites = 0
        dense_bufs = set()
        cond_of = {id(ev["node"]): ev["cond"] for ev in sx.trace if ev["kind"] == "if"}
        for ev in sx.trace:
            if ev["kind"] == "joinphi" and rk.is_dense_cond(ev["node"], cond_of.get(id(ev["node"]))):
                sites += 1
                for k, v in ev["created"].items():
                    if isinstance(v, Buf):
                        dense_bufs.add(k)
                for k, v in ev["created"].items():
                    if isinstance(v, Poly):
                        phis |= {a for a in v.atoms() if a.startswith("phi~")}
                    elif isinstance(v, Buf):
                        for pv in v.blocks.values():
                            if isinstance(pv, Poly):
                                phis |= {a for a in pv.atoms() if a.startswith("phi~")}
                        if v.name.startswith("phi~"):
                            phis.add(v.name)
        # statistics counters legitimately count the extra dense stages of the low-level flag
        stat_roots = {l["pat"]["id"] for l in tast.find(f.body(fn)["body"], lambda z: z.get("k") == "Let" and z["pat"].get("k") == "PBind"
                                                       and z["pat"].get("ty") in ("methods::Evals", "methods::Steps"))}
        carried = [k for k in hk.pre_state if not any(k == r or k.startswith(r + ".") for r in stat_roots)]
        # the stepper's configuration is read through `&self`: it cannot change, whatever a branch condition taught the
        # interpreter about it on one side of a join (a test of `self.dense_output && ..` refines the field's value there)
        # ... and a scalar local that nothing in the loop assigns (a loop invariant hoisted in front of it) cannot change either
        ml_ = hk.main_loop
        if ml_ is not None:
            touched = {a_["l"].get("id") for a_ in tast.find(ml_, lambda z: z.get("k") in ("Assign", "AssignOp") and z["l"].get("k") == "Path")}
            touched |= {q.get("id") for a_ in tast.find(ml_, lambda z: z.get("k") == "AddrOf" and z.get("mut")) for q in tast.find(a_, lambda z: z.get("k") == "Path")}
            import re as _re
            carried = [k for k in carried if not _re.match(r"^\d+\.\d+$", str(k)) or k in touched or not isinstance(hk.pre_state.get(k), Poly)]
        p0 = (f.body(fn).get("params") or [{}])[0]
        if (p0.get("ty") or "").startswith("&") and not (p0.get("ty") or "").startswith("&mut"):
            carried = [k for k in carried if not str(sx.names.get(k, k)).startswith("self.")]
        bad = []
        n = 0
        for L in hk.latch:
            for k in carried:
                v = L.get(k)
                name = sx.names.get(k, k)
                vals = []
                if isinstance(v, Poly):
                    vals = [v]
                elif isinstance(v, Buf) and k in (hk.ykey,) + tuple(hk.slots):
                    vals = [pv for pv in v.blocks.values() if isinstance(pv, Poly)] or [v.get(0)]
                for pv in vals:
                    n += 1
                    if reaches(pv, lambda a: a in phis):
                        bad.append(name)
        # buffers written only under the dense_output branch must be dead at the loop head: their (generic) head content
        # must not flow into anything carried
        for k in dense_bufs:
            hb = (hk.head or {}).get(k)
            if not isinstance(hb, Buf):
                continue
            pref = hb.name + "@"
            for L in hk.latch:
                for k2 in carried:
                    v = L.get(k2)
                    vals = [v] if isinstance(v, Poly) else ([pv for pv in v.blocks.values() if isinstance(pv, Poly)] if isinstance(v, Buf) and k2 in (hk.ykey,) + tuple(hk.slots) else [])
                    for pv in vals:
                        if reaches(pv, lambda a: a.startswith(pref)):
                            bad.append("%s (through buffer `%s`, which is only written under dense_output but read by the next step)" % (sx.names.get(k2, k2), sx.names.get(k, k)))
        if bad:
            rep.violation("R-DENSE-INDEP", key, "value(s) carried to the next iteration depend on the stepper's dense_output branch: %s" % sorted(set(bad))[:4],
                          hk.main_loop.get("sp"))
        else:
            rep.ok("R-DENSE-INDEP", key, "%d dense_output branch join(s); %d carried values independent of them" % (sites, n), nontrivial=sites > 0)


def run(rep, tier):
    f = facts.load("default")
    hc = H.HandlerCtx(f)
    if hc.body is None:
        rep.inconc("anchor", "anchor:DefaultSolOut::solout", "default output handler not found")
        return
    rep.fn(hc.body["def"])
    rep.rule("R-OBS-FIELDS", "Options::t_eval/dense_output are read only in solve_ivp; no value derived from them is passed to a stepper builder or solve(); no dense_output builder setter is called")
    rep.rule("R-OBS-READONLY", "DefaultSolOut::solout never stores through its x / y parameters")
    rep.rule("R-OBS-FLAGS", "DefaultSolOut::solout returns only Continue or Interrupt (Interrupt only under the terminal-count test: R-TERM-COND)")
    rep.rule("R-DETERMINISM", "nothing reachable from solve_ivp calls a clock/thread/env/fs/hash/rand/interior-mutability API, uses unsafe or a static")
    rep.rule("R-DENSE-INDEP", "the values carried to the next iteration (state, derivative slot, all scalars) are symbolically identical with the stepper's dense flag on and off")
    obs.r_obs_fields(rep, f)
    H.r_obs_readonly(rep, hc)
    H.r_obs_flags(rep, hc)
    H.r_term(rep, hc)
    obs.r_determinism(rep, f)
    r_dense_indep(rep, f)
    rep.explanation = ("Information-flow argument, decided structurally: a stepper's state evolves as a function of its builder arguments, the right-hand side and "
                       "what the callback returns/writes; the rules show that t_eval / dense_output / event configuration reach none of these except through "
                       "Interrupt under the terminal-count test, that the handler cannot write the solver's x/y, and that no ambient nondeterminism is reachable. "
                       "Assumes the user's IVP implementation is pure.")
    rep.assumptions = ["user-supplied IVP::ode/jac/events are deterministic and side-effect free"]
