"""Dense-output bookkeeping rules (C06): R-SOL-ERRMAP, R-CONT-LAYOUT, R-SEG-KEEP, R-SEG-LOOKUP."""
import tast
import rk
from poly import Poly, DEFS
from protocol import SOLVERS, solve_fn

ERRI = "error::InterpolationError::"
SOLN = "solve::solution::Solution::"
CONT = "solve::cont::ContinuousOutput::"
METHODS = {"rk4": "RK4", "rk23": "RK23", "dopri5": "DOPRI5", "dop853": "DOP853", "radau": "RADAU", "bdf": "BDF"}


class _NoEval(Exception):
    pass


class NumEval:
    """Evaluates a small pure f64/bool expression at model points (finite abstract evaluation: the expressions handled
    here touch their inputs only through +, -, min, max, abs and comparisons, so a handful of representative points covers
    every ordering of the inputs). Locals are resolved through their (single) `let`; leaves get model values from `leaf`."""

    facts = None          # set to the fact base to let the evaluator step into crate-local helpers

    def __init__(self, fn_body, leaf):
        self.body = fn_body
        self.leaf = leaf      # fn(node) -> float | None
        self.env = {}         # parameter id of a helper being evaluated -> value

    def let_of(self, vid):
        """defining expression of a local: plain let, or element j of a tuple let with a tuple initialiser"""
        for l in tast.find(self.body, lambda z: z.get("k") == "Let" and z.get("init") is not None):
            pt = l["pat"]
            if pt.get("k") == "PBind" and pt.get("id") == vid:
                return l["init"]
            if pt.get("k") == "PTuple" and l["init"].get("k") == "Tuple":
                for j, q in enumerate(pt["pats"]):
                    if q.get("k") == "PBind" and q.get("id") == vid and j < len(l["init"]["elems"]):
                        return l["init"]["elems"][j]
            if pt.get("k") == "PTuple":
                # `let (left, right) = helper(seg);`: component j of the initialiser's (tuple) value
                for j, q in enumerate(pt["pats"]):
                    if q.get("k") == "PBind" and q.get("id") == vid:
                        return {"k": "_Proj", "e": l["init"], "j": j}
        return None

    def ev(self, e, depth=0):
        if e is None or depth > 40:
            raise _NoEval("depth")
        v = self.leaf(e)
        if v is not None:
            return v
        k = e.get("k")
        if k in ("Cast", "AddrOf", "DropTemps"):
            return self.ev(e["e"], depth + 1)
        if k == "Tuple":
            return tuple(self.ev(x, depth + 1) for x in e["elems"])
        if k == "_Proj":
            v = self.ev(e["e"], depth + 1)
            if isinstance(v, tuple) and e["j"] < len(v):
                return v[e["j"]]
            raise _NoEval("projection of a non-tuple")
        if k == "Unary":
            x = self.ev(e["e"], depth + 1)
            if e["op"] == "Deref":
                return x
            if e["op"] == "Neg":
                return -x
            if e["op"] == "Not":
                return not x
        if k == "Lit":
            if e.get("lk") in ("Float", "Int"):
                return float(e["v"])
            if e.get("lk") == "Bool":
                return bool(e["v"])
        if k == "Path" and e.get("res") == "local":
            if e["id"] in self.env:
                return self.env[e["id"]]
            init = self.let_of(e["id"])
            if init is None:
                raise _NoEval("local %s" % e.get("name"))
            return self.ev(init, depth + 1)
        if k in ("Call", "MethodCall") and self.facts is not None and (e.get("def") or "") in self.facts.bodies and self.facts.inlinable(e["def"]):
            # a private helper: evaluate its body with the scalar arguments bound (struct arguments are seen through `leaf`)
            cb = self.facts.bodies[e["def"]]
            args = ([e["recv"]] if k == "MethodCall" else []) + list(e["args"])
            saved_body, saved_env = self.body, dict(self.env)
            new_env = dict(self.env)
            for p_, a_ in zip(cb.get("params", []), args):
                if p_.get("k") == "PBind":
                    try:
                        new_env[p_["id"]] = self.ev(a_, depth + 1)
                    except _NoEval:
                        pass
            self.body, self.env = cb["body"], new_env
            try:
                return self.ev(cb["body"], depth + 1)
            finally:
                self.body, self.env = saved_body, saved_env
        if k == "Block" and all(st.get("k") == "Let" for st in e.get("stmts", [])):
            # locals are resolved lazily through let_of
            return self.ev(e.get("tail") if e.get("tail") is not None else e.get("expr"), depth + 1)
        if k == "Binary":
            op = e["op"]
            l = self.ev(e["l"], depth + 1)
            if op == "And":
                return bool(l) and bool(self.ev(e["r"], depth + 1))
            if op == "Or":
                return bool(l) or bool(self.ev(e["r"], depth + 1))
            r = self.ev(e["r"], depth + 1)
            table = {"Add": lambda: l + r, "Sub": lambda: l - r, "Mul": lambda: l * r, "Lt": lambda: l < r, "Le": lambda: l <= r,
                     "Gt": lambda: l > r, "Ge": lambda: l >= r, "Eq": lambda: l == r, "Ne": lambda: l != r}
            if op in table:
                return table[op]()
        if k == "MethodCall":
            nm = e.get("name")
            if nm in ("min", "max") and len(e["args"]) == 1:
                x, y = self.ev(e["recv"], depth + 1), self.ev(e["args"][0], depth + 1)
                return min(x, y) if nm == "min" else max(x, y)
            if nm == "abs" and not e["args"]:
                return abs(self.ev(e["recv"], depth + 1))
            if nm == "contains" and len(e["args"]) == 1 and e["recv"].get("k") in ("Struct", "Call"):
                rg = e["recv"]
                fl = {x["name"]: x["e"] for x in rg.get("fields", [])} if rg.get("k") == "Struct" else {}
                args = rg.get("args", [])
                lo = self.ev(fl.get("start") or (args[0] if args else None), depth + 1)
                hi = self.ev(fl.get("end") or (args[1] if len(args) > 1 else None), depth + 1)
                x = self.ev(e["args"][0], depth + 1)
                incl = "Inclusive" in (rg.get("def") or "")
                return lo <= x <= hi if incl else lo <= x < hi
        raise _NoEval("node %s" % k)


def _span_roles(fn_body):
    """locals bound by a tuple `let (a, b) = <call>` (the span ends as delivered by t_span()): id -> 0 | 1"""
    roles = {}
    for l in tast.find(fn_body, lambda z: z.get("k") == "Let" and z.get("init") is not None and z["pat"].get("k") == "PTuple" and z["init"].get("k") != "Tuple"):
        ps = l["pat"]["pats"]
        if len(ps) == 2 and all(q.get("k") == "PBind" for q in ps):
            roles[ps[0]["id"]] = 0
            roles[ps[1]["id"]] = 1
    return roles


def _guards_of(b, marker):
    """boolean expressions that decide whether the construct satisfying `marker` is reached: conditions of enclosing ifs
    (with the branch it sits in), and closure predicates of find/any/position feeding an enclosing `if let` / `match` / `if`"""
    out = []
    for node, parents in tast.find_with_parents(b["body"], marker):
        g = []
        for a in parents:
            if a.get("k") == "If":
                in_then = tast.contains(a["then"], lambda z: z is node)
                in_else = a.get("else") is not None and tast.contains(a["else"], lambda z: z is node)
                if not (in_then or in_else):
                    continue
                c = a["cond"]
                scr = c.get("init") if c.get("k") == "LetExpr" else c
                its = tast.find(scr, lambda z: z.get("k") == "MethodCall" and z.get("name") in ("find", "any", "position") and z["args"] and z["args"][0].get("k") == "Closure")
                if its:
                    g.append((its[0]["args"][0]["body"], in_then, its[0]["args"][0]))
                elif c.get("k") != "LetExpr":
                    g.append((c, in_then, None))
            if a.get("k") == "Match":
                its = tast.find(a["scrut"], lambda z: z.get("k") == "MethodCall" and z.get("name") in ("find", "any", "position") and z["args"] and z["args"][0].get("k") == "Closure")
                for arm in a["arms"]:
                    if tast.contains(arm["body"], lambda z: z is node) and its:
                        some = "Some" in (arm["pat"].get("def") or arm["pat"].get("ctor_of") or "") or arm["pat"].get("k") == "PTupleStruct"
                        g.append((its[0]["args"][0]["body"], some, its[0]["args"][0]))
        out.append((node, g))
    return out


def r_sol_errmap(rep, f):
    for name in ("sol", "sol_many"):
        fn = SOLN + name
        b = f.bodies.get(fn)
        key = "R-SOL-ERRMAP:%s" % name
        if b is None:
            rep.inconc("R-SOL-ERRMAP", key, "Solution::%s not found" % name)
            continue
        rep.fn(fn)
        probs = []
        unknown = []
        # (1) None -> NotEnabled: ok_or(NotEnabled) on the continuous_sol field, or NotEnabled built in the None/else branch of a test of that field
        is_ne = lambda q: (q.get("def") or "") == ERRI + "NotEnabled"
        is_field = lambda q: q.get("k") == "Field" and q.get("name") == "continuous_sol"
        oks = tast.find(b["body"], lambda z: z.get("k") == "MethodCall" and z.get("name") in ("ok_or", "ok_or_else"))
        ne = [c for c in oks if tast.contains(c["recv"], is_field) and tast.contains(c["args"][0], is_ne)]
        if not ne:
            for node, parents in tast.find_with_parents(b["body"], is_ne):
                for a in parents:
                    if a.get("k") == "Match" and tast.contains(a["scrut"], is_field):
                        ne.append(a)
                    if a.get("k") == "If" and tast.contains(a["cond"], is_field):
                        ne.append(a)
                    if a.get("k") == "Let" and a.get("els") is not None and tast.contains(a.get("init") or {}, is_field):
                        ne.append(a)
        if not ne:
            probs.append("a missing continuous solution is not mapped to InterpolationError::NotEnabled")
        # (2) t outside [min, max] of the span ends <=> OutOfRange, for both orientations of the span: the guard that controls
        #     the early OutOfRange return is evaluated at t in {below, lower end, inside, upper end, above}
        roles = _span_roles(b["body"])
        # the error may be built by a local closure (`let out_of_range = || Error::..OutOfRange {..}; .. return Err(out_of_range())`)
        oor = lambda q: (q.get("def") or "").startswith(ERRI + "OutOfRange")
        makers = {l["pat"]["id"] for l in tast.find(b["body"], lambda z: z.get("k") == "Let" and z["pat"].get("k") == "PBind" and (z.get("init") or {}).get("k") == "Closure"
                                                    and tast.contains(z["init"]["body"], oor))}
        builds_oor = lambda z: tast.contains(z, lambda q: oor(q) or (q.get("k") == "Call" and (q.get("f") or {}).get("k") == "Path" and (q.get("f") or {}).get("id") in makers))
        guards = [(n_, g) for n_, g in _guards_of(b, lambda z: z.get("k") == "Return" and builds_oor(z)) if g]
        if not guards:
            probs.append("no early return of OutOfRange guarded by a range test of t")
        for node, gl in guards[:1]:
            cond, positive, closure = gl[-1]
            bad = None
            for ends in ((0.0, 1.0), (1.0, 0.0)):
                for tv in (-1.0, 0.0, 0.5, 1.0, 2.0):
                    def leaf(e, ends=ends, tv=tv):
                        if e.get("k") == "Path" and e.get("res") == "local":
                            if e["id"] in roles:
                                return ends[roles[e["id"]]]
                            if NumEval(b["body"], lambda z: None).let_of(e["id"]) is None and (e.get("ty") or "").lstrip("&") == "f64":
                                return tv
                        return None
                    try:
                        v = NumEval(b["body"], leaf).ev(cond)
                    except _NoEval as ex:
                        unknown.append("range test not evaluated (%s)" % ex)
                        v = None
                    if v is None:
                        continue
                    rejected = bool(v) == positive
                    want = tv < 0.0 or tv > 1.0
                    if rejected != want and bad is None:
                        bad = "span ends (%g, %g), t = %g: %s" % (ends[0], ends[1], tv, "rejected although inside the span" if rejected else "accepted although outside the span")
            if bad:
                probs.append("times outside the covered span are not rejected exactly (%s)" % bad)
        if probs:
            rep.violation("R-SOL-ERRMAP", key, "; ".join(probs), b.get("sp"))
        elif unknown:
            rep.inconc("R-SOL-ERRMAP", key, unknown[0], b.get("sp"))
        else:
            rep.ok("R-SOL-ERRMAP", key, "None -> NotEnabled; t outside [min,max] of the span -> OutOfRange (10 model points, both span orientations)")
    # (3) continuous_sol is Some iff options.dense_output at every Solution construction in solve_ivp
    sv = f.bodies.get("solve::solve_ivp::solve_ivp")
    if sv is None:
        return
    lits = tast.find(sv["body"], lambda z: z.get("k") == "Struct" and z.get("def") == "solve::solution::Solution")
    n = 0

    def some_none(e, dense, at_line, depth=0):
        """'Some' | 'None' the expression evaluates to when options.dense_output == dense"""
        if e is None or depth > 20:
            raise _NoEval("depth")
        k = e.get("k")
        if k == "Block":
            # guard clauses: `if <test on the flag> { return <option>; }` ahead of the tail
            for st_ in e.get("stmts", []):
                inner = st_.get("e") if st_.get("k") in ("ExprStmt", "Semi") else st_
                if inner is None or inner.get("k") != "If":
                    continue
                if not tast.contains(inner, lambda z: z.get("k") == "Return"):
                    continue
                c = boolv(inner["cond"], dense, depth + 1)
                br = inner["then"] if c else inner.get("else")
                if br is None:
                    continue
                rets = tast.find(br, lambda z: z.get("k") == "Return")
                if rets:
                    return some_none(rets[0].get("e"), dense, at_line, depth + 1)
            return some_none(e.get("tail") if e.get("tail") is not None else e.get("expr"), dense, at_line, depth + 1)
        if k in ("DropTemps", "Paren"):
            return some_none(e["e"], dense, at_line, depth + 1)
        if k == "Call" and (e.get("def") or "").endswith("Some"):
            return "Some"
        if k == "Path" and (e.get("def") or "").endswith("None"):
            return "None"
        if k == "Path" and e.get("res") == "local":
            lets = tast.find(sv["body"], lambda z: z.get("k") == "Let" and z["pat"].get("id") == e.get("id") and z.get("init") is not None)
            if not lets:
                raise _NoEval("local")
            return some_none(lets[-1]["init"], dense, at_line, depth + 1)
        if k == "If":
            c = boolv(e["cond"], dense, depth + 1)
            return some_none(e["then"] if c else e.get("else"), dense, at_line, depth + 1)
        if k == "Match":
            c = boolv(e["scrut"], dense, depth + 1)
            for arm in e["arms"]:
                pt = arm["pat"]
                if pt.get("k") in ("PWild", "PBind") or (pt.get("k") == "PLit" and str(pt.get("v")).lower() == str(c).lower()):
                    return some_none(arm["body"], dense, at_line, depth + 1)
            raise _NoEval("match")
        if k == "MethodCall" and e.get("name") in ("then", "then_some") and len(e["args"]) == 1:
            return "Some" if boolv(e["recv"], dense, depth + 1) else "None"
        if k == "Call" and (e.get("def") or "") in f.bodies and f.inlinable(e["def"]):
            # a private helper building the Option: evaluate its body (its reads of Options::dense_output mean the same flag)
            hb = f.bodies[e["def"]]["body"]
            return some_none(hb, dense, at_line, depth + 1)
        if k == "MethodCall" and e.get("name") in ("filter",) and len(e["args"]) == 1:
            raise _NoEval("filter")
        raise _NoEval("node %s" % k)

    def boolv(e, dense, depth=0):
        k = e.get("k")
        if k == "Field" and (e.get("fdef") or "").endswith("Options::dense_output"):
            return dense
        if k == "Unary" and e["op"] == "Not":
            return not boolv(e["e"], dense, depth + 1)
        if k == "Unary" and e["op"] == "Deref":
            return boolv(e["e"], dense, depth + 1)
        if k == "Path" and e.get("res") == "local":
            lets = tast.find(sv["body"], lambda z: z.get("k") == "Let" and z["pat"].get("id") == e.get("id") and z.get("init") is not None)
            if len(lets) == 1:
                return boolv(lets[0]["init"], dense, depth + 1)
        if k == "Lit" and e.get("lk") == "Bool":
            return bool(e["v"])
        raise _NoEval("bool %s" % k)

    for j, s_ in enumerate(lits):
        fl = {x["name"]: x["e"] for x in s_["fields"]}
        e = fl.get("continuous_sol")
        key = "R-SOL-ERRMAP:solve_ivp:literal%d" % (j + 1)
        n += 1
        try:
            got = (some_none(e, True, None), some_none(e, False, None))
        except _NoEval as ex:
            rep.inconc("R-SOL-ERRMAP", key, "continuous_sol of this Solution not evaluated (%s)" % ex, s_.get("sp"))
            continue
        if got == ("Some", "None"):
            rep.ok("R-SOL-ERRMAP", key, "continuous_sol is Some exactly when options.dense_output")
        else:
            rep.violation("R-SOL-ERRMAP", key, "a Solution is built whose continuous_sol is %s with dense_output on and %s with it off" % got, s_.get("sp"))
    if n < 3:
        rep.inconc("R-SOL-ERRMAP", "R-SOL-ERRMAP:solve_ivp:floor", "only %d Solution literals" % n)


def match_table(b, enum_prefix):
    """variant -> arm body for the (single) match over an enum in b"""
    for m in tast.find(b["body"], lambda z: z.get("k") == "Match"):
        t = {}
        for a in m["arms"]:
            d = a["pat"].get("def") or a["pat"].get("ctor_of") or ""
            if a["pat"].get("k") in ("PRef", "PDeref"):
                d = a["pat"]["pat"].get("def") or ""
            if d.startswith(enum_prefix):
                t[d[len(enum_prefix):]] = a["body"]
            elif a["pat"].get("k") == "POr":
                for q in a["pat"]["pats"]:
                    dq = q.get("def") or ""
                    if dq.startswith(enum_prefix):
                        t[dq[len(enum_prefix):]] = a["body"]
        if t:
            return t
    return {}


def r_cont_layout(rep, f):
    """allocation multiplier of `cont`, blocks read by interpolate, coeffs_per_state and interpolate_fn agree per method"""
    cps = None
    ifn = None
    for b in f.body_list:
        if b["def"].endswith("Method::coeffs_per_state"):
            cps = match_table(b, "solve::options::Method::")
        if b["def"].endswith("Method::interpolate_fn"):
            ifn = match_table(b, "solve::options::Method::")
    if not cps or not ifn:
        rep.inconc("R-CONT-LAYOUT", "R-CONT-LAYOUT:anchor", "Method::coeffs_per_state / interpolate_fn not found")
        return
    for mod, ty in SOLVERS:
        fn = solve_fn(mod, ty)
        key = "R-CONT-LAYOUT:%s" % ty
        probs = []
        # allocation multiplier
        try:
            sx, hk = rk.analyse_solve(f, fn)
        except rk.AnalysisError as e:
            rep.inconc("R-CONT-LAYOUT", key, str(e))
            continue
        recs = [r for r in hk.interp_calls if r["in_main"]]
        alloc = None
        if recs and hasattr(recs[0]["cont"], "len") and isinstance(recs[0]["cont"].len, Poly):
            ln = recs[0]["cont"].len
            ylen = Poly.atom("len(y0)")
            q = ln.div(ylen).const_value()
            alloc = int(q) if q is not None and q.denominator == 1 else None
        if alloc is None:
            # const-defined block sizes (BDF): n * CONST
            lets = tast.find(f.body(fn)["body"], lambda z: z.get("k") == "Let" and z["pat"].get("name") == "cont" and z.get("init") is not None)
            if lets and recs and isinstance(getattr(recs[0]["cont"], "len", None), Poly):
                cv = recs[0]["cont"].len.div(Poly.atom("len(y0)")).const_value()
                alloc = int(cv) if cv is not None else None
        # table entries
        v = METHODS[mod]
        tb = cps.get(v)
        tval = None
        if tb is not None:
            if tb.get("k") == "Lit":
                tval = int(tb["v"])
            elif tb.get("k") == "Path" and tb.get("dk") == "Const":
                cv = sx.const_value(tb["def"]).const_value()
                tval = int(cv) if cv is not None else None
        ib = ifn.get(v)
        idef = ib.get("def") if ib is not None and ib.get("k") == "Path" else None
        want_interp = "methods::%s::%s::interpolate" % (mod, ty)
        if idef != want_interp:
            probs.append("Method::%s is evaluated with %s" % (v, idef))
        if recs and recs[0]["fn"] != want_interp:
            probs.append("%s::solve hands out %s" % (ty, recs[0]["fn"]))
        # blocks read by interpolate
        nread = None
        try:
            u, isx = rk.analyse_interpolate(f, want_interp)
            if u is not None:
                ks = [int(a.split("@")[1]) for a in u.atoms() if a.startswith("cont@")]
                nread = max(ks) + 1 if ks else None
        except Exception:
            nread = None
        vals = {"allocation": alloc, "coeffs_per_state": tval, "blocks read": nread}
        known = {k: x for k, x in vals.items() if x is not None}
        if len(set(known.values())) > 1:
            probs.append("layout numbers disagree: %s" % known)
        if tval is None:
            probs.append("coeffs_per_state has no literal entry for %s" % v)
        if probs:
            rep.violation("R-CONT-LAYOUT", key, "; ".join(probs), f.body(fn).get("sp"))
        else:
            rep.ok("R-CONT-LAYOUT", key, "cont holds %s blocks: %s; interpolate_fn -> %s" % (tval, known, want_interp.split("::", 1)[1]))


def r_seg_keep(rep, f):
    """the default handler stores every non-degenerate segment it is handed, before any early return"""
    import handler as H
    hc = H.HandlerCtx(f)
    key = "R-SEG-KEEP"
    if hc.body is None:
        rep.inconc(key, key + ":anchor", "handler not found")
        return
    ps = [ev for nm, ev in hc.pushes() if nm == "dense_segs"]
    if len(ps) != 1:
        rep.violation(key, key + ":sites", "expected one place where dense segments are stored, found %d" % len(ps), hc.body.get("sp"))
        return
    ev = ps[0]
    allowed = []
    bad = []
    hbody = hc.body["body"]

    def strip(e):
        while e is not None and (e.get("k") in ("DropTemps", "Paren", "AddrOf", "Cast") or (e.get("k") == "Unary" and e.get("op") == "Deref")):
            e = e["e"]
        return e

    def is_param(e, i):
        e = strip(e)
        return e is not None and e.get("k") == "Path" and e.get("id") == hc.pid[i]

    def seg_h(e, depth=0):
        """the step length of the interpolant / segment being stored"""
        e = strip(e)
        if e is None or depth > 6:
            return False
        if e.get("k") == "Field" and (e.get("fdef") or "") in ("dense::DenseSegment::h", "dense::StepInterpolant::h"):
            return True
        if e.get("k") == "MethodCall" and e.get("name") == "abs":
            return seg_h(e["recv"], depth + 1)
        if e.get("k") == "Path" and e.get("res") == "local":
            for lt in tast.find(hbody, lambda z: z.get("k") == "Let" and z.get("init") is not None and tast.contains(z["pat"], lambda q: q.get("k") == "PBind" and q.get("id") == e.get("id"))):
                if lt["pat"].get("k") == "PBind":
                    return seg_h(lt["init"], depth + 1)
                if lt["pat"].get("k") == "PStruct" and (lt["pat"].get("def") or "").endswith(("DenseSegment", "StepInterpolant")):
                    return any(fp["name"] == "h" and fp["pat"].get("k") == "PBind" and fp["pat"].get("id") == e.get("id") for fp in lt["pat"].get("fields", []))
        return False

    def zero(e):
        e = strip(e)
        return e is not None and e.get("k") == "Lit" and e.get("lk") in ("Float", "Int") and float(str(e.get("v")).replace("_", "")) == 0.0

    def ok_conj(c, depth=0):
        c = strip(c)
        if c is None or depth > 8:
            return False
        k = c.get("k")
        if k == "Binary" and c["op"] == "And":
            return ok_conj(c["l"], depth + 1) and ok_conj(c["r"], depth + 1)
        if k == "Field" and (c.get("fdef") or "").endswith("DefaultSolOut::collect_dense"):
            return True
        if k == "MethodCall" and c.get("name") == "is_some" and is_param(c["recv"], 4):
            return True
        if k == "LetExpr" and (is_param(c["init"], 4) or (strip(c["init"]).get("k") == "MethodCall" and is_param(strip(c["init"])["recv"], 4))):
            return True
        if k == "Binary" and c["op"] == "Ne":
            if (is_param(c["l"], 2) and is_param(c["r"], 1)) or (is_param(c["l"], 1) and is_param(c["r"], 2)):
                return True
            if (seg_h(c["l"]) and zero(c["r"])) or (seg_h(c["r"]) and zero(c["l"])):
                return True
        if k == "Binary" and c["op"] == "Gt" and seg_h(c["l"]) and zero(c["r"]) and strip(c["l"]).get("k") == "MethodCall":
            return True
        if k == "Binary" and c["op"] == "Lt" and seg_h(c["r"]) and zero(c["l"]) and strip(c["r"]).get("k") == "MethodCall":
            return True
        if k == "Path" and c.get("res") == "local":
            lets = tast.find(hbody, lambda z: z.get("k") == "Let" and z["pat"].get("k") == "PBind" and z["pat"].get("id") == c.get("id") and z.get("init") is not None)
            return len(lets) == 1 and ok_conj(lets[0]["init"], depth + 1)
        return False
    for node, branch, cv in ev.get("pc", []):
        txt = tast.render(node["cond"])
        ok = branch == "then" and ok_conj(node["cond"])
        (allowed if ok else bad).append("%s[%s]" % (txt, branch))
    # it must come before the first return in source order
    body = hc.body["body"]
    first_ret = min([int(r.get("sp").split(":")[1]) for r, fl in hc.returns()] or [10 ** 9])
    line = int(ev["node"].get("sp").split(":")[1])
    if bad:
        rep.violation(key, key + ":guard", "storing a dense segment also depends on %s: segments can be dropped, leaving gaps in sol(t)" % bad, ev["node"].get("sp"))
    elif line > first_ret:
        rep.violation(key, key + ":order", "dense segments are stored after an early return of the handler: the segment of a step that ends with a terminal event would be lost", ev["node"].get("sp"))
    else:
        rep.ok(key, key, "stored under %s only, before any return" % allowed)


def r_seg_filter(rep, f):
    """ContinuousOutput::from_segments keeps every segment it is given; the only segments it may drop are the
    degenerate ones with h == 0 (a predicate `h != 0` / `|h| > 0`)"""
    fn = CONT + "from_segments"
    b = f.bodies.get(fn)
    key = "R-SEG-KEEP:from_segments"
    if b is None:
        rep.inconc("R-SEG-KEEP", key, "%s not found" % fn)
        return
    rep.fn(fn)
    droppers = tast.find(b["body"], lambda z: z.get("k") == "MethodCall" and z.get("name") in
                         ("filter", "filter_map", "take", "skip", "step_by", "take_while", "skip_while", "retain", "dedup", "dedup_by", "dedup_by_key", "truncate", "pop", "remove", "drain"))
    conds = tast.find(b["body"], lambda z: z.get("k") in ("If", "Match") and tast.contains(z, lambda q: q.get("k") in ("Continue", "Break", "Return")))
    bad = []
    for d in droppers:
        if d.get("name") != "filter" or not d["args"] or d["args"][0].get("k") != "Closure":
            bad.append(tast.render(d)[:80])
            continue
        c = d["args"][0]["body"]
        while c.get("k") == "Block" and not c.get("stmts") and c.get("expr") is not None:
            c = c["expr"]

        def zero(e):
            return e.get("k") == "Lit" and e.get("lk") in ("Float", "Int") and float(e.get("v")) == 0.0

        def plain(e):
            while e.get("k") == "Unary" and e.get("op") == "Deref":
                e = e["e"]
            return e.get("k") == "Path" and e.get("res") == "local"

        def absval(e):
            return e.get("k") == "MethodCall" and e.get("name") == "abs" and plain(e["recv"])
        ok = c.get("k") == "Binary" and (
            (c["op"] == "Ne" and ((plain(c["l"]) and zero(c["r"])) or (plain(c["r"]) and zero(c["l"]))))
            or (c["op"] == "Gt" and absval(c["l"]) and zero(c["r"])) or (c["op"] == "Lt" and zero(c["l"]) and absval(c["r"])))
        if not ok:
            bad.append("filter(%s)" % tast.render(c)[:80])
    for cnd in conds:
        c = cnd.get("cond") if cnd.get("k") == "If" else None
        while c is not None and c.get("k") in ("DropTemps", "Paren"):
            c = c["e"]
        # `if h == 0.0 { continue }` (the step length bound at the tuple's last position) drops exactly the degenerate segments
        okc = False
        if c is not None and c.get("k") == "Binary" and c["op"] == "Eq" and cnd.get("else") is None:
            for side, other in ((c["l"], c["r"]), (c["r"], c["l"])):
                sd = side
                while sd.get("k") == "Unary" and sd.get("op") == "Deref":
                    sd = sd["e"]
                if sd.get("k") == "Path" and sd.get("res") == "local" and other.get("k") == "Lit" and other.get("lk") in ("Float", "Int") and float(other.get("v")) == 0.0:
                    pts = tast.find(b["body"], lambda z: z.get("k") == "PTuple" and len(z.get("pats", [])) == 3 and z["pats"][2].get("k") == "PBind" and z["pats"][2].get("id") == sd.get("id"))
                    jumps = tast.find(cnd["then"], lambda z: z.get("k") in ("Continue", "Break", "Return"))
                    okc = bool(pts) and len(jumps) == 1 and jumps[0].get("k") == "Continue" and not tast.contains(cnd["then"], lambda z: z.get("k") in ("Assign", "AssignOp", "MethodCall", "Call"))
        if not okc:
            bad.append("conditional skip: %s" % tast.render(cnd.get("cond") or cnd.get("scrut"))[:60])
    if bad:
        rep.violation("R-SEG-KEEP", key, "from_segments can drop a non-degenerate segment (%s): a real accepted step would be missing from sol(t), shrinking the covered span or leaving a gap" % bad[:2], (droppers or conds)[0].get("sp"))
    else:
        rep.ok("R-SEG-KEEP", key, "every segment is kept except those with h == 0 (%d filter(s), %d guarded skip(s))" % (len(droppers), len(conds)))


SEG_FIELD = "solve::solout::DefaultSolOut::dense_segs"


def r_seg_verbatim(rep, f):
    """the segments sol(t) is built from are the step interpolants exactly as the solver handed them over:
    (1) writer/reader agreement: the tuple the handler stores reads fields F_0..F_k of one to_segment() result, and
        from_segments hands tuple position i to the DenseSegment::new parameter that initialises the same field F_i;
    (2) the store is append-only: apart from push (and read-only / capacity calls, or moving the whole vector out) nothing in
        the crate takes the stored vector mutably, so a stored (cont, xold, h) is never edited after its step"""
    key = "R-SEG-VERBATIM"
    hfn = next((n for n in f.bodies if n.endswith("DefaultSolOut<'a, F> as solve::solout::SolOut>::solout") or (n.endswith("::solout") and "DefaultSolOut" in n)), None)
    rfn = CONT + "from_segments"
    if hfn is None or rfn not in f.bodies or "dense::DenseSegment::new" not in f.bodies:
        rep.inconc(key, key + ":anchor", "handler / from_segments / DenseSegment::new not found")
        return
    is_store = lambda z: z.get("k") == "Field" and (z.get("fdef") or "") == SEG_FIELD
    # (2) append-only
    READ = ("push", "len", "is_empty", "iter", "last", "first", "reserve", "capacity", "clone", "as_slice", "get", "with_capacity", "shrink_to_fit", "reserve_exact")
    bad = []
    n_use = 0
    for fn, b in sorted(f.bodies.items()):
        if not tast.contains(b["body"], is_store):
            continue
        for node, parents in tast.find_with_parents(b["body"], is_store):
            n_use += 1
            par = parents[-1] if parents else None
            # climb reborrows
            i = len(parents) - 1
            while i >= 0 and parents[i].get("k") in ("AddrOf", "DropTemps", "Paren"):
                i -= 1
            par = parents[i] if i >= 0 else None
            if par is None:
                continue
            k = par.get("k")
            if k == "MethodCall" and tast.contains(par["recv"], lambda z: z is node):
                if par.get("name") in READ:
                    continue
                bad.append((par, fn, "`.%s(..)` is called on the stored segments" % par.get("name")))
            elif k == "Assign" and tast.contains(par["l"], lambda z: z is node):
                bad.append((par, fn, "the stored segments are overwritten"))
            elif k == "Index":
                up = parents[i - 1] if i >= 1 else None
                if up is not None and ((up.get("k") in ("Assign", "AssignOp") and tast.contains(up["l"], lambda z: z is node)) or (up.get("k") == "AddrOf" and up.get("mut")) or up.get("k") == "Field"):
                    # a Field projection of an indexed element is a write only under an assignment
                    top = next((q for q in reversed(parents[:i]) if q.get("k") in ("Assign", "AssignOp")), None)
                    if up.get("k") != "Field" or (top is not None and tast.contains(top["l"], lambda z: z is node)):
                        bad.append((par, fn, "an element of the stored segments is written"))
            elif k == "Call" and (par.get("def") or "").startswith(("std::mem::take", "std::mem::replace", "std::mem::swap")):
                if fn == hfn:
                    bad.append((par, fn, "the stored segments are taken out during the run"))
            elif k in ("Tuple", "Struct", "Let", "Call", "Return", "Block"):
                continue   # moved out whole (into_payload) or handed on by value / shared reference
            elif k == "AddrOf" and par.get("mut"):
                bad.append((par, fn, "a mutable borrow of the stored segments escapes"))
        # any other &mut use: mutable borrow handed to a callee
        for node in tast.find(b["body"], lambda z: z.get("k") == "AddrOf" and z.get("mut") and is_store(z["e"])):
            if not any(n_ is node for n_, _, _ in bad):
                pass
    for node, fn, why in bad:
        rep.violation(key, "%s:%s:%s" % (key, fn, tast.render(node)[:40]), "%s in %s (`%s`): a segment collected for sol(t) must stay the interpolant of its step as the solver delivered it" % (why, fn, tast.render(node)[:80]), node.get("sp"))
    # (1) writer/reader agreement
    hb = f.bodies[hfn]["body"]
    pushes = tast.find(hb, lambda z: z.get("k") == "MethodCall" and z.get("name") == "push" and tast.contains(z["recv"], is_store))
    if len(pushes) != 1 or not pushes[0]["args"] or pushes[0]["args"][0].get("k") != "Tuple":
        rep.inconc(key, key + ":writer", "the handler's store of a dense segment is not one push of a tuple (found %d push(es))" % len(pushes))
        return
    elems = pushes[0]["args"][0]["elems"]
    wf = []
    src_ids = set()
    direct_src = [False]
    for e in elems:
        e0 = e
        while e0.get("k") in ("MethodCall",) and e0.get("name") in ("clone", "to_vec", "to_owned"):
            e0 = e0["recv"]
        if e0.get("k") == "Field" and (e0.get("fdef") or "").startswith("dense::DenseSegment::") and e0["e"].get("k") == "Path":
            wf.append(e0["name"])
            src_ids.add(e0["e"].get("id"))
        elif e0.get("k") == "Path" and e0.get("res") == "local":
            # `let DenseSegment { cont, xold, h, .. } = seg;` - a binding of a field by destructuring
            got = None
            for lt in tast.find(hb, lambda z: z.get("k") == "Let" and z["pat"].get("k") == "PStruct" and (z["pat"].get("def") or "").endswith("DenseSegment") and z.get("init") is not None):
                for fp in lt["pat"].get("fields", []):
                    if fp["pat"].get("k") == "PBind" and fp["pat"].get("id") == e0.get("id"):
                        i0 = lt["init"]
                        while i0.get("k") in ("DropTemps", "Paren"):
                            i0 = i0["e"]
                        if i0.get("k") == "Path":
                            got = (fp["name"], i0.get("id"))
                        elif tast.contains(i0, lambda z: z.get("k") == "MethodCall" and (z.get("def") or "").endswith("to_segment")):
                            got = (fp["name"], "direct")
                            direct_src[0] = True
            if got is None or tast.contains(hb, lambda z: z.get("k") in ("Assign", "AssignOp") and tast.contains(z["l"], lambda q: q.get("k") == "Path" and q.get("id") == e0.get("id"))):
                wf.append(None)
            else:
                wf.append(got[0])
                src_ids.add(got[1])
        else:
            wf.append(None)
    if None in wf or len(src_ids) != 1:
        rep.violation(key, key + ":writer", "the stored tuple `%s` is not made of plain field reads of one to_segment() result: what sol(t) evaluates is then not the step interpolant the solver delivered" % tast.render(pushes[0]["args"][0])[:100], pushes[0].get("sp"))
        return
    lets = tast.find(hb, lambda z: z.get("k") == "Let" and z["pat"].get("k") == "PBind" and z["pat"].get("id") in src_ids and z.get("init") is not None)
    if src_ids == {"direct"}:
        pass
    elif len(lets) != 1 or not tast.contains(lets[0]["init"], lambda z: z.get("k") == "MethodCall" and (z.get("def") or "").endswith("to_segment")):
        rep.violation(key, key + ":writer-source", "the stored fields are not read from the result of StepInterpolant::to_segment()", pushes[0].get("sp"))
        return
    if tast.contains(hb, lambda z: z.get("k") in ("Assign", "AssignOp") and tast.contains(z["l"], lambda q: q.get("k") == "Path" and q.get("id") in src_ids)):
        rep.violation(key, key + ":writer-source", "the to_segment() result is modified before it is stored", pushes[0].get("sp"))
        return
    rb = f.bodies[rfn]["body"]
    ctor = None
    calls = tast.find(rb, lambda z: z.get("k") == "Call" and (z.get("def") or "") == "dense::DenseSegment::new")
    if len(calls) == 1:
        # the tuple pattern (closure parameter, for-loop pattern or let) that binds the call's arguments
        arg_ids = {a.get("id") for a in calls[0]["args"] if a.get("k") == "Path" and a.get("res") == "local"}
        pts = [z for z in tast.find(rb, lambda z: z.get("k") == "PTuple" and len(z.get("pats", [])) == 3)
               if sum(1 for q in z["pats"] if q.get("k") == "PBind" and q.get("id") in arg_ids) >= 2]
        if len(pts) == 1:
            ctor = (pts[0]["pats"], calls[0])
    nb = f.bodies["dense::DenseSegment::new"]
    lit = tast.find(nb["body"], lambda z: z.get("k") == "Struct")
    if ctor is None or len(lit) != 1:
        rep.inconc(key, key + ":reader", "from_segments does not build the segments with one DenseSegment::new call over one destructuring of the stored tuple")
        return
    pids = [p["id"] for p in nb.get("params", []) if p.get("k") == "PBind"]
    field_of_param = {}
    for fl in lit[0]["fields"]:
        if fl["e"].get("k") == "Path" and fl["e"].get("id") in pids:
            field_of_param[pids.index(fl["e"]["id"])] = fl["name"]
    pats, call = ctor
    rf = []
    for i, p in enumerate(pats):
        if p.get("k") != "PBind":
            rf.append(None)
            continue
        j = next((j for j, a in enumerate(call["args"]) if a.get("k") == "Path" and a.get("id") == p["id"]), None)
        rf.append(field_of_param.get(j))
    if len(rf) != len(wf) or any(a != b_ for a, b_ in zip(wf, rf)):
        rep.violation(key, key + ":agreement", "the handler stores the segment fields in the order %s but from_segments rebuilds the segment with positions meaning %s: sol(t) would evaluate a different polynomial from the one the solver built" % (wf, rf), pushes[0].get("sp"))
    elif not bad:
        rep.ok(key, key, "stored tuple = fields %s of one to_segment() result, read back into the same fields; %d use(s) of the store, all append / read-only / move-out" % (wf, n_use))


def r_seg_fields(rep, f):
    """the two interpolant views (borrowed StepInterpolant, owned DenseSegment) are copies of each other field by field, and
    both evaluate the method's interpolation function with their own (cont, xold, h) in the positions the six interpolate
    functions declare them in"""
    key = "R-SEG-FIELDS"
    STRUCTS = ("dense::StepInterpolant", "dense::DenseSegment")
    fns = {n: b for n, b in f.bodies.items() if n.startswith("dense::") and not n.startswith("<")}
    if len(fns) < 6:
        rep.inconc(key, key + ":anchor", "only %d function(s) found in the dense module" % len(fns))
        return

    def strip(e):
        while e is not None:
            if e.get("k") in ("AddrOf", "DropTemps", "Paren", "Cast") or (e.get("k") == "Unary" and e.get("op") == "Deref"):
                e = e["e"]
            elif e.get("k") == "MethodCall" and e.get("name") in ("to_vec", "clone", "to_owned", "as_slice", "as_ref"):
                e = e["recv"]
            elif e.get("k") == "Index" and e.get("i", {}).get("k") in ("Range", "RangeFull", "Struct"):
                e = e["e"]
            else:
                break
        return e

    # locals bound by destructuring one of the two views (`let Self { cont, xold, h, interp_fn } = *self`) stand for the fields
    destr = {}
    for n_, b_ in fns.items():
        for pt in tast.find(b_["body"], lambda z: z.get("k") == "PStruct" and (z.get("def") or "").replace("::<'a>", "") in STRUCTS or (z.get("k") == "PStruct" and any((z.get("def") or "").startswith(s_) for s_ in STRUCTS))):
            for fl in pt.get("fields", []):
                q = fl.get("pat") or {}
                while q.get("k") in ("PRef", "PDeref") and q.get("pat") is not None:
                    q = q["pat"]
                if q.get("k") == "PBind":
                    destr[q["id"]] = fl.get("name")

    def src_field(e):
        e = strip(e)
        if e is not None and e.get("k") == "Field" and (e.get("fdef") or "").rsplit("::", 1)[0] in STRUCTS:
            return e["name"]
        if e is not None and e.get("k") == "Path" and e.get("res") == "local" and e.get("id") in destr:
            return destr[e["id"]]
        return None
    # constructor parameter -> field
    ctor = {}
    for n, b in fns.items():
        if not n.endswith("::new"):
            continue
        lit = tast.find(b["body"], lambda z: z.get("k") == "Struct" and (z.get("def") or "") in STRUCTS)
        pids = [p.get("id") for p in b.get("params", [])]
        if len(lit) == 1:
            m = {}
            for fl in lit[0]["fields"]:
                e = strip(fl["e"])
                if e is not None and e.get("k") == "Path" and e.get("id") in pids:
                    m[pids.index(e["id"])] = fl["name"]
            ctor[n] = m
    # positions of (cont, xold, h) in the interpolation functions, by the names all of them use
    pos_names = None
    ifns = [b for n, b in f.bodies.items() if n.startswith("methods::") and n.endswith("::interpolate")]
    sigs = {tuple(p.get("name") for p in b.get("params", [])) for b in ifns}
    if len(ifns) >= 6 and len(sigs) == 1:
        pos_names = list(sigs.pop())
    bad = []
    n_ok = 0
    for n, b in sorted(fns.items()):
        for lit in tast.find(b["body"], lambda z: z.get("k") == "Struct" and (z.get("def") or "") in STRUCTS):
            for fl in lit["fields"]:
                sf = src_field(fl["e"])
                if sf is not None:
                    if sf != fl["name"]:
                        bad.append((fl["e"], n, "field `%s` of the copy is filled from `%s`" % (fl["name"], sf)))
                    else:
                        n_ok += 1
        for c in tast.find(b["body"], lambda z: z.get("k") == "Call"):
            d = c.get("def") or ""
            if d in ctor or any(d == k_.replace("::<'a>", "") for k_ in ctor):
                m = ctor.get(d) or next(v for k_, v in ctor.items() if k_.replace("::<'a>", "") == d)
                for j, a in enumerate(c["args"]):
                    sf = src_field(a)
                    if sf is not None and j in m:
                        if sf != m[j]:
                            bad.append((a, n, "`%s` is passed where the constructor expects `%s`" % (sf, m[j])))
                        else:
                            n_ok += 1
            elif c.get("f", {}).get("k") == "Field" and (c["f"].get("fdef") or "").rsplit("::", 1)[0] in STRUCTS and pos_names:
                for j, a in enumerate(c["args"]):
                    sf = src_field(a)
                    if sf is not None and j < len(pos_names) and pos_names[j] in ("cont", "xold", "h"):
                        if sf != pos_names[j]:
                            bad.append((a, n, "`%s` is passed to the interpolation function in the position of `%s`" % (sf, pos_names[j])))
                        else:
                            n_ok += 1
    # the two views know nothing about the layout of `cont` (it differs per method: the leading block is the left-end state
    # for the explicit methods, the right-end state for Radau, interleaved for BDF): a function that calls the stored
    # interpolation function must hand its output slice to that call and write it nowhere else
    for n, b in sorted(fns.items()):
        icalls = [c for c in tast.find(b["body"], lambda z: z.get("k") == "Call" and z.get("f", {}).get("k") == "Field" and (z["f"].get("fdef") or "").rsplit("::", 1)[0] in STRUCTS)]
        if not icalls:
            continue
        outs = [p_ for p_ in b.get("params", []) if p_.get("k") == "PBind" and (p_.get("ty") or "").startswith("&mut [")]
        outs += [l_["pat"] for l_ in tast.find(b["body"], lambda z: z.get("k") == "Let" and z["pat"].get("k") == "PBind" and "Vec<f64>" in (z["pat"].get("ty") or ""))]
        for o in outs:
            oid = o.get("id")
            mentions_o = lambda e: tast.contains(e, lambda q: q.get("k") == "Path" and q.get("id") == oid)
            writes = [w for w in tast.find(b["body"], lambda z: (z.get("k") in ("Assign", "AssignOp") and mentions_o(z["l"]))
                                           or (z.get("k") == "MethodCall" and mentions_o(z["recv"]) and z.get("name") in ("copy_from_slice", "clone_from_slice", "fill", "swap", "iter_mut", "as_mut", "split_at_mut", "chunks_mut", "push", "extend_from_slice")))]
            if writes:
                bad.append((writes[0], n, "`%s` is also written directly (%s) by a function that delegates to the stored interpolation function: the view would have to know the method's coefficient layout" % (o.get("name"), tast.render(writes[0])[:50])))
            else:
                n_ok += 1
    for node, fn, why in bad:
        rep.violation(key, "%s:%s:%s" % (key, fn, why.split("`")[1]), "%s in %s: the owned and the borrowed view of a step then evaluate different polynomials (sol(t) vs the per-step interpolant)" % (why, fn), node.get("sp"))
    if not bad:
        if n_ok < 6:
            rep.inconc(key, key + ":floor", "only %d field correspondences found in the dense module (expected >= 6)" % n_ok)
        else:
            rep.ok(key, key, "%d field correspondences (copies between the two views, constructor arguments, interpolation-function arguments) agree" % n_ok)


def _idents(e):
    out = []
    tast.walk(e, lambda n, p: out.append(n.get("name")) if n.get("k") in ("Path", "Field") and n.get("name") else None)
    return out


def r_seg_per_query(rep, f):
    """every evaluation of the continuous solution looks its segment up for THAT time: in each function / closure of
    ContinuousOutput that interpolates (directly or through a local closure), a call of find_segment / find_segment_extrapolate /
    evaluate* is made unconditionally (not inside an `if`/`match` arm or a loop body of that scope). A segment remembered
    from the previous query is only right for ascending queries on a forward run."""
    INTERP_ = "dense::DenseSegment::interpolate"
    LOOK = ("solve::cont::ContinuousOutput::find_segment", "solve::cont::ContinuousOutput::find_segment_extrapolate",
            "solve::cont::ContinuousOutput::evaluate", "solve::cont::ContinuousOutput::evaluate_extrapolate")
    n = 0
    for fn, b in f.bodies.items():
        if not fn.startswith("solve::cont::ContinuousOutput::") or fn.endswith(("::find_segment", "::find_segment_extrapolate")):
            continue
        closures = tast.find(b["body"], lambda z: z.get("k") == "Closure")
        # scopes: the function body and every closure body; a node belongs to the innermost scope containing it
        scopes = [("fn", b["body"])] + [("closure", c["body"]) for c in closures]

        def owner(node):
            best = None
            for kind, sc in scopes:
                if tast.contains(sc, lambda z: z is node):
                    if best is None or tast.contains(best[1], lambda z: z is sc):
                        best = (kind, sc)
            return best
        # local closures that interpolate
        interp_closures = set()
        for l in tast.find(b["body"], lambda z: z.get("k") == "Let" and z["pat"].get("k") == "PBind" and (z.get("init") or {}).get("k") == "Closure"):
            if tast.contains(l["init"]["body"], lambda z: z.get("k") == "MethodCall" and z.get("def") == INTERP_):
                interp_closures.add(l["pat"]["id"])
        uses = [c for c in tast.find(b["body"], lambda z: z.get("k") == "MethodCall" and z.get("def") == INTERP_)]
        uses += [c for c in tast.find(b["body"], lambda z: z.get("k") == "Call" and (z.get("f") or {}).get("k") == "Path" and (z.get("f") or {}).get("id") in interp_closures)]
        for u in uses:
            ow = owner(u)
            if ow is None:
                continue
            kind, sc = ow
            # the closure that merely wraps interpolate gets its segment as a parameter: its callers are judged instead
            if kind == "closure" and any(l["init"]["body"] is sc and l["pat"]["id"] in interp_closures for l in tast.find(b["body"], lambda z: z.get("k") == "Let" and (z.get("init") or {}).get("k") == "Closure")):
                continue
            n += 1
            key = "R-SEG-LOOKUP:%s:per-query:%d" % (fn.split("::")[-1], n)
            if kind == "closure":
                # `self.find_segment(t).map(|seg| { .. seg.interpolate(t, ..) .. })`: the closure receives the segment straight
                # from a lookup made for this query; the lookup is judged in the scope that contains the adaptor call
                host = [mc for mc in tast.find(b["body"], lambda z: z.get("k") == "MethodCall" and any(a_.get("k") == "Closure" and a_["body"] is sc for a_ in z["args"])
                                               and tast.contains(z["recv"], lambda q: q.get("k") == "MethodCall" and q.get("def") in LOOK))]
                if host:
                    outer = owner(host[0])
                    if outer is not None:
                        sc = outer[1]
            looks = [c for c in tast.find(sc, lambda z: z.get("k") == "MethodCall" and z.get("def") in LOOK) if owner(c) and owner(c)[1] is sc]

            def unconditional(c):
                for nd, parents in tast.find_with_parents(sc, lambda z: z is c):
                    for i_, p_ in enumerate(parents):
                        child = parents[i_ + 1] if i_ + 1 < len(parents) else c
                        if p_.get("k") == "If" and not (p_["cond"] is child or tast.contains(p_["cond"], lambda z: z is c)):
                            return False
                        if p_.get("k") == "Match" and not tast.contains(p_["scrut"], lambda z: z is c):
                            return False
                        if p_.get("k") in ("For", "While", "Loop"):
                            return False
                    return True
                return False
            if any(unconditional(c) for c in looks):
                rep.ok("R-SEG-LOOKUP", key, "the segment is looked up for the queried time on every evaluation")
            else:
                rep.violation("R-SEG-LOOKUP", key, "`%s` uses a segment that is %s for this query: a segment kept from an earlier query is silently extrapolated when the "
                              "queries are not ascending in the direction of integration" % (tast.render(u)[:50], "looked up only conditionally" if looks else "not looked up"), u.get("sp"))
    if n < 2:
        rep.inconc("R-SEG-LOOKUP", "R-SEG-LOOKUP:per-query:floor", "only %d interpolating evaluation(s) found in ContinuousOutput" % n)


def r_seg_lookup(rep, f):
    """segment lookup is direction-agnostic: a time inside a segment is found whether the segment was produced by a
    forward (h > 0) or a backward (h < 0) step, a time well outside is not. The membership test that guards `return
    Some(seg)` is evaluated at model points for both signs of h (finite abstract evaluation)"""
    NumEval.facts = f
    for name in ("find_segment", "find_segment_extrapolate"):
        fn = CONT + name
        b = f.bodies.get(fn)
        key = "R-SEG-LOOKUP:%s" % name
        if b is None:
            rep.inconc("R-SEG-LOOKUP", key, "not found")
            continue
        rep.fn(fn)
        tested = 0
        bad = None
        unknown = None
        preds = []     # (predicate expression, body of the function it occurs in)

        def gather(bb, depth=0):
            for lp in tast.find(bb["body"], lambda z: z.get("k") == "For"):
                for i_ in tast.find(lp["body"], lambda z: z.get("k") == "If" and tast.contains(z["then"], lambda q: q.get("k") == "Return")):
                    preds.append((i_["cond"], bb))
            # iterator form: segs.iter().find(|seg| <membership>) / position / filter
            for c_ in tast.find(bb["body"], lambda z: z.get("k") == "MethodCall" and z.get("name") in ("find", "position", "rposition", "filter", "find_map") and z["args"] and z["args"][0].get("k") == "Closure"):
                preds.append((c_["args"][0]["body"], bb))
            # the scan may live in a private helper of the same type (`self.covering_segment(t)`)
            if depth < 2:
                for c_ in tast.find(bb["body"], lambda z: z.get("k") in ("Call", "MethodCall") and (z.get("def") or "").startswith(CONT) and (z.get("def") or "") in f.bodies
                                    and (z.get("def") or "") not in (CONT + "find_segment", fn) and f.inlinable(z.get("def") or "")):
                    if "DenseSegment" in (c_.get("ty") or ""):
                        gather(f.bodies[c_["def"]], depth + 1)
        gather(b)
        for cond_, owner in preds:
            if True:
                i_ = {"cond": cond_}
                b_eval = owner
                for xold, h in ((0.0, 1.0), (1.0, -1.0)):
                    for tv, want in ((-1.0, False), (0.0, True), (0.5, True), (1.0, True), (2.0, False)):
                        def leaf(e, xold=xold, h=h, tv=tv):
                            if e.get("k") == "Field" and (e.get("fdef") or "").endswith("DenseSegment::xold"):
                                return xold
                            if e.get("k") == "Field" and (e.get("fdef") or "").endswith("DenseSegment::h"):
                                return h
                            if e.get("k") == "Path" and e.get("res") == "local" and e.get("id") in pids:
                                return tv
                            return None
                        pids = {p_["id"] for p_ in b_eval.get("params", []) if p_.get("k") == "PBind" and p_.get("ty") == "f64"}
                        try:
                            v = bool(NumEval(b_eval["body"], leaf).ev(i_["cond"]))
                        except _NoEval as ex:
                            unknown = "membership test not evaluated (%s)" % ex
                            continue
                        tested += 1
                        if v != want and bad is None:
                            bad = "segment with xold = %g, h = %g: t = %g is %s" % (xold, h, tv, "not found although inside the segment" if want else "matched although far outside")
        delegates = tast.find(b["body"], lambda z: z.get("k") == "MethodCall" and (z.get("def") or "") == CONT + "find_segment") if name != "find_segment" else []
        if bad:
            rep.violation("R-SEG-LOOKUP", key, "the segment membership test depends on the direction of integration (%s)" % bad, b.get("sp"))
        elif tested:
            rep.ok("R-SEG-LOOKUP", key, "membership test evaluated at %d model points (h > 0 and h < 0): inside => found, far outside => not" % tested)
        elif delegates:
            rep.ok("R-SEG-LOOKUP", key, "delegates the membership test to find_segment")
        elif unknown:
            rep.inconc("R-SEG-LOOKUP", key, unknown, b.get("sp"))
        else:
            rep.violation("R-SEG-LOOKUP", key, "no per-segment membership test guarding the returned segment", b.get("sp"))


# ------------------------------------------------------------------------------------------ R-BDF-DENSE (C06, C07)
def _shape_unknown(rep, key, semantic_backup, why):
    """the slot-by-slot comparison reads the two loops by shape; when they are written differently the obligation is carried by
    R-BDF-INTERP, which evaluates writer and reader exactly for every order (interpolation through the last k+1 values forces
    every slot): a note then, an INCONCLUSIVE only when that rule did not decide either"""
    if semantic_backup:
        rep.note("R-BDF-DENSE %s: %s - covered by R-BDF-INTERP (decided)" % (key, why))
    else:
        rep.inconc("R-BDF-DENSE", key, why)


def r_bdf_dense(rep, f, semantic_backup=False):
    """writer/reader agreement of BDF's per-state dense block: for every order 1..MAX_ORDER the set of slots into which
    BDF::solve copies a backward difference (and which difference it copies there) equals the set of slots BDF::interpolate
    adds up, slot 1+k holding D_(k+1). The guard of the writer and the range of the reader are evaluated over the finite
    domain order x k (finite abstract evaluation of integer comparisons) - nothing numerical."""
    SOLVE, INTERP = "methods::bdf::BDF::solve", "methods::bdf::BDF::interpolate"
    bs, bi = f.bodies.get(SOLVE), f.bodies.get(INTERP)
    key = "R-BDF-DENSE:blocks"
    if bs is None or bi is None:
        rep.inconc("R-BDF-DENSE", key, "BDF::solve / BDF::interpolate not found")
        return
    rep.fn(SOLVE)
    rep.fn(INTERP)
    from symx import SymExec, Hooks
    cx = SymExec(f, SOLVE, Hooks())

    def const_of(e):
        if e.get("k") == "Path" and e.get("dk") in ("Const", "AssocConst"):
            v = cx.const_value(e["def"])
            c = v.const_value() if isinstance(v, Poly) else None
            return float(c) if c is not None else None
        return None
    consts = [c for c in (const_of(q) for q in tast.find(bs["body"], lambda z: z.get("k") == "Path" and z.get("dk") == "Const" and z.get("ty") == "usize")) if c]
    max_order = None
    # the writer: a loop whose body stores, into a buffer indexed by `<base> + 1 + k`, a value selected by an `if` between
    # an element of the difference table and 0
    writer = None
    for lp in tast.find(bs["body"], lambda z: z.get("k") == "For"):
        kid = lp["pat"].get("id")
        for st in tast.find(lp["body"], lambda z: z.get("k") == "Assign" and z["l"].get("k") == "Index" and tast.contains(z["l"]["i"], lambda q: q.get("k") == "Path" and q.get("id") == kid)):
            src = st["r"]
            if src.get("k") == "Path" and src.get("res") == "local":
                lets = tast.find(lp["body"], lambda z: z.get("k") == "Let" and z["pat"].get("id") == src.get("id") and z.get("init") is not None)
                src = lets[0]["init"] if lets else src
            if src.get("k") == "If" and src.get("else") is not None:
                two = tast.find(src["then"], lambda q: q.get("k") == "Index" and q["e"].get("k") == "Index")
                if two and any(tast.contains(lp2["body"], lambda z: z is lp) for lp2 in tast.find(bs["body"], lambda z: z.get("k") == "For")):
                    writer = (lp, st, src, two[0])
    reader = None
    cont_id = bi["params"][2].get("id") if len(bi.get("params", [])) == 5 else None
    for lp in tast.find(bi["body"], lambda z: z.get("k") == "For"):
        kid = lp["pat"].get("id")
        for st in tast.find(lp["body"], lambda z: z.get("k") == "AssignOp" and z.get("op", "").startswith("Add")):
            rd = tast.find(st["r"], lambda q: q.get("k") == "Index" and q["e"].get("k") == "Path" and q["e"].get("id") == cont_id
                           and tast.contains(q["i"], lambda w: w.get("k") == "Path" and w.get("id") == kid))
            if rd:
                other = [q for q in tast.find(st["r"], lambda q: q.get("k") == "Index" and q is not rd[0] and q["e"].get("k") == "Path" and q["e"].get("id") != cont_id)]
                reader = (lp, st, rd[0], other[0] if other else None)
    if writer is None or reader is None:
        _shape_unknown(rep, key, semantic_backup, "dense-block writer (%s) / reader (%s) loops not identified" % (writer is not None, reader is not None))
        return
    wlp, wst, wif, wsrc = writer
    rlp, rst, rrd, rp = reader
    # loop bound of the writer = number of difference slots = MAX_ORDER
    rng = wlp["iter"]
    hi = next((x["e"] for x in rng.get("fields", []) if x["name"] == "end"), None) if rng.get("k") == "Struct" else None
    max_order = const_of(hi) if hi is not None else None
    if not max_order:
        _shape_unknown(rep, key, semantic_backup, "writer loop bound is not a constant")
        return
    max_order = int(max_order)

    def ev_int(e, env, body):
        def leaf(z):
            if z.get("k") == "Path" and z.get("res") == "local" and z.get("id") in env:
                return float(env[z["id"]])
            c = const_of(z)
            if c is not None:
                return c
            if z.get("k") == "Path" and z.get("res") == "local" and z.get("ty") == "usize" and NumEval(body, lambda w: None).let_of(z["id"]) is None:
                return float(env.get("*", 0))
            return None
        return NumEval(body, leaf).ev(e)
    # order variable of the writer: the usize local compared in the guard that is not the loop variable
    wk = wlp["pat"]["id"]
    ords = [q for q in tast.find(wif["cond"], lambda q: q.get("k") == "Path" and q.get("res") == "local" and q.get("id") != wk)]
    rk_ = rlp["pat"]["id"]
    r_rng = rlp["iter"]
    probs = []
    try:
        for order in range(1, max_order + 1):
            W = {}
            for k in range(0, max_order):
                env = {wk: k, "*": 0}
                for o in ords:
                    env[o["id"]] = order
                if bool(ev_int(wif["cond"], env, bs["body"])):
                    slot = int(ev_int(wst["l"]["i"], env, bs["body"]))
                    didx = int(ev_int(wsrc["e"]["i"], env, bs["body"]))
                    W[slot] = didx
            # reader range with `order` bound to its local
            lo_e = next((x["e"] for x in r_rng.get("fields", []) if x["name"] == "start"), None) if r_rng.get("k") == "Struct" else None
            hi_e = next((x["e"] for x in r_rng.get("fields", []) if x["name"] == "end"), None) if r_rng.get("k") == "Struct" else None
            if r_rng.get("k") == "Call" and len(r_rng.get("args", [])) == 2:
                lo_e, hi_e = r_rng["args"]
            incl = "Inclusive" in (r_rng.get("def") or "")
            r_ord = [q for q in tast.find(hi_e, lambda q: q.get("k") == "Path" and q.get("res") == "local")] if hi_e is not None else []
            renv = {"*": 0}
            for o in r_ord:
                renv[o["id"]] = order
            lo = int(ev_int(lo_e, renv, bi["body"])) if lo_e is not None else 0
            hi_v = int(ev_int(hi_e, renv, bi["body"])) + (1 if incl else 0)
            R = {}
            for k in range(lo, hi_v):
                env = dict(renv)
                env[rk_] = k
                slot = int(ev_int(rrd["i"], env, bi["body"]))
                pidx = int(ev_int(rp["i"], env, bi["body"])) if rp is not None else k
                R[slot] = pidx
            if set(W) != set(R):
                probs.append("order %d: solve fills slots %s with differences, interpolate adds slots %s" % (order, sorted(W), sorted(R)))
            else:
                for sl in W:
                    # slot s must hold D_s (s = 1..order) and be weighted with p[s-1]
                    if W[sl] != sl:
                        probs.append("order %d: slot %d receives difference D_%d" % (order, sl, W[sl]))
                    if R[sl] != sl - 1:
                        probs.append("order %d: slot %d is weighted with p[%d]" % (order, sl, R[sl]))
    except _NoEval as ex_:
        _shape_unknown(rep, key, semantic_backup, "index arithmetic not evaluated (%s)" % ex_)
        return
    if probs:
        rep.violation("R-BDF-DENSE", key, "the dense block BDF::solve writes and the one BDF::interpolate reads disagree: %s" % "; ".join(probs[:3]), wif.get("sp"))
    else:
        rep.ok("R-BDF-DENSE", key, "for every order 1..%d: slots 1..order hold D_1..D_order and are the ones interpolate sums (with p[0..order-1])" % max_order)


# ------------------------------------------------------------------------------------------ R-SPAN-ENDS (C06)
def r_span_ends(rep, f):
    """the span a dense solution reports is (start of the first stored step, end of the last stored step) in the order
    of integration: t_span() == (segs.first().xold, segs.last().xold + segs.last().h) symbolically (helpers of dense.rs
    interpreted in place). Sorting the ends (min/max) would make sol(xend) fail for backward runs."""
    from symx import SymExec, Hooks
    fn = CONT + "t_span"
    b = f.bodies.get(fn)
    key = "R-SPAN-ENDS:t_span"
    if b is None:
        rep.inconc("R-SPAN-ENDS", key, "%s not found" % fn)
        return
    rep.fn(fn)

    class SX(SymExec):
        def inline_ok(self, d, rec):
            return d.startswith(("dense::", "<dense::")) and bool(rec.get("has_body"))
    sx = SX(f, fn, Hooks())
    sx.bind_params()
    ret = sx.eval(b["body"])
    from poly import DEFS as _D
    def some_tuples(v, depth=0):
        """the (start, end) pairs of the `Some((..))` values a returned value can be (a join stands for its alternatives)"""
        a = v.single_atom() if isinstance(v, Poly) else None
        d = _D.get(a) if a else None
        if not d or depth > 3:
            return []
        if d[0] == "phi":
            return [t for x in d[1] if isinstance(x, Poly) for t in some_tuples(x, depth + 1)]
        if (d[0].startswith("call:") and d[0].endswith("Some") or d[0] == "Some") and d[1] and isinstance(d[1][0], Poly):
            ta = d[1][0].single_atom()
            td = _D.get(ta) if ta else None
            if td and td[0] == "tuple" and len(td[1]) == 2:
                return [td[1]]
        return []
    tups = some_tuples(ret)
    tup = tups[0] if len(tups) == 1 else None
    if tup is None:
        rep.inconc("R-SPAN-ENDS", key, "t_span does not end in Some((start, end)): %r" % (ret,))
        return
    key_of = {}
    for k_, nm in sx.names.items():
        key_of.setdefault(nm, k_)

    def which_end(root_key):
        v = sx.st.get(root_key) if sx.st else None
        at = v.single_atom() if isinstance(v, Poly) else None
        dd = _D.get(at) if at else None
        if dd is None and isinstance(sx.bound0.get(root_key), Poly):
            # bound inside a match arm: after the join the state only holds a fresh name; the arm bound it to this value
            at = sx.bound0[root_key].single_atom()
            dd = _D.get(at) if at else None
        for _ in range(8):
            if not dd or dd[0] in ("first", "last") or not dd[1]:
                break
            x0 = dd[1][0]
            if dd[0] == "proj" and isinstance(x0, Poly) and x0.single_atom() and (_D.get(x0.single_atom()) or ("",))[0] == "tuple" and len(dd[1]) > 1:
                # a component of a tuple scrutinee: (segs.first(), segs.last()) matched by (Some(a), Some(b))
                ix = dd[1][1].const_value() if isinstance(dd[1][1], Poly) else dd[1][1]
                items = _D[x0.single_atom()][1]
                x0 = items[int(ix)] if ix is not None and int(ix) < len(items) else None
                dd = _D.get(x0.single_atom()) if isinstance(x0, Poly) and x0.single_atom() else None
                continue
            if dd[0] in ("unwrap", "as_ref", "armval", "optval", "proj", "Some") and isinstance(x0, Poly) and x0.single_atom():
                dd = _D.get(x0.single_atom())
                continue
            break
        if dd and dd[0] in ("first", "last"):
            return dd[0], repr(dd[1][0])
        return None, None

    def field_atom(p):
        """atom `<local>.<field>` -> (which end the local is, place, field)"""
        at = p.single_atom()
        if not at or "." not in at:
            return None
        k_ = key_of.get(at)
        if not k_ or "." not in k_:
            return None
        root = k_.rsplit(".", 1)[0]
        end, place = which_end(root)
        return (end, place, at.rsplit(".", 1)[1]) if end else None
    start, end = tup
    probs = []
    fs = field_atom(start) if isinstance(start, Poly) else None
    if not fs or fs[0] != "first" or fs[2] != "xold":
        probs.append("the start is %r, not the first stored step's xold" % (start,))
    ok_end = False
    if isinstance(end, Poly) and len(end.t) == 2 and all(c == 1 and len(m) == 1 and m[0][1] == 1 for m, c in end.t.items()):
        parts = [field_atom(Poly.atom(m[0][0])) for m in end.t]
        if all(parts) and {p_[2] for p_ in parts} == {"xold", "h"} and all(p_[0] == "last" for p_ in parts) and (not fs or all(p_[1] == fs[1] for p_ in parts)):
            ok_end = True
    if not ok_end:
        probs.append("the end is %s, not the last stored step's xold + h (the end in the order of integration)" % (repr(end)[:160],))
    if probs:
        rep.violation("R-SPAN-ENDS", key, "; ".join(probs) + ": for a backward run sol() would reject times inside the final step", b.get("sp"))
    else:
        rep.ok("R-SPAN-ENDS", key, "t_span() = (first.xold, last.xold + last.h)")


# ------------------------------------------------------------------------------------------ R-SEG-WIDTH
def r_seg_width(rep, f):
    """Every interpolation routine divides by the width of its segment ((xi - xold) / h).  The segments of a run come from
    accepted steps (from_segments skips the zero-width ones); a segment that the library builds by itself - the placeholder of
    a zero-length run - must be given a width that is non-zero for EVERY start point, or evaluating the dense
    output at a stored sample returns NaN instead of the sample.  The width argument is evaluated over intervals with the
    function's parameters unconstrained."""
    import interval
    from symx import SymExec, Hooks
    NEW = "dense::DenseSegment::new"
    nb = f.bodies.get(NEW)
    if nb is None:
        rep.inconc("R-SEG-WIDTH", "R-SEG-WIDTH:anchor", "DenseSegment::new not found")
        return
    hpos = [i for i, p_ in enumerate(nb.get("params", [])) if p_.get("k") == "PBind" and p_.get("name") == "h"]
    if len(hpos) != 1:
        rep.inconc("R-SEG-WIDTH", "R-SEG-WIDTH:anchor", "DenseSegment::new has no single parameter named h")
        return
    n_sites = 0
    for b in f.body_list:
        fn = b["def"]
        if fn == "solve::cont::ContinuousOutput::from_segments" or "::{closure" in fn:
            continue            # the stored steps: R-SEG-KEEP covers the zero-width skip there
        calls = tast.find(b["body"], lambda z: z.get("k") == "Call" and (z.get("def") or "") == NEW)
        if not calls:
            continue
        key = "R-SEG-WIDTH:%s" % fn
        rep.fn(fn)
        got = []

        class H(Hooks):
            def call(self, sx, node, d):
                if d == NEW and len(node["args"]) > hpos[0]:
                    got.append((sx.eval(node["args"][hpos[0]]), node))
                return NotImplemented
        try:
            sx = SymExec(f, fn, H())
            sx.bind_params()
            sx.eval(b["body"])
        except Exception as e:
            rep.inconc("R-SEG-WIDTH", key, "could not interpret %s: %s" % (fn, e), b.get("sp"))
            continue
        if not got:
            rep.inconc("R-SEG-WIDTH", key, "the DenseSegment::new call was not reached by the interpreter", b.get("sp"))
            continue
        bad = None
        # a width handed through unchanged (a field of the step record, a parameter) is the step taken, not a width the
        # library chose: those segments are the stored steps' (R-SEG-KEEP / R-SEG-FIELDS)
        def is_passed(v):
            a_ = v.single_atom() if isinstance(v, Poly) else None
            if not a_ or v != Poly.atom(a_):
                return False
            d_ = DEFS.get(a_)
            # an input itself, or a component taken out of one (`let Self { h, .. } = *self`): no arithmetic
            return d_ is None or d_[0] in ("proj", "field", "deref", "as_ref", "armval")
        passed = [g_ for g_ in got if is_passed(g_[0])]
        got = [g_ for g_ in got if not is_passed(g_[0])]
        if passed and not got:
            rep.ok("R-SEG-WIDTH", key, "the width is handed through unchanged (%s): a copy of a step record" % passed[0][0], nontrivial=False)
            continue
        for v, node in got:
            n_sites += 1
            if not isinstance(v, Poly):
                bad = (v, node, "is not a scalar the analysis can bound")
                continue
            try:
                iv = interval.Evaluator([], {}).poly(v)
            except interval.IntervalError as e:
                bad = (v, node, "could not be bounded (%s)" % e)
                continue
            if iv.empty() or iv.lo <= 0.0 <= iv.hi:       # (a NaN start point is the caller's; only zero is the library's doing)
                bad = (v, node, "can be zero for some argument values (range [%s, %s])" % (iv.lo, iv.hi))
        if bad:
            rep.violation("R-SEG-WIDTH", key, "the width %r given to a segment built outside the step record %s: the interpolation routines divide by it, so the dense output "
                          "evaluated on that segment is NaN instead of the stored sample" % (bad[0], bad[2]), bad[1].get("sp"))
        else:
            rep.ok("R-SEG-WIDTH", key, "%d segment(s) built outside the step record, width %s: never zero" % (len(got), ", ".join(repr(v) for v, _ in got)[:80]))
    if n_sites < 1:
        rep.inconc("R-SEG-WIDTH", "R-SEG-WIDTH:floor", "no DenseSegment::new call outside from_segments found (expected the zero-length-run placeholder)")
