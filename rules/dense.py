"""Dense-output bookkeeping rules (C06): R-SOL-ERRMAP, R-CONT-LAYOUT, R-SEG-KEEP, R-SEG-LOOKUP."""
import tast
import rk
from poly import Poly
from protocol import SOLVERS, solve_fn

ERRI = "error::InterpolationError::"
SOLN = "solve::solution::Solution::"
CONT = "solve::cont::ContinuousOutput::"
METHODS = {"rk4": "RK4", "rk23": "RK23", "dopri5": "DOPRI5", "dop853": "DOP853", "radau": "RADAU", "bdf": "BDF"}


def r_sol_errmap(rep, f):
    for name in ("sol", "sol_many"):
        fn = SOLN + name
        b = f.bodies.get(fn)
        key = "R-SOL-ERRMAP:%s" % name
        if b is None:
            rep.inconc("R-SOL-ERRMAP", key, "Solution::%s not found" % name)
            continue
        rep.fn(fn)
        probs = []
        # (1) None -> NotEnabled : `.ok_or(..NotEnabled..)` applied to the continuous_sol field
        oks = tast.find(b["body"], lambda z: z.get("k") == "MethodCall" and z.get("name") in ("ok_or", "ok_or_else"))
        ne = [c for c in oks if tast.contains(c["recv"], lambda q: q.get("k") == "Field" and q.get("name") == "continuous_sol")
              and tast.contains(c["args"][0], lambda q: (q.get("def") or "") == ERRI + "NotEnabled")]
        if not ne:
            probs.append("a missing continuous solution is not mapped to InterpolationError::NotEnabled")
        # (2) out of span -> OutOfRange under `t < lo || t > hi` with (lo, hi) = (min, max) of the span ends
        rets = [r for r in tast.find_with_parents(b["body"], lambda z: z.get("k") == "Return")
                if tast.contains(r[0], lambda q: (q.get("def") or "").startswith(ERRI + "OutOfRange"))]
        ok2 = False
        for r, parents in rets:
            ifs = [p for p in parents if p.get("k") == "If" and tast.contains(p["then"], lambda z: z is r)]
            if not ifs:
                continue
            c = ifs[-1]["cond"]
            if c.get("k") == "Binary" and c["op"] == "Or":
                l, rr = c["l"], c["r"]
                ok2 = (l.get("k") == "Binary" and l["op"] == "Lt" and rr.get("k") == "Binary" and rr["op"] == "Gt") or \
                      (l.get("k") == "Binary" and l["op"] == "Gt" and rr.get("k") == "Binary" and rr["op"] == "Lt")
        if not ok2:
            probs.append("times outside the covered span are not rejected with OutOfRange under `t < lo || t > hi`")
        mm = tast.find(b["body"], lambda z: z.get("k") == "Let" and z["pat"].get("k") == "PTuple" and z.get("init") is not None and z["init"].get("k") == "Tuple"
                       and tast.contains(z["init"], lambda q: q.get("k") == "MethodCall" and q.get("name") == "min")
                       and tast.contains(z["init"], lambda q: q.get("k") == "MethodCall" and q.get("name") == "max"))
        if not mm:
            probs.append("the span bounds are not normalised with min/max (backward runs have start > end)")
        elif not (tast.contains(mm[0]["init"]["elems"][0], lambda q: q.get("k") == "MethodCall" and q.get("name") == "min")
                  and tast.contains(mm[0]["init"]["elems"][1], lambda q: q.get("k") == "MethodCall" and q.get("name") == "max")):
            probs.append("(lo, hi) is not (min, max) of the span ends")
        if probs:
            rep.violation("R-SOL-ERRMAP", key, "; ".join(probs), b.get("sp"))
        else:
            rep.ok("R-SOL-ERRMAP", key, "None -> NotEnabled; t outside [min,max] of the span -> OutOfRange")
    # (3) continuous_sol is Some iff options.dense_output at every Solution construction in solve_ivp
    sv = f.bodies.get("solve::solve_ivp::solve_ivp")
    if sv is None:
        return
    lits = tast.find(sv["body"], lambda z: z.get("k") == "Struct" and z.get("def") == "solve::solution::Solution")
    n = 0
    for j, s in enumerate(lits):
        fl = {x["name"]: x["e"] for x in s["fields"]}
        e = fl.get("continuous_sol")
        key = "R-SOL-ERRMAP:solve_ivp:literal%d" % (j + 1)
        src = e
        if e is not None and e.get("k") == "Path" and e.get("res") == "local":
            lets = [l for l in tast.find(sv["body"], lambda z: z.get("k") == "Let" and z["pat"].get("id") == e.get("id"))]
            # several lets shadow each other by scope: take the one in the same block chain = nearest preceding by span line
            src = lets[-1]["init"] if lets else e
            for l in lets:
                if l.get("sp", "").split(":")[1].isdigit() and int(l["sp"].split(":")[1]) <= int(s["sp"].split(":")[1]):
                    src = l["init"]
        ok = src is not None and src.get("k") == "If" and tast.contains(src["cond"], lambda q: q.get("k") == "Field" and (q.get("fdef") or "").endswith("Options::dense_output")) \
            and tast.contains(src["then"], lambda q: q.get("k") == "Call" and (q.get("def") or "").endswith("Some")) \
            and src.get("else") is not None and tast.contains(src["else"], lambda q: q.get("k") == "Path" and (q.get("def") or "").endswith("None"))
        n += 1
        if ok:
            rep.ok("R-SOL-ERRMAP", key, "continuous_sol = if options.dense_output { Some(..) } else { None }")
        else:
            rep.violation("R-SOL-ERRMAP", key, "a Solution is built whose continuous_sol is not `Some` exactly when dense_output was requested", s.get("sp"))
    if n < 3:
        rep.inconc("R-SOL-ERRMAP", "R-SOL-ERRMAP:solve_ivp:floor", "only %d Solution literals" % n)


def match_table(b, enum_prefix):
    """variant -> arm body for the (single) match over an enum in b"""
    for m in tast.find(b["body"], lambda z: z.get("k") == "Match"):
        t = {}
        for a in m["arms"]:
            d = a["pat"].get("def") or a["pat"].get("ctor_of") or ""
            if a["pat"].get("k") in ("PRef", "PDeref"):
                d = a["pat"]["pat"].get("def") or ""
            if d.startswith(enum_prefix):
                t[d[len(enum_prefix):]] = a["body"]
            elif a["pat"].get("k") == "POr":
                for q in a["pat"]["pats"]:
                    dq = q.get("def") or ""
                    if dq.startswith(enum_prefix):
                        t[dq[len(enum_prefix):]] = a["body"]
        if t:
            return t
    return {}


def r_cont_layout(rep, f):
    """allocation multiplier of `cont`, blocks read by interpolate, coeffs_per_state and interpolate_fn agree per method"""
    cps = None
    ifn = None
    for b in f.body_list:
        if b["def"].endswith("Method::coeffs_per_state"):
            cps = match_table(b, "solve::options::Method::")
        if b["def"].endswith("Method::interpolate_fn"):
            ifn = match_table(b, "solve::options::Method::")
    if not cps or not ifn:
        rep.inconc("R-CONT-LAYOUT", "R-CONT-LAYOUT:anchor", "Method::coeffs_per_state / interpolate_fn not found")
        return
    for mod, ty in SOLVERS:
        fn = solve_fn(mod, ty)
        key = "R-CONT-LAYOUT:%s" % ty
        probs = []
        # allocation multiplier
        try:
            sx, hk = rk.analyse_solve(f, fn)
        except rk.AnalysisError as e:
            rep.inconc("R-CONT-LAYOUT", key, str(e))
            continue
        recs = [r for r in hk.interp_calls if r["in_main"]]
        alloc = None
        if recs and hasattr(recs[0]["cont"], "len") and isinstance(recs[0]["cont"].len, Poly):
            ln = recs[0]["cont"].len
            ylen = Poly.atom("len(y0)")
            q = ln.div(ylen).const_value()
            alloc = int(q) if q is not None and q.denominator == 1 else None
        if alloc is None:
            # const-defined block sizes (BDF): n * CONST
            lets = tast.find(f.body(fn)["body"], lambda z: z.get("k") == "Let" and z["pat"].get("name") == "cont" and z.get("init") is not None)
            if lets and recs and isinstance(getattr(recs[0]["cont"], "len", None), Poly):
                cv = recs[0]["cont"].len.div(Poly.atom("len(y0)")).const_value()
                alloc = int(cv) if cv is not None else None
        # table entries
        v = METHODS[mod]
        tb = cps.get(v)
        tval = None
        if tb is not None:
            if tb.get("k") == "Lit":
                tval = int(tb["v"])
            elif tb.get("k") == "Path" and tb.get("dk") == "Const":
                cv = sx.const_value(tb["def"]).const_value()
                tval = int(cv) if cv is not None else None
        ib = ifn.get(v)
        idef = ib.get("def") if ib is not None and ib.get("k") == "Path" else None
        want_interp = "methods::%s::%s::interpolate" % (mod, ty)
        if idef != want_interp:
            probs.append("Method::%s is evaluated with %s" % (v, idef))
        if recs and recs[0]["fn"] != want_interp:
            probs.append("%s::solve hands out %s" % (ty, recs[0]["fn"]))
        # blocks read by interpolate
        nread = None
        try:
            u, isx = rk.analyse_interpolate(f, want_interp)
            if u is not None:
                ks = [int(a.split("@")[1]) for a in u.atoms() if a.startswith("cont@")]
                nread = max(ks) + 1 if ks else None
        except Exception:
            nread = None
        vals = {"allocation": alloc, "coeffs_per_state": tval, "blocks read": nread}
        known = {k: x for k, x in vals.items() if x is not None}
        if len(set(known.values())) > 1:
            probs.append("layout numbers disagree: %s" % known)
        if tval is None:
            probs.append("coeffs_per_state has no literal entry for %s" % v)
        if probs:
            rep.violation("R-CONT-LAYOUT", key, "; ".join(probs), f.body(fn).get("sp"))
        else:
            rep.ok("R-CONT-LAYOUT", key, "cont holds %s blocks: %s; interpolate_fn -> %s" % (tval, known, want_interp.split("::", 1)[1]))


def r_seg_keep(rep, f):
    """the default handler stores every non-degenerate segment it is handed, before any early return"""
    import handler as H
    hc = H.HandlerCtx(f)
    key = "R-SEG-KEEP"
    if hc.body is None:
        rep.inconc(key, key + ":anchor", "handler not found")
        return
    ps = [ev for nm, ev in hc.pushes() if nm == "dense_segs"]
    if len(ps) != 1:
        rep.violation(key, key + ":sites", "expected one place where dense segments are stored, found %d" % len(ps), hc.body.get("sp"))
        return
    ev = ps[0]
    allowed = []
    bad = []
    for node, branch, cv in ev.get("pc", []):
        txt = tast.render(node["cond"])
        ok = branch == "then" and all(tok in ("self", "collect_dense", "x", "xold", "interpolant", "seg", "h") or not tok.isidentifier()
                                      for tok in _idents(node["cond"]))
        (allowed if ok else bad).append("%s[%s]" % (txt, branch))
    # it must come before the first return in source order
    body = hc.body["body"]
    first_ret = min([int(r.get("sp").split(":")[1]) for r, fl in hc.returns()] or [10 ** 9])
    line = int(ev["node"].get("sp").split(":")[1])
    if bad:
        rep.violation(key, key + ":guard", "storing a dense segment also depends on %s: segments can be dropped, leaving gaps in sol(t)" % bad, ev["node"].get("sp"))
    elif line > first_ret:
        rep.violation(key, key + ":order", "dense segments are stored after an early return of the handler: the segment of a step that ends with a terminal event would be lost", ev["node"].get("sp"))
    else:
        rep.ok(key, key, "stored under %s only, before any return" % allowed)


def _idents(e):
    out = []
    tast.walk(e, lambda n, p: out.append(n.get("name")) if n.get("k") in ("Path", "Field") and n.get("name") else None)
    return out


def r_seg_lookup(rep, f):
    """segment lookup is direction-agnostic: [min(xold, xold+h) - tol, max(..) + tol]"""
    for name in ("find_segment", "find_segment_extrapolate"):
        fn = CONT + name
        b = f.bodies.get(fn)
        key = "R-SEG-LOOKUP:%s" % name
        if b is None:
            rep.inconc("R-SEG-LOOKUP", key, "not found")
            continue
        loops = tast.find(b["body"], lambda z: z.get("k") == "For")
        ok = False
        for lp in loops:
            lets = {l["pat"].get("name"): l["init"] for l in tast.find(lp["body"], lambda z: z.get("k") == "Let" and z.get("init") is not None)}
            mins = [n for n, e in lets.items() if e.get("k") == "MethodCall" and e.get("name") == "min"]
            maxs = [n for n, e in lets.items() if e.get("k") == "MethodCall" and e.get("name") == "max"]
            ifs = tast.find(lp["body"], lambda z: z.get("k") == "If" and z["cond"].get("k") == "Binary" and z["cond"]["op"] == "And")
            for i_ in ifs:
                l, r = i_["cond"]["l"], i_["cond"]["r"]
                if l.get("k") == "Binary" and l["op"] == "Ge" and r.get("k") == "Binary" and r["op"] == "Le" and mins and maxs:
                    lo_ok = tast.contains(l["r"], lambda q: q.get("k") == "Path" and q.get("name") in mins) and tast.contains(l["r"], lambda q: q.get("k") == "Binary" and q["op"] == "Sub")
                    hi_ok = tast.contains(r["r"], lambda q: q.get("k") == "Path" and q.get("name") in maxs) and tast.contains(r["r"], lambda q: q.get("k") == "Binary" and q["op"] == "Add")
                    same = lets[mins[0]]["recv"] and tast.render(lets[mins[0]]["recv"]) == tast.render(lets[maxs[0]]["recv"]) and tast.render(lets[mins[0]]["args"][0]) == tast.render(lets[maxs[0]]["args"][0])
                    ok = lo_ok and hi_ok and same
        if ok:
            rep.ok("R-SEG-LOOKUP", key, "t in [min(xold, xold+h) - tol, max(xold, xold+h) + tol]")
        else:
            rep.violation("R-SEG-LOOKUP", key, "the segment test is not the direction-agnostic window [min(xold,xold+h) - tol, max(xold,xold+h) + tol]", b.get("sp"))
