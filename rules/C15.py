"""C15 Mass matrices, DAEs and Jacobian sources/storages are interchangeable (structural clauses)."""
import facts
import tast
import linalg
import C17

LEVEL = "other"
MAT = "matrix::base::Matrix"


def r_mass_default(rep, f):
    """out-parameter discipline of the IVP trait's default bodies"""
    for name in ("mass", "jac"):
        fn = "ivp::IVP::" + name
        b = f.bodies.get(fn)
        key = "R-MASS-DEFAULT:%s" % fn
        if b is None:
            rep.inconc("R-MASS-DEFAULT", key, "default body not found")
            continue
        rep.fn(fn)
        outs = [p["id"] for p in b["params"] if p.get("ty") == "&mut " + MAT]
        if len(outs) != 1:
            rep.inconc("R-MASS-DEFAULT", key, "expected one &mut Matrix parameter")
            continue
        oid = outs[0]
        writes = tast.find(b["body"], lambda z: z.get("k") in ("Assign", "AssignOp") and tast.contains(z["l"], lambda q: q.get("k") == "Path" and q.get("id") == oid))
        writes += tast.find(b["body"], lambda z: z.get("k") == "MethodCall" and z["recv"].get("k") == "Path" and z["recv"].get("id") == oid and "M" in (z["recv"].get("adj") or "")
                            and z.get("name") not in ("nrows", "ncols", "dims"))
        writes += tast.find(b["body"], lambda z: z.get("k") in ("Call", "MethodCall") and any(a.get("k") == "Path" and a.get("id") == oid for a in z["args"]))
        discarded = tast.find(b["body"], lambda z: z.get("k") == "ExprStmt" and z.get("semi") and z["e"].get("k") in ("Call", "MethodCall") and z["e"].get("ty") == MAT)
        probs = []
        if discarded:
            probs.append("a freshly constructed Matrix (%s) is discarded instead of being stored through the out-parameter" % tast.render(discarded[0]["e"]))
        if not writes:
            probs.append("the default body never writes through its `&mut Matrix` parameter: the caller's matrix keeps whatever it was allocated with (all zeros for Full/Banded storage)")
        if probs:
            rep.violation("R-MASS-DEFAULT", key, "; ".join(probs), (discarded[0] if discarded else b).get("sp"))
        else:
            rep.ok("R-MASS-DEFAULT", key, "%d store(s) through the out-parameter, nothing discarded" % len(writes))


def r_data_private(rep, f):
    inside = outside = 0
    first = None
    for b in f.body_list:
        n = tast.find(b["body"], lambda z: z.get("k") == "Field" and (z.get("fdef") or "") == MAT + "::data")
        if not n:
            continue
        if b["def"].startswith("matrix::") or b["def"].startswith("<matrix::"):
            inside += len(n)
        elif b["def"].startswith("python::"):
            continue
        else:
            outside += len(n)
            first = first or (b["def"], n[0])
    key = "R-DATA-PRIVATE"
    if inside < 10:
        rep.inconc(key, key + ":control", "positive control failed: only %d accesses to Matrix::data found inside matrix/ (expected >= 10)" % inside)
        return
    if outside:
        rep.violation(key, "%s:%s" % (key, first[0]), "Matrix::data is accessed directly in %s: the value then depends on the storage scheme" % first[0], first[1].get("sp"))
    else:
        rep.ok(key, key, "Matrix::data is touched only inside matrix/ (%d sites there, 0 elsewhere)" % inside)


def r_storage_blind(rep, f):
    key = "R-STORAGE-BLIND"
    n_idx = 0
    for b in f.body_list:
        if not b["def"].startswith("methods::"):
            continue
        bad = []
        for n in tast.find(b["body"], lambda z: z.get("k") == "Field" and (z.get("fdef") or "").startswith(MAT + "::")):
            bad.append("field access %s" % n.get("fdef"))
        for n in tast.find(b["body"], lambda z: z.get("k") in ("MethodCall", "Call") and (z.get("def") or "").startswith(MAT + "::")
                           and (z.get("def") or "").split("::")[-1] in ("is_identity", "swap_rows")):
            bad.append("call %s" % n.get("def"))
        for n in tast.find(b["body"], lambda z: z.get("k") in ("Match", "If") and tast.contains(z.get("scrut") or z.get("cond") or {}, lambda q: "MatrixStorage" in (q.get("ty") or "")
                                                                                             and q.get("k") in ("Path", "Field") and q.get("res") != "def")):
            # matching on a storage value (other than cloning the configured one into from_storage)
            bad.append("branch on MatrixStorage")
        n_idx += len(tast.find(b["body"], lambda z: z.get("k") == "Index" and "Matrix" in (z.get("base_ty") or "")))
        if bad:
            rep.violation(key, "%s:%s" % (key, b["def"]), "%s depends on how a matrix is stored: %s" % (b["def"], sorted(set(bad))[:3]), b.get("sp"))
    if n_idx < 10:
        rep.inconc(key, key + ":floor", "only %d (i,j) matrix accesses found under methods/ (expected >= 10)" % n_idx)
    elif not any(v["rule"] == key for v in rep.violations):
        rep.ok(key, key, "the solvers read mass and Jacobian only through Index<(usize,usize)> (%d sites); no storage-specialised path" % n_idx)


def r_lu_full(rep, f):
    for fn, b, c, parents in linalg.lu_call_sites(f):
        for a in c["args"]:
            if "Matrix" not in (a.get("ty") or ""):
                continue
            root = a
            while root.get("k") in ("AddrOf", "Unary"):
                root = root["e"]
            if root.get("k") != "Path":
                continue
            lets = tast.find(b["body"], lambda z: z.get("k") == "Let" and z["pat"].get("id") == root.get("id"))
            key = "R-LU-FULL:%s:%s" % (fn, root.get("name"))
            init = lets[0].get("init") if lets else None
            d = (init or {}).get("def") or ""
            if d in (MAT + "::zeros", MAT + "::full", MAT + "::square"):
                rep.ok("R-LU-FULL", key, "built by %s" % d.split("::")[-1])
            else:
                rep.violation("R-LU-FULL", key, "the matrix handed to the factorisation is built by %s, not as a Full matrix: in-place elimination would write outside a band / into Identity" % (d or tast.render(init)),
                              (init or c).get("sp"))


def _mat_index(z):
    """(row id, col id, names) of `M[(r, c)]` with plain local indices, else None"""
    if z.get("k") != "Index" or "Matrix" not in (z.get("base_ty") or ""):
        return None
    i = z.get("i") or {}
    if i.get("k") != "Tuple" or len(i.get("elems", [])) != 2:
        return None
    r, c = i["elems"]
    if r.get("k") == "Path" and c.get("k") == "Path" and r.get("res") == "local" and c.get("res") == "local":
        return (r["id"], c["id"], (r.get("name"), c.get("name")))
    return None


def _vec_index(z):
    """(base name, index id, index name) of `v[k]` on a float slice / Vec with a plain local index"""
    if z.get("k") != "Index" or "Matrix" in (z.get("base_ty") or ""):
        return None
    i = z.get("i") or {}
    if i.get("k") == "Path" and i.get("res") == "local" and i.get("ty") == "usize":
        return (tast.render(z["e"]), i["id"], i.get("name"))
    return None


def r_mat_orient(rep, f):
    """orientation of every matrix element access under methods/ and in the finite-difference Jacobian:
    (a) element-wise combination  X[(a,b)] = g(M[(a,b)], J[(a,b)])  uses one and the same index pair on both sides;
    (b) a product  M[(r,c)] * v[k]  (directly or through `let m = M[(r,c)]`) multiplies by the component k == c (M*v, not M^T*v);
    (c) the finite-difference Jacobian stores column `col` = the perturbed component and row = the component of the difference."""
    n_a = n_b = n_c = 0
    for b in f.body_list:
        d = b["def"]
        if not (d.startswith("methods::") or d == "ivp::IVP::jac"):
            continue
        body = b["body"]
        sites = tast.find_with_parents(body, lambda z: _mat_index(z) is not None)
        if not sites:
            continue
        rep.fn(d)
        # let-bound copies of a matrix element
        alias = {}
        for l in tast.find(body, lambda z: z.get("k") == "Let" and z.get("init") is not None and _mat_index(z["init"]) is not None and z["pat"].get("k") == "PBind"):
            alias[l["pat"]["id"]] = (_mat_index(l["init"]), l["init"])
        for z, parents in sites:
            mi = _mat_index(z)
            asg = next((p for p in reversed(parents) if p.get("k") in ("Assign", "AssignOp")), None)
            # (a)/(c): z is the assigned element
            if asg is not None and asg["l"] is z:
                reads = [q for q in tast.find(asg["r"], lambda q: _mat_index(q) is not None)]
                key = "R-MAT-ORIENT:%s:%s[(%s,%s)]" % (d, tast.render(z["e"]), mi[2][0], mi[2][1])
                bad = [q for q in reads if _mat_index(q)[:2] != mi[:2]]
                vecs = [v for v in (_vec_index(q) for q in tast.find(asg["r"], lambda q: _vec_index(q) is not None)) if v]
                if bad:
                    rep.violation("R-MAT-ORIENT", key, "`%s` is assigned from `%s`: the index pair differs, so one operand enters transposed" % (tast.render(z), tast.render(bad[0])), z.get("sp"))
                    continue
                # iterator form of the finite-difference loop: `for (row, (fp, f0)) in fp.iter().zip(f0.iter()).enumerate()`
                enum_loop = next((p for p in reversed(parents) if p.get("k") == "For" and p["pat"].get("k") == "PTuple" and p["pat"]["pats"]
                                  and p["pat"]["pats"][0].get("k") == "PBind" and p["pat"]["pats"][0].get("id") == mi[0]
                                  and tast.contains(p["iter"], lambda q: q.get("k") == "MethodCall" and q.get("name") == "enumerate")), None)
                if not reads and not vecs and enum_loop is not None:
                    elems = {q["id"] for q in tast.find(enum_loop["pat"]["pats"][1:], lambda q: q.get("k") == "PBind")}
                    used = tast.find(asg["r"], lambda q: q.get("k") == "Path" and q.get("id") in elems)
                    loop = next((p for p in reversed(parents) if p.get("k") == "For" and tast.contains(p["pat"], lambda q: q.get("k") == "PBind" and q.get("id") == mi[1])), None)
                    pert = tast.find(loop["body"], lambda q: q.get("k") in ("Assign", "AssignOp") and _vec_index(q["l"]) is not None and _vec_index(q["l"])[1] == mi[1]) if loop is not None else []
                    if not used:
                        rep.violation("R-MAT-ORIENT", key, "`%s` is not assigned from the elements enumerated with the row index `%s`" % (tast.render(z), mi[2][0]), z.get("sp"))
                    elif d == "ivp::IVP::jac" and not pert:
                        rep.violation("R-MAT-ORIENT", key, "finite-difference Jacobian: the column index `%s` is not the component that is perturbed in the enclosing loop" % mi[2][1], z.get("sp"))
                    else:
                        n_c += 1
                        rep.ok("R-MAT-ORIENT", key, "row = enumerate index of the difference vectors, column = perturbed component")
                    continue
                if reads:
                    n_a += 1
                    rep.ok("R-MAT-ORIENT", key, "element-wise: %d matrix read(s) with the same (row, col) pair" % len(reads))
                elif vecs:
                    # (c) finite differences: the vectors on the right are indexed by the row, and the column variable indexes the perturbed component
                    wrong = [v for v in vecs if v[1] != mi[0]]
                    loop = next((p for p in reversed(parents) if p.get("k") == "For" and tast.contains(p["pat"], lambda q: q.get("k") == "PBind" and q.get("id") == mi[1])), None)
                    pert = []
                    if loop is not None:
                        pert = tast.find(loop["body"], lambda q: q.get("k") in ("Assign", "AssignOp") and _vec_index(q["l"]) is not None and _vec_index(q["l"])[1] == mi[1])
                    if wrong:
                        rep.violation("R-MAT-ORIENT", key, "`%s` is assigned from `%s`, a vector component that is not the row `%s`" % (tast.render(z), "%s[%s]" % (wrong[0][0], wrong[0][2]), mi[2][0]), z.get("sp"))
                    elif d == "ivp::IVP::jac" and not pert:
                        rep.violation("R-MAT-ORIENT", key, "finite-difference Jacobian: the column index `%s` is not the component that is perturbed in the enclosing loop" % mi[2][1], z.get("sp"))
                    else:
                        n_c += 1
                        rep.ok("R-MAT-ORIENT", key, "row = component of the difference, column = perturbed component (%d perturbation store(s))" % len(pert))
                continue
            # (b) a read multiplied with a vector component
            uses = []
            par = parents[-1] if parents else None
            if par is not None and par.get("k") == "Let" and par.get("init") is z and par["pat"].get("k") == "PBind":
                vid = par["pat"]["id"]
                blk = next((p for p in reversed(parents[:-1]) if p.get("k") in ("Block", "For", "Loop")), body)
                for m, mp in tast.find_with_parents(blk, lambda q: q.get("k") == "Binary" and q.get("op") == "Mul"):
                    for side, other in ((m["l"], m["r"]), (m["r"], m["l"])):
                        if side.get("k") == "Path" and side.get("id") == vid:
                            uses.append((m, other))
            else:
                m = next((p for p in reversed(parents) if p.get("k") == "Binary" and p.get("op") == "Mul"), None)
                if m is not None:
                    other = m["r"] if tast.contains(m["l"], lambda q: q is z) else m["l"]
                    uses.append((m, other))
            for m, other in uses:
                vs = [v for v in (_vec_index(q) for q in tast.find(other, lambda q: _vec_index(q) is not None)) if v]
                if not vs:
                    continue
                key = "R-MAT-ORIENT:%s:%s[(%s,%s)]*%s" % (d, tast.render(z["e"]), mi[2][0], mi[2][1], vs[0][0])
                if any(v[1] != mi[1] for v in vs):
                    v = next(v for v in vs if v[1] != mi[1])
                    rep.violation("R-MAT-ORIENT", key, "`%s` multiplies the element (%s, %s) by `%s[%s]`: a matrix-vector product pairs the column index with the vector component, this is the transposed product"
                                  % (tast.render(m)[:80], mi[2][0], mi[2][1], v[0], v[2]), m.get("sp"))
                else:
                    n_b += 1
                    rep.ok("R-MAT-ORIENT", key, "column index pairs with the vector component")
    if n_a < 4 or n_b < 4 or n_c < 1:
        rep.inconc("R-MAT-ORIENT", "R-MAT-ORIENT:floor", "expected >= 4 element-wise, >= 4 product and >= 1 finite-difference instances, found %d/%d/%d" % (n_a, n_b, n_c))


def run(rep, tier):
    f = facts.load("default")
    rep.rule("R-MASS-DEFAULT", "the default bodies of IVP::mass / IVP::jac store through their &mut Matrix parameter and discard no constructed Matrix")
    rep.rule("R-DATA-PRIVATE", "Matrix::data is touched only inside matrix/ (positive control: >= 10 sites there)")
    rep.rule("R-STORAGE-BLIND", "no function under methods/ reads a Matrix field, calls is_identity or branches on MatrixStorage: mass and Jacobian are read only through Index<(usize,usize)>")
    rep.rule("R-LU-FULL", "matrices handed to lu_decomp* are built by Matrix::zeros/full")
    rep.rule("R-BAND-MAP", "same (i,j) => same value for every storage: Index/IndexMut agree (shared with C17)")
    rep.rule("R-MAT-ORIENT", "every matrix element access in the solvers keeps the (row, col) orientation: element-wise combinations use one index pair, products pair the column with the vector component, the FD Jacobian's column is the perturbed component")
    r_mass_default(rep, f)
    r_mat_orient(rep, f)
    r_data_private(rep, f)
    r_storage_blind(rep, f)
    r_lu_full(rep, f)
    C17.r_band_map(rep, f)
    C17.r_mat_repinv(rep, f)
    rep.rule("R-BAND-KEEP", "a Banded storage descriptor built from a requested (ml, mu) keeps ml as ml and mu as mu - Matrix::from_storage is how the solvers allocate the Jacobian / mass storage the user configured")
    C17.r_band_keep(rep, f)
    rep.rule("R-MASS-DEFAULT", "the default IVP::mass leaves a matrix that reads as the identity for every storage the solver may have allocated (Identity, Full, Banded(ml, mu), n <= 3; exact evaluation)")
    import matx
    matx.r_mass_default_dense(rep, f, 3)
    rep.explanation = ("Structural: identical entries give identical arithmetic because the solvers see matrices only through (i,j) indexing, whose read/write maps agree, "
                       "and the trait defaults really deliver the documented identity / finite-difference Jacobian. "
                       "Not decided: agreement with y' = M^-1 f, DAE constraint residuals, FD vs analytic Jacobian within tolerance.")
