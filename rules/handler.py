"""Rules over the default output handler `DefaultSolOut::solout` (solve/solout.rs)."""
import math

import tast
import mon
from symx import SymExec, Hooks, Buf, Ref, Coll, phi_leaves
from poly import Poly, opaque, DEFS, reaches

INTERP = "dense::StepInterpolant::<'a>::interpolate"
EVENTS = "ivp::IVP::events"
FLAG = "solout::ControlFlag::"
DSO = "solve::solout::DefaultSolOut::"


def find_handler(f):
    c = [b for b in f.body_list if b.get("impl_trait") == "solout::SolOut" and (b.get("impl_self") or "").startswith("solve::solout::DefaultSolOut")
         and b["def"].endswith("::solout")]
    if len(c) != 1:
        return None
    return c[0]


def find_crossed(f, handler):
    c = [b for b in f.body_list if b["def"].startswith(handler["def"] + "::") and b["dk"] == "Fn"]
    return c


def sign_tests(f, handler, scope):
    """[(if node, callee)] - the sign-change test of the detection loop, found by shape rather than by name: an `if` whose
    condition is a call with three arguments (two floats and a direction) of a nested helper fn or of a local closure.
    callee = {'def', 'params', 'body', 'sp'} for either form."""
    out = []
    for i_ in tast.find(scope, lambda z: z.get("k") == "If" and z["cond"].get("k") == "Call" and len(z["cond"].get("args", [])) == 3 and z["cond"].get("ty") == "bool"):
        c = i_["cond"]
        if not any("Direction" in (a.get("ty") or "") for a in c["args"]):
            continue
        d = c.get("def") or ""
        if d and d in f.bodies and (d.startswith(handler["def"] + "::") or d.startswith("solve::")):
            out.append((i_, f.bodies[d]))
        elif not d and c.get("res") == "local":
            lets = tast.find(handler["body"], lambda z: z.get("k") == "Let" and z["pat"].get("id") == c.get("id") and z.get("init") is not None and z["init"].get("k") == "Closure")
            if len(lets) == 1:
                cl = lets[0]["init"]
                out.append((i_, dict(cl, **{"def": cl.get("def"), "params": cl.get("params"), "body": cl.get("body"), "sp": cl.get("sp")})))
    return out


class HHooks(Hooks):
    def call(self, sx, node, d):
        if d == INTERP and len(node["args"]) == 2:
            if node.get("recv") is not None:
                sx.eval(node["recv"])       # `interpolant.unwrap()`: evaluated for its unwrap event
            t = sx.eval(node["args"][0])
            lv = sx.lvalue(node["args"][1])
            if lv[0] == "key":
                sx.st[lv[1]] = Buf("interp", {0: opaque("interp", [sx._p(t)])})
            sx.log("interp", t=t, lv=lv, node=node)
            return Poly.atom("unit")
        if d == EVENTS and len(node["args"]) == 3:
            t = sx.eval(node["args"][0])
            y = sx.eval(node["args"][1])
            lv = sx.lvalue(node["args"][2])
            if lv[0] == "key":
                sx.st[lv[1]] = Buf("g", {0: opaque("events", [sx._p(t), sx._p(y)])})
            sx.log("events", t=t, y=y, yp=sx._p(y), node=node)
            return Poly.atom("unit")
        return NotImplemented


class DirHooks(HHooks):
    """forces every condition that is a pure test of the direction of integration (a comparison of x with xold, or a
    single-assignment local bound to one) to the branch taken for the given direction: one symbolic run per direction"""

    def __init__(self, body, xid, xoldid, dirn):
        self.body, self.xid, self.xoldid, self.dirn = body, xid, xoldid, dirn

    def select_if(self, sx, node, cond):
        try:
            v = _eval_fin(node["cond"], {"dir": self.dirn, "rel": "E", "a": None, "b": None}, self.body, self.xid, self.xoldid)
        except _Unknown:
            return None
        except Exception:
            return None
        if isinstance(v, bool):
            return "then" if v else "else"
        return None


class HandlerCtx:
    def dir_run(self, dirn):
        """symbolic run of the handler with the direction of integration fixed ('fwd' | 'bwd')"""
        cache = self.__dict__.setdefault("_dir_runs", {})
        if dirn not in cache:
            sx = SymExec(self.f, self.body["def"], DirHooks(self.body["body"], self.pid[2], self.pid[1], dirn))
            sx.bind_params()
            sx.eval(self.body["body"])
            cache[dirn] = sx
        return cache[dirn]

    @staticmethod
    def _through_ref(ev, base, nm):
        """a push made inside a helper through a `&mut Vec` parameter is a push to the handler field the caller passed"""
        lv = ev.get("lv")
        if base.get("k") == "Path" and base.get("res") == "local" and lv and lv[0] in ("key", "elem") and isinstance(lv[1], str) and lv[1].count(".") >= 2:
            return lv[1].rsplit(".", 1)[1], True
        return nm, False

    def pushes_of(self, sx, field=None):
        out = []
        for ev in sx.trace:
            if ev["kind"] == "push":
                r = ev["recv"]
                base = r["e"] if r.get("k") == "Index" else r
                nm = (base.get("fdef") or "")[len(DSO):] if (base.get("fdef") or "").startswith(DSO) else (base.get("name") if base.get("k") == "Path" else None)
                nm, _ = self._through_ref(ev, base, nm)
                if field is None or nm == field:
                    out.append((nm, ev))
        return out

    def __init__(self, f):
        self.f = f
        self.body = find_handler(f)
        self.sx = None
        if self.body is not None:
            self.fn = "DefaultSolOut::solout"
            sx = SymExec(f, self.body["def"], HHooks())
            sx.bind_params()
            sx.eval(self.body["body"])
            self.sx = sx
            self.fn = "DefaultSolOut::solout"
            ps = self.body["params"]
            self.pname = [p.get("name") for p in ps]      # self, xold, x, y, interpolant
            self.pid = [p.get("id") for p in ps]

    # ---- node finders
    def field_is(self, e, name):
        return e.get("k") == "Field" and (e.get("fdef") or "") == DSO + name

    def pushes(self, field=None):
        out = []
        for ev in self.sx.trace:
            if ev["kind"] == "push":
                r = ev["recv"]
                base = r["e"] if r.get("k") == "Index" else r
                nm = (base.get("fdef") or "")[len(DSO):] if (base.get("fdef") or "").startswith(DSO) else (base.get("name") if base.get("k") == "Path" else None)
                nm, _ = self._through_ref(ev, base, nm)
                if field is None or nm == field:
                    out.append((nm, ev))
        return out

    def teval_ifs(self):
        return tast.find_with_parents(self.body["body"], lambda x: x.get("k") == "If" and x["cond"].get("k") == "LetExpr"
                                      and tast.contains(x["cond"]["init"], lambda z: self.field_is(z, "t_eval")))

    def mode1_if(self):
        """the sampling-mode split: the outermost `if let Some(..) = self.t_eval…` that has an else branch"""
        c = [(len(ps), x) for x, ps in self.teval_ifs() if x.get("else") is not None]
        c.sort(key=lambda t: t[0])
        if not c or (len(c) > 1 and c[0][0] == c[1][0]):
            return None
        return c[0][1]

    def in_teval_region(self, node):
        return any(tast.contains(x["then"], lambda z: z is node) for x, ps in self.teval_ifs())

    def detected_local(self):
        """id of the local collection that detected events are pushed to"""
        ids = set()
        for nm, ev in self.pushes():
            r = ev["recv"]
            if r.get("k") == "Path" and r.get("res") == "local" and not self._through_ref(ev, r, nm)[1]:
                ids.add(r["id"])
        return ids.pop() if len(ids) == 1 else None

    def detect_for(self):
        did = self.detected_local()
        c = tast.find(self.body["body"], lambda x: x.get("k") == "For" and tast.contains(
            x["body"], lambda z: z.get("k") == "MethodCall" and z.get("name") == "push" and z["recv"].get("k") == "Path" and z["recv"].get("id") == did))
        return c[0] if c else None

    def process_for(self):
        did = self.detected_local()
        c = tast.find(self.body["body"], lambda x: x.get("k") == "For" and x["iter"].get("k") == "Path" and x["iter"].get("id") == did)
        return c[0] if len(c) == 1 else None

    def returns(self):
        out = []
        for n in tast.find(self.body["body"], lambda x: x.get("k") == "Return"):
            e = n.get("e") or {}
            out.append((n, (e.get("def") or "")[len(FLAG):] if (e.get("def") or "").startswith(FLAG) else None))
        return out

    def tail_flag(self):
        t = self.body["body"].get("tail")
        if t and (t.get("def") or "").startswith(FLAG):
            return t["def"][len(FLAG):]
        return None


def sp(n):
    return n.get("sp") if isinstance(n, dict) else None


# ------------------------------------------------------------------------------------- R-PUSH-PAIR / R-EVT-PAIR
class PairMon(mon.Monitor):
    init = (None,)

    def __init__(self, rule, fn, first, second, hc, same_index=False):
        super().__init__()
        self.rule, self.fn, self.first, self.second, self.hc, self.same_index = rule, fn, first, second, hc, same_index
        self.pairs = 0
        self._pair_nodes = set()

    def which(self, n):
        if n.get("k") == "MethodCall" and n.get("name") == "push":
            r = n["recv"]
            idx = None
            if r.get("k") == "Index":
                idx = tast.render(r["i"])
                r = r["e"]
            # inside a helper walked in place a `&mut Vec` parameter stands for the field the caller passed
            try:
                r = self.runner.resolve(r)
            except Exception:
                pass
            while r.get("k") in ("AddrOf", "DropTemps", "Paren"):
                r = r["e"]
            if self.hc.field_is(r, self.first):
                return ("a", idx)
            if self.hc.field_is(r, self.second):
                return ("b", idx)
        return None

    def step(self, st, ev):
        kind, n = ev[0], ev[1]
        if kind == "node":
            w = self.which(n)
            if w is None:
                return (st,)
            # the two pushes of a pair may come in either order; st = (which one is outstanding, its index)
            name = {"a": self.first, "b": self.second}
            if st is None:
                return ((w[0], w[1]),)
            if st[0] == w[0]:
                other = name["b" if w[0] == "a" else "a"]
                self.violate("%s:%s:double-%s" % (self.rule, self.fn, "first" if w[0] == "a" else "second"), "%s.push twice without a matching %s.push" % (name[w[0]], other), n, self.cur_trail)
                return ((w[0], w[1]),)
            if self.same_index and st[1] != w[1]:
                self.violate("%s:%s:index" % (self.rule, self.fn), "%s[%s] paired with %s[%s]" % (name[st[0]], st[1], name[w[0]], w[1]), n, self.cur_trail)
            self._pair_nodes.add((id(n), self.runner.site()))
            return (None,)
        if kind in ("return", "fn_end", "break", "continue", "latch", "loop_head", "for_head") and st is not None:
            name = {"a": self.first, "b": self.second}
            self.violate("%s:%s:unpaired-%s" % (self.rule, self.fn, "first" if st[0] == "a" else "second"), "a path leaves with %s pushed but not %s" % (name[st[0]], name["b" if st[0] == "a" else "a"]), n, self.cur_trail)
            return (None,)
        return (st,)


def r_push_pair(rep, hc, rule="R-PUSH-PAIR", first="t", second="y", floor=7, same_index=False):
    m = PairMon(rule, hc.fn, first, second, hc, same_index)
    mon.Runner(m).run_fn(hc.body)
    for key, msg, node, trail in m.violations:
        rep.violation(rule, key, msg, sp(node))
    n = len(m._pair_nodes)
    if n < floor:
        rep.inconc(rule, "%s:%s:floor" % (rule, hc.fn), "only %d %s/%s push pairs found (expected >= %d)" % (n, first, second, floor))
    elif not m.violations:
        rep.ok(rule, "%s:%s" % (rule, hc.fn), "%d push pairs, every %s.push is matched by its %s.push (in either order, nothing in between leaves the callback) on every path" % (n, first, second))


def r_evt_shape(rep, hc):
    """t_events / y_events are created with the same length"""
    f = hc.f
    new = [b for b in f.body_list if b["def"].startswith("solve::solout::DefaultSolOut") and b["def"].endswith("::new")]
    key = "R-EVT-PAIR:%s:creation" % hc.fn
    if len(new) != 1:
        rep.inconc("R-EVT-PAIR", key, "DefaultSolOut::new not found")
        return
    lits = tast.find(new[0]["body"], lambda x: x.get("k") == "Struct" and tast.contains(x, lambda z: False) is False and any(fl["name"] == "t_events" for fl in x.get("fields", [])))
    if not lits:
        rep.inconc("R-EVT-PAIR", key, "constructor literal not found")
        return
    fl = {x["name"]: x["e"] for x in lits[0]["fields"]}

    def lens(e):
        # vec![elem; n] -> from_elem(elem, n)
        if e.get("k") == "Call" and (e.get("def") or "").endswith("from_elem"):
            return tast.render(e["args"][1])
        return None
    a, b = lens(fl["t_events"]), lens(fl["y_events"])
    if a is not None and a == b:
        rep.ok("R-EVT-PAIR", key, "t_events and y_events both created with length %s" % a)
    else:
        rep.violation("R-EVT-PAIR", key, "t_events created with length %s, y_events with %s" % (a, b), sp(lits[0]))


# ------------------------------------------------------------------------------------- sampling provenance
def is_teval_elem(v):
    a = v.single_atom() if isinstance(v, Poly) else None
    if not a or a not in DEFS or DEFS[a][0] != "idx":
        return False
    return reaches(DEFS[a][1][0], lambda x: x.endswith("self.t_eval") or x == "self.t_eval")


def vec_of(v):
    """inner value of a vec[...] atom"""
    a = v.single_atom() if isinstance(v, Poly) else None
    if a and a in DEFS and DEFS[a][0] == "vec":
        return DEFS[a][1][0]
    return None


def interp_of(v):
    a = v.single_atom() if isinstance(v, Poly) else None
    if a and a in DEFS and DEFS[a][0] == "interp":
        return DEFS[a][1][0]
    return None


def push_pairs(hc):
    """[(t_event, y_event)] consecutive t/y pushes in trace order"""
    seq = [(nm, ev) for nm, ev in hc.pushes() if nm in ("t", "y")]
    out = []
    i = 0
    while i + 1 < len(seq):
        if seq[i][0] == "t" and seq[i + 1][0] == "y":
            out.append((seq[i][1], seq[i + 1][1]))
            i += 2
        else:
            i += 1
    return out


def r_teval_verbatim(rep, hc):
    m1 = hc.mode1_if()
    if m1 is None:
        rep.inconc("R-TEVAL-VERBATIM", "R-TEVAL-VERBATIM:%s:anchor" % hc.fn, "mode-1 region (if let Some(t_eval) = self.t_eval…) not found")
        return
    xid, xoldid = hc.pid[2], hc.pid[1]
    n = 0
    for te, ye in push_pairs(hc):
        if not hc.in_teval_region(te["node"]):
            continue
        n += 1
        tv, yv = te["value"], ye["value"]
        key = "R-TEVAL-VERBATIM:%s:site%d" % (hc.fn, n)
        if not is_teval_elem(tv):
            rep.violation("R-TEVAL-VERBATIM", key, "in t_eval mode the time pushed is %r, not a plain element of t_eval" % (tv,), sp(te["node"]))
            continue
        inner = vec_of(yv)
        it = interp_of(inner) if inner is not None else None
        if it is not None and it == tv:
            rep.ok("R-TEVAL-VERBATIM", key, "(t_eval[i], interpolant(t_eval[i]))")
            continue
        if inner is not None and inner == Poly.atom("y@0"):
            # allowed only under the initial-callback test (a comparison between xold and x)
            anc = [p for nd, ps in tast.find_with_parents(hc.body["body"], lambda z: z is te["node"]) for p in ps]
            guarded = False
            for a in anc:
                if a.get("k") == "If" and tast.contains(a["then"], lambda z: z is te["node"]):
                    c = a["cond"]
                    if tast.contains(c, lambda z: z.get("k") == "Path" and z.get("id") == xid) and tast.contains(c, lambda z: z.get("k") == "Path" and z.get("id") == xoldid):
                        guarded = True
            if guarded:
                rep.ok("R-TEVAL-VERBATIM", key, "(t_eval[i], y) under the initial-callback test xold ~ x")
            else:
                rep.violation("R-TEVAL-VERBATIM", key, "the step-end state y is reported for a requested time without interpolation outside the initial callback", sp(ye["node"]))
            continue
        rep.violation("R-TEVAL-VERBATIM", key, "value reported with t_eval[i] is %r, not the interpolant at that same time" % (yv,), sp(ye["node"]))
    if n < 3:
        rep.inconc("R-TEVAL-VERBATIM", "R-TEVAL-VERBATIM:%s:floor" % hc.fn, "only %d sampling sites in t_eval mode (expected 3)" % n)


def r_teval_window(rep, hc):
    """every interpolated t_eval sample is guarded by a comparison of that same t_eval[i] with the step start xold, in the
    form that matches the direction of integration (t >= xold - tol forward, t <= xold + tol backward). Decided on one
    symbolic run of the handler per direction (all pure direction tests forced), from the path condition of each sample."""
    xoldn, xn = hc.pname[1], hc.pname[2]
    import limits
    # handler fields that the constructor initialises with a non-negative literal (the comparison tolerance)
    pos_fields = set()
    for b_ in hc.f.body_list:
        if b_["def"].startswith("solve::solout::DefaultSolOut") and b_["def"].endswith("::new"):
            for lit in tast.find(b_["body"], lambda z: z.get("k") == "Struct" and any(fl["name"] == "t_events" for fl in z.get("fields", []))):
                for fl in lit["fields"]:
                    e_ = fl["e"]
                    if e_.get("k") == "Lit" and e_.get("lk") in ("Float", "Int") and float(str(e_["v"]).replace("_", "")) >= 0:
                        pos_fields.add("self." + fl["name"])
    nonneg = lambda q: limits.nonneg(q, assume=lambda at: at in pos_fields)
    n_sites = 0
    problems = {}
    undecoded = {}
    for dirn in ("fwd", "bwd"):
        sx = hc.dir_run(dirn)
        seq = [(nm, ev) for nm, ev in hc.pushes_of(sx) if nm in ("t", "y")]
        pairs = []
        i = 0
        while i + 1 < len(seq):
            if seq[i][0] == "t" and seq[i + 1][0] == "y":
                pairs.append((seq[i][1], seq[i + 1][1]))
                i += 2
            else:
                i += 1
        k = 0
        for te, ye in pairs:
            if not hc.in_teval_region(te["node"]) and not hc.in_teval_region(te.get("inner_node", te["node"])):
                continue
            tv, yv = te["value"], ye["value"]
            inner = vec_of(yv)
            if not is_teval_elem(tv) or inner is None or interp_of(inner) is None:
                continue     # initial-callback pairs are not interpolated
            k += 1
            n_sites += 1
            key = "R-TEVAL-WINDOW:%s:site%d" % (hc.fn, k)
            ok = False
            wrong = False
            # the path condition, plus the facts that hold at the sample (a test left through `break` / `continue` on its other
            # edge is not on the path-condition stack any more, but what it established still holds)
            conds_ = list(te.get("pc", [])) + [(None, "then" if t_ else "else", c_) for c_, t_ in (te.get("facts") or [])]
            for node, branch, cv in conds_:
                a = cv.single_atom() if isinstance(cv, Poly) else None
                d = DEFS.get(a) if a else None
                # `if !in_window { continue }`: a negated test taken on its other edge
                for _ in range(3):
                    if d and d[0] == "not" and d[1] and isinstance(d[1][0], Poly) and d[1][0].single_atom():
                        d = DEFS.get(d[1][0].single_atom())
                        branch = "else" if branch == "then" else "then"
                    else:
                        break
                if not d or d[0] not in ("ge", "gt", "le", "lt") or len(d[1]) != 2:
                    continue
                l, r = d[1]
                if not (isinstance(l, Poly) and isinstance(r, Poly)):
                    continue
                op = d[0]
                if branch != "then":
                    op = {"ge": "lt", "gt": "le", "le": "gt", "lt": "ge"}[op]
                # normalise to  t - xold + rest  (>= | <=) 0
                p = l - r
                if op in ("le", "lt"):
                    sense = "le"
                else:
                    sense = "ge"
                ct = p.t.get(((tv.single_atom(), 1),), 0)
                if ct == 0 or xoldn not in p.atoms() or xn in p.atoms():
                    continue
                if ct < 0:
                    p = -p
                    sense = "le" if sense == "ge" else "ge"
                rest = p - tv + Poly.atom(xoldn)
                # forward: t - xold + T >= 0 with T >= 0 ; backward: t - xold - T <= 0
                if sense == "ge" and (rest.is_zero() or nonneg(rest)):
                    kind = "fwd"
                elif sense == "le" and (rest.is_zero() or nonneg(-rest)):
                    kind = "bwd"
                else:
                    continue
                if kind == dirn:
                    ok = True
                else:
                    wrong = True
            if ok:
                continue
            if wrong:
                problems.setdefault(key, []).append("when integrating %s the requested time is tested against xold in the %s form" % (
                    "backward" if dirn == "bwd" else "forward", "forward (t >= xold - tol)" if dirn == "bwd" else "backward (t <= xold + tol)"))
            else:
                # a guard that is a joined boolean (`let in_step = if forward { a } else { b }; if !in_step { continue }`) is a
                # test the rule cannot decode: not decided, rather than "no test"
                def opaque_bool(cv_):
                    a_ = cv_.single_atom() if isinstance(cv_, Poly) else None
                    d_ = DEFS.get(a_) if a_ else None
                    for _ in range(3):
                        if d_ and d_[0] == "not" and d_[1] and isinstance(d_[1][0], Poly) and d_[1][0].single_atom():
                            a_ = d_[1][0].single_atom()
                            d_ = DEFS.get(a_)
                        else:
                            break
                    return bool(a_) and (d_ is None or d_[0] in ("phi", "widen", "ifval", "matchval")) and a_ not in ("true", "false")
                if any(opaque_bool(cv_) for _, _, cv_ in te.get("pc", [])):
                    undecoded.setdefault(key, te["node"])
                    continue
                problems.setdefault(key, []).append("no comparison of the requested time with the step start xold guards this sample when integrating %s" % ("backward" if dirn == "bwd" else "forward"))
            problems[key].append(te["node"])
    for key, lst in problems.items():
        node = [x for x in lst if isinstance(x, dict)][0]
        rep.violation("R-TEVAL-WINDOW", key, "; ".join(x for x in lst if isinstance(x, str)), sp(node))
    for key, node in undecoded.items():
        if key not in problems:
            rep.inconc("R-TEVAL-WINDOW", key, "this sample is guarded by a boolean joined from several tests, which the rule cannot decode into a comparison with xold", sp(node))
    if n_sites < 2:
        rep.inconc("R-TEVAL-WINDOW", "R-TEVAL-WINDOW:%s:floor" % hc.fn, "only %d interpolated sampling sites found" % n_sites)
    elif not problems:
        rep.ok("R-TEVAL-WINDOW", "R-TEVAL-WINDOW:%s" % hc.fn, "%d interpolated sampling site(s) over both directions, each under the direction-matched window test against xold" % n_sites)
    rep.rule("R-WINDOW-MIRROR", "the path conditions of the k-th requested-time sample in the forward and in the backward run of the handler are mirror images (time points negated, tolerances unchanged)")
    r_window_mirror(rep, hc)


def r_window_mirror(rep, hc):
    """time reflection of the sampling windows: in the forward-forced and the backward-forced run of the handler the k-th
    t_eval sample is taken under path conditions that are mirror images of each other - every linear comparison of the
    requested time T with the step ends (x, xold) in one direction appears in the other with all time points negated and the
    tolerances unchanged (T <= x + tol  <->  T >= x - tol)."""
    xoldn, xn = hc.pname[1], hc.pname[2]
    TIME = {xoldn, xn}

    def constraints(te):
        tv = te["value"]
        ta = tv.single_atom()
        out = set()

        def walk(cv, truth):
            a = cv.single_atom() if isinstance(cv, Poly) else None
            d = DEFS.get(a) if a else None
            if not d:
                return
            if d[0] == "and" and truth:
                for x_ in d[1]:
                    walk(x_, True)
                return
            if d[0] == "or" and not truth:
                for x_ in d[1]:
                    walk(x_, False)
                return
            if d[0] == "not" and len(d[1]) == 1:
                walk(d[1][0], not truth)
                return
            if d[0] not in ("ge", "gt", "le", "lt") or len(d[1]) != 2 or not all(isinstance(q, Poly) for q in d[1]):
                return
            op = d[0] if truth else {"ge": "lt", "gt": "le", "le": "gt", "lt": "ge"}[d[0]]
            p_ = d[1][0] - d[1][1]
            ct = p_.t.get(((ta, 1),), 0)
            if ct == 0 or any(ta in [b for b, _ in m] and len(m) > 1 for m in p_.t):
                return
            if not (TIME & p_.atoms()):
                return
            # only plain linear forms in T, x, xold (nothing under abs / calls)
            for m in p_.t:
                for b, e in m:
                    if b in TIME or b == ta:
                        if len(m) != 1 or e != 1:
                            return
            if ct < 0:
                p_ = -p_
                op = {"ge": "le", "gt": "lt", "le": "ge", "lt": "gt"}[op]
                ct = -ct
            if ct != 1:
                return
            q = p_ - tv
            out.add((op, q))
        for node, branch, cv in te.get("pc", []):
            walk(cv, branch == "then")
        # tests decided earlier on the path whose other branch left (`if !reached { break }`) hold here as well
        for cv, tr_ in te.get("facts", []) or []:
            walk(cv, bool(tr_))
        return out

    def reflect(cs):
        r = set()
        for op, q in cs:
            # T + q(x, xold) op 0   ->   -T + q(-x, -xold) op 0   ->   T - q(-x, -xold) op' 0
            qq = q.subst({a_: -Poly.atom(a_) for a_ in TIME})
            r.add(({"ge": "le", "gt": "lt", "le": "ge", "lt": "gt"}[op], -qq))
        return r
    sites = {}
    for dirn in ("fwd", "bwd"):
        sx = hc.dir_run(dirn)
        sites[dirn] = [ev for nm, ev in hc.pushes_of(sx) if nm == "t" and is_teval_elem(ev["value"])]
    key = "R-WINDOW-MIRROR:%s" % hc.fn
    if len(sites["fwd"]) != len(sites["bwd"]) or not sites["fwd"]:
        rep.inconc("R-WINDOW-MIRROR", key, "the forward run has %d t_eval sampling sites, the backward run %d" % (len(sites["fwd"]), len(sites["bwd"])))
        return
    n_cmp = 0
    for k, (a, b) in enumerate(zip(sites["fwd"], sites["bwd"])):
        ca, cb = constraints(a), constraints(b)
        n_cmp += len(ca)
        ra = reflect(ca)
        if ra != cb:
            only_f = sorted("T + %r %s 0" % (q, op) for op, q in ca if ({"ge": "le", "gt": "lt", "le": "ge", "lt": "gt"}[op], -q.subst({a_: -Poly.atom(a_) for a_ in TIME})) not in cb)
            only_b = sorted("T + %r %s 0" % (q, op) for op, q in cb - ra)
            rep.violation("R-WINDOW-MIRROR", key + ":site%d" % (k + 1), "the window of this requested-time sample is not symmetric under time reflection: forward run tests %s, backward run tests %s "
                          "(a point accepted in one direction is dropped in the mirrored run)" % (only_f or "nothing more", only_b or "nothing more"), sp(a["node"]))
            return
    # the window is open beyond the step end: a requested time within half the handler's slack past x is still sampled
    # (the last step of a run may land an ulp short of xend; with no slack a requested time equal to xend is dropped)
    import pnum
    n_slack = 0
    for dirn, sgn in (("fwd", 1.0), ("bwd", -1.0)):
        for k, te in enumerate(sites[dirn]):
            for op, q in constraints(te):
                if xn not in q.atoms():
                    continue
                env = {xn: 1.0, xoldn: 1.0 - 0.5 * sgn}
                try:
                    qv = pnum.value(q, env, lambda nm: 1e-3 if nm.startswith("self.") else None)
                except pnum.NoEval:
                    continue
                tval = 1.0 + sgn * 0.5e-3
                lhs = tval + qv
                holds = {"ge": lhs >= 0, "gt": lhs > 0, "le": lhs <= 0, "lt": lhs < 0}[op]
                n_slack += 1
                if not holds:
                    rep.violation("R-WINDOW-MIRROR", key + ":slack:%s" % dirn, "the %s window test `T + %r %s 0` rejects a requested time within the handler's own slack beyond the step end x: "
                                  "when the final step lands an ulp short of xend, a requested time equal to xend is silently dropped" % ("forward" if sgn > 0 else "backward", q, op), sp(te["node"]))
                    return
    # the flush before a terminal event: a requested time that lies before the event - by however little - is reported.
    # A test of the form T < E - tol loses the times within the slack before the event (they are not reported later either:
    # the run stops at the event).
    n_evt = 0
    for dirn, sgn in (("fwd", 1.0), ("bwd", -1.0)):
        for te in sites[dirn]:
            tv = te["value"]
            ta = tv.single_atom()
            known_ = [(cv, branch == "then") for node_, branch, cv in te.get("pc", [])] + [(cv, bool(tr_)) for cv, tr_ in te.get("facts", [])]
            for cv, truth0 in known_:
                stack = [(cv, truth0)]
                while stack:
                    c_, truth = stack.pop()
                    a_ = c_.single_atom() if isinstance(c_, Poly) else None
                    d_ = DEFS.get(a_) if a_ else None
                    if not d_:
                        continue
                    if d_[0] == "and" and truth:
                        stack.extend((x_, True) for x_ in d_[1] if isinstance(x_, Poly))
                        continue
                    if d_[0] == "not" and len(d_[1]) == 1:
                        stack.append((d_[1][0], not truth))
                        continue
                    if d_[0] not in ("ge", "gt", "le", "lt") or len(d_[1]) != 2 or not all(isinstance(q_, Poly) for q_ in d_[1]):
                        continue
                    op = d_[0] if truth else {"ge": "lt", "gt": "le", "le": "gt", "lt": "ge"}[d_[0]]
                    p_ = d_[1][0] - d_[1][1]
                    lin = {m[0][0]: c for m, c in p_.t.items() if len(m) == 1 and m[0][1] == 1}
                    if len(lin) != len([m for m in p_.t if m]) or ta not in lin or abs(lin[ta]) != 1:
                        continue
                    others = [b_ for b_ in lin if b_ != ta and not b_.startswith(("self.", "const:"))]
                    if len(others) != 1 or others[0] in TIME or lin[others[0]] != -lin[ta]:
                        continue
                    E = others[0]
                    if not (E.startswith("phi~comp") or "event" in E or E.startswith("proj[")):
                        continue
                    env = {E: 1.0, ta: 1.0 - sgn * 0.5e-3}
                    try:
                        val = pnum.value(p_, env, lambda nm: 1e-3 if nm.startswith("self.") else None)
                    except pnum.NoEval:
                        continue
                    holds = {"ge": val >= 0, "gt": val > 0, "le": val <= 0, "lt": val < 0}[op]
                    n_evt += 1
                    if not holds:
                        rep.violation("R-WINDOW-MIRROR", key + ":before-event:%s" % dirn, "on the path that reports requested times before a terminal event, the test `%s %s 0` rejects a requested time lying less than the "
                                      "handler's slack before the event: that time is never reported although the run had not stopped yet" % (repr(p_)[:80], op), sp(te["node"]))
                        return
    if n_cmp < 3 or n_slack < 2 or n_evt < 2:
        rep.inconc("R-WINDOW-MIRROR", key, "only %d window comparisons / %d step-end tests / %d before-event tests found" % (n_cmp, n_slack, n_evt))
    else:
        rep.ok("R-WINDOW-MIRROR", key, "%d sampling site(s), %d window comparisons: forward and backward windows are mirror images; %d step-end and %d before-event tests keep the points within the slack"
               % (len(sites["fwd"]), n_cmp, n_slack, n_evt))


def r_nextidx_mono(rep, hc):
    body = hc.body["body"]
    key = "R-NEXTIDX-MONO:%s" % hc.fn
    writes = tast.find(body, lambda x: x.get("k") in ("Assign", "AssignOp") and hc.field_is(x["l"], "next_idx"))
    if not writes:
        rep.inconc("R-NEXTIDX-MONO", key, "no write to next_idx found")
        return
    probs = []
    for w in writes:
        r = w["r"]
        if w["k"] == "AssignOp":
            ok_ = w["op"].startswith("Add") and mon.is_lit_int(r) is not None
            if not ok_ and w["op"].startswith("Add") and r.get("k") == "Path" and r.get("res") == "local":
                # `next_idx += consumed` with a counter that starts at 0 and is only ever incremented by 1
                lets = tast.find(body, lambda x: x.get("k") == "Let" and x["pat"].get("id") == r["id"])
                ups = tast.find(body, lambda x: x.get("k") in ("Assign", "AssignOp") and x["l"].get("k") == "Path" and x["l"].get("id") == r["id"])
                ok_ = len(lets) == 1 and lets[0].get("init") is not None and mon.is_lit_int(lets[0]["init"]) == 0 \
                    and all(a["k"] == "AssignOp" and a["op"].startswith("Add") and mon.is_lit_int(a["r"]) == 1 for a in ups)
            if not ok_:
                probs.append("next_idx updated by %s" % tast.render(w))
            continue
        if not (r.get("k") == "Path" and r.get("res") == "local"):
            probs.append("next_idx assigned from %s" % tast.render(r))
            continue
        lid = r["id"]
        # the local must be initialised from next_idx and only incremented
        lets = tast.find(body, lambda x: x.get("k") == "Let" and x["pat"].get("id") == lid)
        if len(lets) != 1 or not (lets[0].get("init") and hc.field_is(lets[0]["init"], "next_idx")):
            probs.append("cursor local is not initialised from next_idx")
        for a in tast.find(body, lambda x: x.get("k") in ("Assign", "AssignOp") and x["l"].get("k") == "Path" and x["l"].get("id") == lid):
            if not (a["k"] == "AssignOp" and a["op"].startswith("Add") and mon.is_lit_int(a["r"]) == 1):
                probs.append("cursor updated by %s" % tast.render(a))
    if probs:
        rep.violation("R-NEXTIDX-MONO", key, "; ".join(probs), sp(writes[0]))
    else:
        rep.ok("R-NEXTIDX-MONO", key, "next_idx only advances by += 1 steps")


class BeforeInterruptMon(mon.Monitor):
    init = (False,)

    def __init__(self, hc, m1):
        super().__init__()
        self.hc, self.m1 = hc, m1

    def step(self, st, ev):
        kind, n = ev[0], ev[1]
        if kind == "pre" and any(n is x for x, ps in self.hc.teval_ifs()):
            return (True,)
        if kind == "return":
            e = n.get("e") or {}
            if (e.get("def") or "") == FLAG + "Interrupt" and not st:
                self.violate("R-TEVAL-BEFORE-INTERRUPT:%s:terminal-return" % self.hc.fn,
                             "a path returns Interrupt without passing the t_eval sampling region: requested times between the step start and the terminal event are never reported",
                             n, self.cur_trail)
        return (st,)


def r_teval_before_interrupt(rep, hc):
    m1 = hc.mode1_if()
    if m1 is None:
        rep.inconc("R-TEVAL-BEFORE-INTERRUPT", "R-TEVAL-BEFORE-INTERRUPT:%s:anchor" % hc.fn, "mode-1 region not found")
        return
    m = BeforeInterruptMon(hc, m1)
    mon.Runner(m).run_fn(hc.body)
    for key, msg, node, trail in m.violations:
        rep.violation("R-TEVAL-BEFORE-INTERRUPT", key, msg, sp(node))
    if not m.violations:
        n = len([1 for r, fl in hc.returns() if fl == "Interrupt"])
        rep.ok("R-TEVAL-BEFORE-INTERRUPT", "R-TEVAL-BEFORE-INTERRUPT:%s" % hc.fn, "%d Interrupt return(s), all after the sampling region" % n, nontrivial=n > 0)


# ------------------------------------------------------------------------------------- terminal events
def r_term(rep, hc):
    body = hc.body["body"]
    rets = [r for r, fl in hc.returns() if fl == "Interrupt"]
    pf = hc.process_for()
    df = hc.detect_for()
    if len(rets) < 1 or pf is None or df is None:
        rep.inconc("R-TERM-COND", "R-TERM-COND:%s:anchor" % hc.fn, "terminal return / processing loop / detection loop not found")
        return
    pats = pf["pat"].get("pats") or []
    ids = [p.get("id") for p in pats]
    for j, r in enumerate(rets):
        key = "R-TERM-COND:%s:return%d" % (hc.fn, j)
        probs = []
        if not tast.contains(pf["body"], lambda z: z is r):
            probs.append("Interrupt is returned outside the chronologically sorted processing loop")
        anc = [ps for nd, ps in tast.find_with_parents(body, lambda z: z is r)][0]
        ifs = [a for a in anc if a.get("k") == "If" and tast.contains(a["then"], lambda z: z is r)]
        has_cmp = False
        has_limit = False
        limit_id = None
        for a in ifs:
            c = a["cond"]
            if c.get("k") == "LetExpr" and tast.contains(c["init"], lambda z: z.get("k") == "Field" and (z.get("fdef") or "").endswith("EventConfig::terminal_count")):
                has_limit = True
                bs = tast.find(c["pat"], lambda z: z.get("k") == "PBind")
                limit_id = bs[0]["id"] if bs else None
        for a in ifs:
            c = a["cond"]
            if c.get("k") == "Binary" and c["op"] in ("Ge", "Gt", "Eq") and tast.contains(c["l"], lambda z: hc.field_is(z, "event_hits")) \
                    and c["r"].get("k") == "Path" and c["r"].get("id") == limit_id:
                has_cmp = True
                if c["op"] != "Ge":
                    probs.append("occurrence test is `%s`, expected hits >= terminal_count" % tast.render(c))
        if not (has_limit and has_cmp):
            # other shapes (early `continue`, match on the option, unwrap_or): decide on the path condition of the return in
            # the symbolic run - some condition known there must be  hits >= L  with hits read from event_hits and L derived
            # from EventConfig::terminal_count
            from poly import reaches
            sem = None
            for ev in hc.sx.trace:
                if ev["kind"] == "return" and ev["node"] is r:
                    import symx as _symx
                    known = [(branch, cv) for node_, branch, cv in ev.get("pc", [])]
                    known += [("then" if tr_ else "else", cv) for cv, tr_ in ((ev.get("state") or {}).get(_symx.FACTS) or frozenset())]
                    for branch, cv in known:
                        a_ = cv.single_atom() if isinstance(cv, Poly) else None
                        d_ = DEFS.get(a_) if a_ else None
                        if not d_ or d_[0] not in ("ge", "gt", "le", "lt", "eq") or len(d_[1]) != 2 or not all(isinstance(q, Poly) for q in d_[1]):
                            continue
                        op_ = d_[0] if branch == "then" else {"ge": "lt", "gt": "le", "le": "gt", "lt": "ge", "eq": "ne"}[d_[0]]
                        l_, r_ = d_[1]
                        is_h = lambda q: reaches(q, lambda at: "event_hits" in at)
                        is_l = lambda q: reaches(q, lambda at: "terminal_count" in at)
                        if is_h(l_) and is_l(r_) and not is_l(l_):
                            sem = op_
                        elif is_h(r_) and is_l(l_) and not is_l(r_):
                            sem = {"ge": "le", "gt": "lt", "le": "ge", "lt": "gt", "eq": "eq", "ne": "ne"}[op_]
            if sem == "ge":
                has_limit = has_cmp = True
            elif sem is not None:
                probs.append("occurrence test is hits %s terminal_count on the path to Interrupt, expected hits >= terminal_count" % sem)
                has_limit = has_cmp = True
        if not has_limit:
            probs.append("Interrupt is not guarded by `if let Some(limit) = config.terminal_count`")
        if not has_cmp:
            probs.append("Interrupt is not guarded by event_hits[i] >= limit")
        # recording precedes the terminal test in the processing loop
        order = []
        def walk_stmts(b):
            for s in list(b.get("stmts", [])) + ([dict(k="ExprStmt", e=b["tail"])] if b.get("tail") is not None else []):
                e = s.get("e") or {}
                if e.get("k") == "MethodCall" and e.get("name") == "push" and tast.contains(e["recv"], lambda z: hc.field_is(z, "t_events")):
                    order.append("record")
                if tast.contains(s, lambda z: z is r):
                    order.append("terminal")
        walk_stmts(pf["body"])
        if order[:2] != ["record", "terminal"]:
            probs.append("the event is not recorded in t_events before the terminal test")
        if probs:
            rep.violation("R-TERM-COND", key, "; ".join(probs), sp(r))
        else:
            rep.ok("R-TERM-COND", key, "Interrupt <= event_hits[i] >= terminal_count, inside the sorted processing loop, after recording")
    # no Interrupt return in the detection loop
    if any(tast.contains(df["body"], lambda z: z is r) for r in rets):
        rep.violation("R-TERM-COND", "R-TERM-COND:%s:in-detection" % hc.fn, "Interrupt is returned from the (unsorted) detection loop", sp(df))
    # R-TERM-POINT: the two pushes before the return are this element's time/state
    tr = hc.sx.trace
    for j, r in enumerate(rets):
        key = "R-TERM-POINT:%s:return%d" % (hc.fn, j)
        idx = [i for i, ev in enumerate(tr) if ev["kind"] == "return" and ev["node"] is r]
        if not idx:
            rep.inconc("R-TERM-POINT", key, "return not reached by the symbolic run")
            continue
        before = [ev for ev in tr[:idx[0]] if ev["kind"] == "push"]
        named = [(nm, ev) for nm, ev in hc.pushes() if any(ev is b for b in before)]
        last_t = [ev for nm, ev in named if nm == "t"][-1:]
        last_y = [ev for nm, ev in named if nm == "y"][-1:]
        te = [ev for nm, ev in named if nm == "t_events"][-1:]
        ye = [ev for nm, ev in named if nm == "y_events"][-1:]
        probs = []
        if not (last_t and last_y and te and ye):
            probs.append("no (t, y) push of the event point before returning Interrupt")
        else:
            if {named[-1][0], named[-2][0]} != {"t", "y"}:
                probs.append("the event point is not the last sample pushed before Interrupt")
            if last_t[0]["value"] != te[0]["value"]:
                probs.append("time pushed to t (%r) is not the event time recorded in t_events (%r)" % (last_t[0]["value"], te[0]["value"]))
            if last_y[0]["value"] != ye[0]["value"]:
                probs.append("state pushed to y is not the event state recorded in y_events")
            if not tast.contains(pf["body"], lambda z: z is last_t[0]["node"]):
                probs.append("the sample pushed before Interrupt is not pushed in the processing loop")
        if probs:
            rep.violation("R-TERM-POINT", key, "; ".join(probs), sp(r))
        else:
            rep.ok("R-TERM-POINT", key, "last sample before Interrupt is (event_t, event_y) of the terminal event")


class _Unknown(Exception):
    pass


def _flip(o):
    return {"L": "G", "G": "L", "E": "E"}.get(o, o)


def _eval_fin(e, env, body, xid, xoldid, depth=0):
    """Finite abstract evaluation of a comparator / direction test. env: {'dir': 'fwd'|'bwd', 'rel': 'L'|'E'|'G' (a.time vs
    b.time), 'a': id, 'b': id, locals...}. Values: True/False, 'L'/'E'/'G', 'ANY' (a tie-break result that does not matter)."""
    if depth > 40 or e is None:
        raise _Unknown("depth")
    k = e.get("k")
    if k == "Block":
        env = dict(env)
        for st in e.get("stmts", []):
            if st.get("k") == "Let" and st["pat"].get("k") == "PBind" and st.get("init") is not None:
                env[st["pat"]["id"]] = _eval_fin(st["init"], env, body, xid, xoldid, depth + 1)
            elif st.get("k") == "Let" and st["pat"].get("k") == "PTuple" and st.get("init") is not None:
                v = _eval_fin(st["init"], env, body, xid, xoldid, depth + 1)
                if not isinstance(v, tuple) or len(v) != len(st["pat"]["pats"]) or v[:1] in (("t",), ("elem",), ("other",)):
                    raise _Unknown("tuple pattern")
                for q, x in zip(st["pat"]["pats"], v):
                    if q.get("k") == "PBind":
                        env[q["id"]] = x
                    elif q.get("k") != "PWild":
                        raise _Unknown("nested pattern")
            elif st.get("k") in ("ExprStmt", "Semi"):
                continue
            else:
                raise _Unknown("statement %s" % st.get("k"))
        tail = e.get("tail") if e.get("tail") is not None else e.get("expr")
        return _eval_fin(tail, env, body, xid, xoldid, depth + 1)
    if k in ("Cast", "AddrOf", "DropTemps", "Paren"):
        return _eval_fin(e["e"], env, body, xid, xoldid, depth + 1)
    if k == "Unary":
        v = _eval_fin(e["e"], env, body, xid, xoldid, depth + 1)
        if e["op"] == "Not" and isinstance(v, bool):
            return not v
        if e["op"] == "Deref":
            return v
        raise _Unknown("unary")
    if k == "Lit" and e.get("lk") == "Bool":
        return bool(e["v"])
    if k == "Tuple":
        return tuple(_eval_fin(x, env, body, xid, xoldid, depth + 1) for x in e["elems"])
    if k == "Field" and e["e"].get("k") in ("Path", "Unary"):
        base = e["e"]
        while base.get("k") == "Unary" and base.get("op") == "Deref":
            base = base["e"]
        if base.get("k") == "Path" and base.get("id") in (env.get("a"), env.get("b")):
            who = "a" if base["id"] == env["a"] else "b"
            return ("t", who) if e.get("name") == "0" else ("other", who, e.get("name"))
        if base.get("k") == "Path" and base.get("res") == "local" and isinstance(env.get(base.get("id")), tuple) and env[base["id"]][:1] == ("elem",):
            who = env[base["id"]][1]
            return ("t", who) if e.get("name") == "0" else ("other", who, e.get("name"))
    if k == "Path":
        if e.get("res") == "local":
            if e["id"] in (env.get("a"), env.get("b")) and e["id"] is not None:
                return ("elem", "a" if e["id"] == env["a"] else "b")
            if e["id"] in env:
                return env[e["id"]]
            lets = tast.find(body, lambda z: z.get("k") == "Let" and z["pat"].get("id") == e["id"] and z.get("init") is not None)
            assigns = tast.find(body, lambda z: z.get("k") in ("Assign", "AssignOp") and z["l"].get("k") == "Path" and z["l"].get("id") == e["id"])
            if len(lets) == 1 and not assigns:
                return _eval_fin(lets[0]["init"], env, body, xid, xoldid, depth + 1)
            raise _Unknown("local %s" % e.get("name"))
        d = e.get("def") or ""
        for nm, v in (("Ordering::Less", "L"), ("Ordering::Equal", "E"), ("Ordering::Greater", "G")):
            if d.endswith(nm):
                return v
        raise _Unknown("path %s" % d)
    if k == "Binary":
        op = e["op"]
        if op in ("And", "Or"):
            l = _eval_fin(e["l"], env, body, xid, xoldid, depth + 1)
            r = _eval_fin(e["r"], env, body, xid, xoldid, depth + 1)
            return (l and r) if op == "And" else (l or r)
        if op in ("Gt", "Lt", "Ge", "Le"):
            def has(n, i):
                return tast.contains(n, lambda z: z.get("k") == "Path" and z.get("id") == i) and not tast.contains(n, lambda z: z.get("k") == "Binary")
            fwd = None
            if has(e["l"], xid) and has(e["r"], xoldid):
                fwd = op in ("Gt", "Ge")
            elif has(e["l"], xoldid) and has(e["r"], xid):
                fwd = op in ("Lt", "Le")
            if fwd is not None:
                # x != xold at this point of the handler (the initial callback returned earlier)
                return fwd == (env["dir"] == "fwd")
        if op in ("Eq", "Ne"):
            l = _eval_fin(e["l"], env, body, xid, xoldid, depth + 1)
            r = _eval_fin(e["r"], env, body, xid, xoldid, depth + 1)
            if "ANY" in (l, r):
                raise _Unknown("compare ANY")
            return (l == r) if op == "Eq" else (l != r)
        raise _Unknown("binary %s" % op)
    if k == "If":
        c = _eval_fin(e["cond"], env, body, xid, xoldid, depth + 1)
        if not isinstance(c, bool):
            raise _Unknown("cond")
        br = e["then"] if c else e.get("else")
        if br is None:
            raise _Unknown("no else")
        return _eval_fin(br, env, body, xid, xoldid, depth + 1)
    if k == "Match":
        sc = _eval_fin(e["scrut"], env, body, xid, xoldid, depth + 1)
        for arm in e["arms"]:
            pt = arm["pat"]
            d = (pt.get("def") or "")
            lit = pt.get("k") == "PLit" and pt.get("v")
            hit = (pt.get("k") == "PWild") or (pt.get("k") == "PBind") or \
                  (isinstance(sc, bool) and pt.get("k") == "PLit" and bool(lit in (True, "true")) == sc) or \
                  (sc in ("L", "E", "G") and d.endswith({"L": "Less", "E": "Equal", "G": "Greater"}[sc]))
            if hit and arm.get("guard") is None:
                return _eval_fin(arm["body"], env, body, xid, xoldid, depth + 1)
        raise _Unknown("match")
    if k == "MethodCall":
        nm = e.get("name")
        if nm in ("partial_cmp", "total_cmp", "cmp"):
            try:
                lv = _eval_fin(e["recv"], env, body, xid, xoldid, depth + 1)
                rv = _eval_fin(e["args"][0], env, body, xid, xoldid, depth + 1)
            except _Unknown:
                lv = rv = None
            if isinstance(lv, tuple) and isinstance(rv, tuple) and lv[:1] == ("t",) and rv[:1] == ("t",):
                if lv[1] == rv[1]:
                    return "E"
                return env["rel"] if lv[1] == "a" else _flip(env["rel"])
            if isinstance(lv, tuple) and isinstance(rv, tuple) and lv[:1] == ("other",) and rv[:1] == ("other",):
                return "ANY"

            def side(n):
                f = tast.find(n, lambda z: z.get("k") == "Field")
                p_ = tast.find(n, lambda z: z.get("k") == "Path" and z.get("id") in (env["a"], env["b"]))
                if len(f) >= 1 and len(p_) == 1:
                    return (f[0]["name"], "a" if p_[0]["id"] == env["a"] else "b")
                return None
            l, r = side(e["recv"]), side(e["args"][0])
            if l is None or r is None:
                raise _Unknown("comparison operands")
            if l[0] != "0" or r[0] != "0":
                return "ANY" if l[0] == r[0] else "ANY"    # ordering by another component: only legitimate as a tie-break
            if l[1] == r[1]:
                return "E"
            return env["rel"] if l[1] == "a" else _flip(env["rel"])
        if nm in ("unwrap", "expect", "unwrap_or", "unwrap_or_else", "unwrap_or_default"):
            return _eval_fin(e["recv"], env, body, xid, xoldid, depth + 1)
        if nm == "reverse" and not e["args"]:
            return _flip(_eval_fin(e["recv"], env, body, xid, xoldid, depth + 1))
        if nm in ("then", "then_with"):
            v = _eval_fin(e["recv"], env, body, xid, xoldid, depth + 1)
            return "ANY" if v == "E" else v
        if nm in ("is_lt", "is_gt", "is_eq", "is_le", "is_ge", "is_ne"):
            v = _eval_fin(e["recv"], env, body, xid, xoldid, depth + 1)
            if v == "ANY":
                raise _Unknown("ANY")
            return {"is_lt": v == "L", "is_gt": v == "G", "is_eq": v == "E", "is_le": v in ("L", "E"), "is_ge": v in ("G", "E"), "is_ne": v != "E"}[nm]
        raise _Unknown("method %s" % nm)
    raise _Unknown("node %s" % k)


def r_evt_sort(rep, hc):
    """events detected in one step are put in the order of integration before they are processed: for both directions and
    each ordering of two event times the comparator that actually runs (finite abstract evaluation of the closure and of
    the direction tests selecting it) returns the time order forward and the reversed time order backward"""
    body = hc.body["body"]
    did = hc.detected_local()
    pf = hc.process_for()
    key = "R-EVT-SORT:%s" % hc.fn
    if pf is None or did is None:
        rep.inconc("R-EVT-SORT", key, "processing loop not found")
        return
    on_list = lambda x, names: x.get("k") == "MethodCall" and x.get("name") in names and x["recv"].get("k") == "Path" and x["recv"].get("id") == did
    sorts = tast.find_with_parents(body, lambda x: on_list(x, ("sort_by", "sort_unstable_by")))
    revs = tast.find_with_parents(body, lambda x: on_list(x, ("reverse",)))
    other = tast.find(body, lambda x: on_list(x, ("sort", "sort_unstable", "sort_by_key", "sort_by_cached_key", "sort_unstable_by_key")))
    if not sorts and not other:
        rep.violation("R-EVT-SORT", key, "events detected in one step are processed without a chronological sort", sp(pf))
        return
    if other:
        rep.inconc("R-EVT-SORT", key, "the detected events are sorted with %s, which this rule does not model" % other[0].get("name"), sp(other[0]))
        return
    xid, xoldid = hc.pid[2], hc.pid[1]
    probs = []
    unknown = []

    def runs(parents, node, env):
        """does the statement execute under env['dir']? (conditions of the enclosing ifs inside the handler)"""
        for a in parents:
            if a.get("k") == "If" and (tast.contains(a["then"], lambda z: z is node) or (a.get("else") is not None and tast.contains(a["else"], lambda z: z is node))):
                if tast.contains(a["cond"], lambda z: z is node):
                    continue
                try:
                    c = _eval_fin(a["cond"], env, body, xid, xoldid)
                except _Unknown:
                    continue    # a condition unrelated to the direction (it guards the whole event block)
                if isinstance(c, bool):
                    in_then = tast.contains(a["then"], lambda z: z is node)
                    if c != in_then:
                        return False
        return True

    n_cases = 0
    for d_ in ("fwd", "bwd"):
        for rel in ("L", "G", "E"):
            res = None
            ran = 0
            for s_, parents in sorts:
                cl = s_["args"][0] if s_["args"] else {}
                if cl.get("k") != "Closure" or len(cl.get("params", [])) != 2 or any(p_.get("k") != "PBind" for p_ in cl["params"]):
                    unknown.append("comparator is not a two-argument closure")
                    continue
                env = {"dir": d_, "rel": rel, "a": cl["params"][0]["id"], "b": cl["params"][1]["id"]}
                if not runs(parents, s_, env):
                    continue
                ran += 1
                try:
                    res = _eval_fin(cl["body"], env, body, xid, xoldid)
                except _Unknown as ex:
                    unknown.append("comparator not evaluated (%s)" % ex)
                    res = None
            flips = 0
            for r_, parents in revs:
                if runs(parents, r_, {"dir": d_, "rel": rel, "a": None, "b": None}):
                    flips += 1
            if ran != 1:
                if not unknown:
                    probs.append("%d sorts run for %s integration" % (ran, "forward" if d_ == "fwd" else "backward"))
                continue
            if res is None:
                continue
            if flips % 2:
                res = _flip(res)
            want = rel if d_ == "fwd" else _flip(rel)
            n_cases += 1
            if rel != "E" and res != want:
                probs.append("%s integration: two events with t_a %s t_b are ordered %s by the comparator that runs (chronological order needs %s)"
                             % ("forward" if d_ == "fwd" else "backward", {"L": "<", "G": ">"}[rel], res, want))
    # sort precedes the processing loop (statement order in the common block)
    if not probs and not unknown:
        blk = [a for a in [ps for nd, ps in tast.find_with_parents(body, lambda z: z is pf)][0] if a.get("k") == "Block"][-1]
        stl = list(blk.get("stmts", [])) + ([blk["tail"]] if blk.get("tail") is not None else [])
        pos_for = next((i for i, st in enumerate(stl) if tast.contains(st, lambda z: z is pf)), None)
        pos_sort = [i for i, st in enumerate(stl) for s_, _ in sorts if tast.contains(st, lambda z: z is s_)]
        if pos_for is None or not pos_sort or max(pos_sort) > pos_for:
            probs.append("the sort does not precede the processing loop")
    if probs:
        rep.violation("R-EVT-SORT", key, "; ".join(sorted(set(probs))[:3]), sp(sorts[0][0]))
    elif unknown:
        rep.inconc("R-EVT-SORT", key, "; ".join(sorted(set(unknown))[:2]), sp(sorts[0][0]))
    else:
        rep.ok("R-EVT-SORT", key, "%d (direction, order) cases: events are processed in time order forward and reversed time order backward" % n_cases)


# ------------------------------------------------------------------------------------- event provenance
def r_evt_prov(rep, hc):
    sx = hc.sx
    df, pf = hc.detect_for(), hc.process_for()
    if df is None or pf is None:
        rep.inconc("R-EVT-PROV", "R-EVT-PROV:%s:anchor" % hc.fn, "detection / processing loops not found")
        return
    # (i) the tuples pushed into the detected list: (time, index, state)
    dpush = [ev for nm, ev in hc.pushes() if ev["recv"].get("k") == "Path" and ev["recv"].get("id") == hc.detected_local()]
    if len(dpush) != 1:
        rep.inconc("R-EVT-PROV", "R-EVT-PROV:%s:push" % hc.fn, "expected one push into the detected-event list")
        return
    a = dpush[0]["value"].single_atom()
    if not a or a not in DEFS or DEFS[a][0] != "tuple" or len(DEFS[a][1]) != 3:
        rep.inconc("R-EVT-PROV", "R-EVT-PROV:%s:tuple" % hc.fn, "pushed element is not a (time, index, state) tuple: %r" % (dpush[0]["value"],))
        return
    tv, iv, yv = DEFS[a][1]
    # the element's components are component-wise phis over the tuples produced by the if-chain
    # (symx.bind_pat distributes a phi of tuples), in the same order: zip them back into pairs
    def comps(v):
        a_ = v.single_atom() if isinstance(v, Poly) else None
        if a_ and a_ in DEFS and DEFS[a_][0] == "phi" and a_.startswith("phi~comp"):
            return list(DEFS[a_][1])
        return [v]
    tc, yc = comps(tv), comps(yv)
    if len(tc) != len(yc):
        if len(tc) == 1:
            tc = tc * len(yc)
        elif len(yc) == 1:
            yc = yc * len(tc)
        else:
            rep.inconc("R-EVT-PROV", "R-EVT-PROV:%s:leaves" % hc.fn, "cannot pair reported times with reported states (%d/%d)" % (len(tc), len(yc)))
            return
    pairs = [(t, y, dpush[0]["node"]) for t, y in zip(tc, yc)]
    xold, x = Poly.atom(hc.pname[1]), Poly.atom(hc.pname[2])
    for j, (t, y, nd) in enumerate(pairs):
        key = "R-EVT-PROV:%s:pair%d" % (hc.fn, j)
        inner = vec_of(y)
        ok = False
        why = ""
        if inner is not None:
            it = interp_of(inner)
            if it is not None and it == t:
                ok, why = True, "(b, interpolant(b))"
            elif inner == Poly.atom("y@0") and t == x:
                ok, why = True, "(x, y)"
            elif inner.single_atom() and inner.single_atom().startswith("self.yold") and t == xold:
                ok, why = True, "(xold, saved previous state)"
        if ok:
            rep.ok("R-EVT-PROV", key, why)
        else:
            rep.violation("R-EVT-PROV", key, "an event is reported at time %r with state %r, which is not the state at that time" % (t, y), sp(nd))
    # (ii) the processing loop records components 0 and 2 of the same element under index component 1
    pats = pf["pat"].get("pats") or []
    key = "R-EVT-PROV:%s:record" % hc.fn
    if len(pats) != 3:
        rep.inconc("R-EVT-PROV", key, "processing loop does not destructure (time, index, state)")
        return
    tid, iid, yid = [p.get("id") for p in pats]
    probs = []
    for fld, want in (("t_events", tid), ("y_events", yid)):
        ps = tast.find(pf["body"], lambda z: z.get("k") == "MethodCall" and z.get("name") == "push" and z["recv"].get("k") == "Index" and hc.field_is(z["recv"]["e"], fld))
        if len(ps) != 1:
            probs.append("%s is pushed %d times per event" % (fld, len(ps)))
            continue
        p = ps[0]
        if not (p["recv"]["i"].get("k") == "Path" and p["recv"]["i"].get("id") == iid):
            probs.append("%s is indexed by %s, not the event's own index" % (fld, tast.render(p["recv"]["i"])))
        if not tast.contains(p["args"][0], lambda z: z.get("k") == "Path" and z.get("id") == want) or tast.contains(p["args"][0], lambda z: z.get("k") == "Binary"):
            probs.append("%s receives %s" % (fld, tast.render(p["args"][0])))
    if probs:
        rep.violation("R-EVT-PROV", key, "; ".join(probs), sp(pf))
    else:
        rep.ok("R-EVT-PROV", key, "t_events[i] <- event_t, y_events[i] <- event_y of the same detected element")


# ------------------------------------------------------------------------------------- R-PREV-UPDATE, R-EVT-LOOP, R-EVT-ONE
class PrevMon(mon.Monitor):
    """(events_evaluated, prev_event_updated, yold_updated)"""
    init = ((False, False, False),)

    def __init__(self, hc):
        super().__init__()
        self.hc = hc

    def step(self, st, ev):
        kind, n = ev[0], ev[1]
        e, p, y = st
        hc = self.hc
        if kind == "node":
            k = n.get("k")
            if k == "MethodCall" and n.get("def") == EVENTS and tast.contains(n["args"][2], lambda z: hc.field_is(z, "g_curr_buf")):
                return ((True, False, y),)
            if k == "MethodCall" and n.get("name") in ("copy_from_slice", "clone_from_slice") and hc.field_is(n["recv"], "prev_event") \
                    and tast.contains(n["args"][0], lambda z: hc.field_is(z, "g_curr_buf")):
                return ((e, True, y),)
            if k == "MethodCall" and n.get("name") in ("copy_from_slice", "clone_from_slice") and hc.field_is(n["recv"], "yold") \
                    and tast.contains(n["args"][0], lambda z: z.get("k") == "Path" and z.get("id") == hc.pid[3]):
                return ((e, p, True),)
            if k == "Assign" and hc.field_is(n["l"], "yold") and tast.contains(n["r"], lambda z: z.get("k") == "Path" and z.get("id") == hc.pid[3]):
                return ((e, p, True),)
        if kind in ("return", "fn_end"):
            fl = None
            if kind == "return":
                fl = ((n.get("e") or {}).get("def") or "")
            if e and not p:
                self.violate("R-PREV-UPDATE:%s:prev_event:%s" % (hc.fn, "return" if kind == "return" else "end"),
                             "a path leaves the callback after evaluating the event functions without storing them as the previous values", n, self.cur_trail)
            if fl != FLAG + "Interrupt" and not y:
                self.violate("R-PREV-UPDATE:%s:yold:%s" % (hc.fn, "return" if kind == "return" else "end"),
                             "a non-terminal path leaves the callback without refreshing the saved previous state", n, self.cur_trail)
        return (st,)


class MarkMon(mon.Monitor):
    """state: the marker field has been written on this path"""
    init = (False,)

    def __init__(self, hc, fname):
        super().__init__()
        self.hc, self.fname = hc, fname

    def step(self, st, ev):
        kind, n = ev[0], ev[1]
        hc = self.hc
        if kind == "node":
            k = n.get("k")
            if k in ("Assign", "AssignOp") and tast.contains(n["l"], lambda z: hc.field_is(z, self.fname)):
                return (True,)
            if k == "MethodCall" and n.get("name") in ("push", "extend", "extend_from_slice", "copy_from_slice", "clone_from_slice", "resize", "insert", "fill") \
                    and tast.contains(n["recv"], lambda z: hc.field_is(z, self.fname)):
                return (True,)
        if kind in ("return", "fn_end"):
            fl = ((n.get("e") or {}).get("def") or "") if kind == "return" else None
            if fl != FLAG + "Interrupt" and not st:
                self.violate("unmarked", "a path leaves the callback without writing `%s`" % self.fname, n, self.cur_trail)
        return (st,)


def stores_prev(hc, z, depth=0):
    """z copies into prev_event: directly, or by calling a private method of the handler that does"""
    if z.get("k") == "MethodCall" and z.get("name") in ("copy_from_slice", "clone_from_slice", "clone_from") and hc.field_is(z["recv"], "prev_event"):
        return True
    if z.get("k") in ("MethodCall", "Call") and depth < 2:
        d = z.get("def") or ""
        b = hc.f.bodies.get(d)
        if b is not None and "DefaultSolOut" in d and d != hc.body.get("def"):
            return tast.contains(b["body"], lambda q: stores_prev(hc, q, depth + 1))
    return False


def r_evt_init_mark(rep, hc):
    """the test that turns off crossing detection ("this is the initial callback, only remember the event values") must be
    false on every later callback: it may compare xold with x, or test a field of the handler for emptiness / a flag that
    EVERY non-terminal path through the callback writes. A field that is only written when something is reported (the
    output times) stays empty while t_eval has not been reached, and sign changes before the first requested time are lost."""
    key = "R-EVT-INIT:%s" % hc.fn
    df = hc.detect_for()
    if df is None:
        rep.inconc("R-EVT-INIT", key, "detection loop not found")
        return
    guard = None
    for i_, parents in tast.find_with_parents(hc.body["body"], lambda z: z.get("k") == "If" and z.get("else") is not None):
        in_else = tast.contains(i_["else"], lambda z: z is df)
        in_then = tast.contains(i_["then"], lambda z: z is df)
        if not (in_else or in_then):
            continue
        other = i_["then"] if in_else else i_["else"]
        # the other branch only stores the current event values
        if tast.contains(other, lambda z: stores_prev(hc, z)) \
                and not tast.contains(other, lambda z: z.get("k") == "For"):
            guard = (i_, in_else)
    if guard is None:
        rep.inconc("R-EVT-INIT", key, "the test separating the initial callback from detection was not found")
        return
    i_, detect_in_else = guard
    c = i_["cond"]
    fields = []
    for q in tast.find(c, lambda z: z.get("k") == "Field" and z["e"].get("k") in ("Path", "Unary") and (z.get("fdef") or "").startswith("solve::solout::DefaultSolOut::")):
        fields.append(q["name"])
    uses_x = tast.contains(c, lambda z: z.get("k") == "Path" and z.get("id") == hc.pid[2]) and tast.contains(c, lambda z: z.get("k") == "Path" and z.get("id") == hc.pid[1])
    if uses_x and not fields:
        rep.ok("R-EVT-INIT", key, "detection is skipped exactly under a comparison of xold with x (`%s`)" % tast.render(c)[:60])
        return
    if not fields:
        rep.inconc("R-EVT-INIT", key, "the initial-callback test `%s` refers to no handler field and not to xold / x" % tast.render(c)[:80], sp(i_))
        return
    bad = []
    for fn_ in sorted(set(fields)):
        m = MarkMon(hc, fn_)
        mon.Runner(m).run_fn(hc.body)
        if m.violations:
            bad.append((fn_, m.violations[0]))
    if bad:
        fn_, v = bad[0]
        rep.violation("R-EVT-INIT", key, "crossing detection is switched off while `%s` holds, but `%s` is not written on every non-terminal path through the callback (%s): "
                      "on later callbacks the test can still be true and sign changes in those steps are never examined" % (tast.render(c)[:60], fn_, v[1]), sp(i_))
    else:
        rep.ok("R-EVT-INIT", key, "detection is skipped only under `%s`, whose field(s) %s are written on every non-terminal path of every callback" % (tast.render(c)[:60], sorted(set(fields))))


def r_prev_update(rep, hc):
    m = PrevMon(hc)
    mon.Runner(m).run_fn(hc.body)
    for key, msg, node, trail in m.violations:
        rep.violation("R-PREV-UPDATE", key, msg, sp(node))
    if not m.violations:
        rep.ok("R-PREV-UPDATE", "R-PREV-UPDATE:%s" % hc.fn, "prev_event <- g_curr on every path after evaluation; yold refreshed on every non-terminal path")


class OneMon(mon.Monitor):
    """(in crossed branch, pushes in this iteration)"""
    init = ((False, 0),)

    def __init__(self, hc, df, cif, did):
        super().__init__()
        self.hc, self.df, self.cif, self.did = hc, df, cif, did

    def step(self, st, ev):
        kind, n = ev[0], ev[1]
        c, k = st
        if kind == "for_head" and n is self.df:
            return ((False, 0),)
        if kind == "then" and n is self.cif:
            return ((True, k),)
        if kind == "node" and n.get("k") == "MethodCall" and n.get("name") == "push" and n["recv"].get("k") == "Path" and n["recv"].get("id") == self.did:
            return ((c, min(2, k + 1)),)
        if kind == "node" and n is self.cif:
            want = 1 if c else 0
            if k != want:
                self.violate("R-EVT-ONE:%s:%s:%d" % (self.hc.fn, "crossed" if c else "not-crossed", k),
                             "a %s sign change leads to %d record(s) for this event function in this step" % ("detected" if c else "non-detected", k), n, self.cur_trail)
        return (st,)


def r_evt_loop_one(rep, hc):
    df = hc.detect_for()
    did = hc.detected_local()
    if df is None:
        rep.inconc("R-EVT-LOOP", "R-EVT-LOOP:%s:anchor" % hc.fn, "detection loop not found")
        return
    key = "R-EVT-LOOP:%s" % hc.fn
    probs = []
    rng = df["iter"]
    okr = False
    if rng.get("k") == "Struct" and rng.get("def") == "std::ops::Range":
        fl = {x["name"]: x["e"] for x in rng["fields"]}
        st, en = fl.get("start"), fl.get("end")
        if st.get("k") == "Lit" and str(st.get("v")) == "0" and en.get("k") == "Path":
            lets = tast.find(hc.body["body"], lambda z: z.get("k") == "Let" and z["pat"].get("id") == en.get("id"))
            if lets and tast.contains(lets[0].get("init") or {}, lambda z: z.get("k") == "MethodCall" and z.get("def") == "ivp::IVP::n_events"):
                okr = True
    if not okr:
        probs.append("detection loop does not range over 0..n_events()")
    skips = tast.find(df["body"], lambda z: z.get("k") in ("Break", "Continue") and z.get("target") == df["id"])
    if skips:
        probs.append("break/continue in the detection loop can skip event functions")
    if tast.find(df["body"], lambda z: z.get("k") == "Return"):
        probs.append("return inside the detection loop")
    if probs:
        rep.violation("R-EVT-LOOP", key, "; ".join(probs), sp(df))
    else:
        rep.ok("R-EVT-LOOP", key, "every event function 0..n_events is examined on every non-initial callback")
    # the crossed-if
    cifs = [i_ for i_, _c in sign_tests(hc.f, hc.body, df["body"])]
    if len(cifs) != 1:
        rep.inconc("R-EVT-ONE", "R-EVT-ONE:%s:anchor" % hc.fn, "expected one `if crossed(..)` in the detection loop, found %d" % len(cifs))
        return
    cif = cifs[0]
    r_evt_args(rep, hc, cif)
    m = OneMon(hc, df, cif, did)
    mon.Runner(m).run_fn(hc.body)
    for key2, msg, node, trail in m.violations:
        rep.violation("R-EVT-ONE", key2, msg, sp(node))
    if not m.violations:
        rep.ok("R-EVT-ONE", "R-EVT-ONE:%s" % hc.fn, "exactly one record per detected crossing, none otherwise, on every path through the root finder")


def r_evt_args(rep, hc, cif=None):
    """the sign-change test is applied to (previous value, current value) of the SAME event function in the order of
    integration - symbolic values of the call's arguments: arg0 is the stored prev_event element, arg1 the freshly evaluated
    event value at (x, y), arg2 the event's own direction. A swap that depends on the direction of integration shows up as a
    join (phi) of the two values and is rejected: the direction filter is defined in the order of integration."""
    key = "R-EVT-ONE:%s:args" % hc.fn
    conds = [id(i_["cond"]) for i_, _c in sign_tests(hc.f, hc.body, hc.body["body"])] if cif is None else [id(cif["cond"])]
    evs = [ev for ev in hc.sx.trace if ev["kind"] in ("call", "inline") and id(ev["node"]) in conds]
    if len(evs) != 1 or len(evs[0].get("args", [])) != 3:
        rep.inconc("R-EVT-ONE", key, "call of the sign-change test not found in the symbolic trace (%d)" % len(evs))
        return
    roles = getattr(hc, "sign_roles", None)
    if roles is None:
        # argument roles by the helper's parameter types (and its own earlier/later convention when the table was evaluated)
        cal = [c_ for _i, c_ in sign_tests(hc.f, hc.body, hc.body["body"])]
        ps_ = cal[0]["params"] if cal else []
        di_ = [i for i, p_ in enumerate(ps_) if "Direction" in (p_.get("ty") or "")]
        fl_ = [i for i, p_ in enumerate(ps_) if "Direction" not in (p_.get("ty") or "")]
        roles = (fl_[0], fl_[1], di_[0]) if len(di_) == 1 and len(fl_) == 2 else (0, 1, 2)
    args_ = evs[0]["args"]
    a0, a1, a2 = args_[roles[0]], args_[roles[1]], args_[roles[2]]
    probs = []

    def is_prev(v):
        at = v.single_atom() if isinstance(v, Poly) else None
        return bool(at) and at.split("@")[0].endswith("prev_event")

    def is_cur(v):
        at = v.single_atom() if isinstance(v, Poly) else None
        d = DEFS.get(at) if at else None
        if not d or d[0] != "events":
            return False
        t = d[1][0]
        return isinstance(t, Poly) and t == Poly.atom(hc.pname[2])   # evaluated at the step end x
    if not is_prev(a0):
        probs.append("the first value is %r, not the stored previous value prev_event[i]" % (a0,))
    if not is_cur(a1):
        probs.append("the second value is %r, not the event function evaluated at the step end (x, y)" % (a1,))
    if "direction" not in repr(a2):
        probs.append("direction argument is not the event's configured direction")
    if probs:
        rep.violation("R-EVT-ONE", key, "; ".join(probs)[:500], sp(evs[0]["node"]))
    else:
        rep.ok("R-EVT-ONE", key, "crossed(prev_event[i], g(x, y)[i], direction_i): values in the order of integration")


def r_evt_eval_pair(rep, hc):
    """every evaluation of the user's event functions inside the handler is made at a consistent (time, state) pair: the
    step end (x, y), or (t, interpolant(t)) for the SAME t - a root finder that evaluates g(t', y(t)) with t' != t solves a
    different equation whenever g depends on time."""
    key = "R-EVT-PAIR:%s" % hc.fn
    calls = [ev for ev in hc.sx.trace if ev["kind"] == "events"]
    if not calls:
        rep.inconc("R-EVT-PAIR", key, "no evaluation of the event functions found in the symbolic trace")
        return
    xat, xoldat = Poly.atom(hc.pname[2]), Poly.atom(hc.pname[1])
    bad = []
    n_interp = 0
    for ev in calls:
        t, yp = ev["t"], ev.get("yp")
        a = yp.single_atom() if isinstance(yp, Poly) else None
        d = DEFS.get(a) if a else None
        inner = d[1][0] if d and d[0] == "vec" and d[1] and isinstance(d[1][0], Poly) else None
        ia = inner.single_atom() if inner is not None else None
        di = DEFS.get(ia) if ia else None
        if di and di[0] == "interp":
            n_interp += 1
            if di[1][0] != t:
                bad.append((ev, "the event functions are evaluated at time %r with the interpolated state of time %r" % (t, di[1][0])))
        elif isinstance(ev["y"], Buf) and ev["y"].name == hc.pname[3] or (a or "").startswith(("buf:" + hc.pname[3], "vec[" + hc.pname[3] + "@")):
            if t != xat:
                bad.append((ev, "the event functions are evaluated at time %r with the step-end state y(x)" % (t,)))
        elif a and "yold" in a:
            if t != xoldat:
                bad.append((ev, "the event functions are evaluated at time %r with the previous state y(xold)" % (t,)))
        else:
            bad.append((ev, None))
    firm = [(ev, m) for ev, m in bad if m]
    if firm:
        ev, m = firm[0]
        rep.violation("R-EVT-PAIR", key, m, sp(ev["node"]))
    elif bad:
        rep.inconc("R-EVT-PAIR", key, "state argument %r of an event evaluation not understood" % (bad[0][0].get("yp"),), sp(bad[0][0]["node"]))
    elif n_interp < 1:
        rep.inconc("R-EVT-PAIR", key, "no event evaluation on an interpolated state found (root refinement not recognised)")
    else:
        rep.ok("R-EVT-PAIR", key, "%d evaluation(s) of the event functions, each at a consistent (time, state) pair (%d on interpolated states)" % (len(calls), n_interp))


def time_types(hc):
    """(env, ty): a small type system over the handler's f64 expressions - P time point, D difference / tolerance, S scalar"""
    body = hc.body["body"]
    P, D, S = "P", "D", "S"
    env = {hc.pid[1]: P, hc.pid[2]: P}
    is_teval = lambda q: q.get("k") == "Index" and tast.contains(q["e"], lambda w: w.get("k") == "Path" and "t_eval" in (w.get("name") or "")) or \
        (q.get("k") == "Index" and tast.contains(q["e"], lambda w: hc.field_is(w, "t_eval")))

    def ty(e, depth=0):
        if e is None or depth > 30:
            return S
        k = e.get("k")
        if is_teval(e):
            return P
        if k == "Path" and e.get("res") == "local":
            return env.get(e["id"], S)
        if k in ("Cast", "AddrOf", "DropTemps") or (k == "Unary" and e.get("op") in ("Deref", "Neg")):
            return ty(e["e"], depth + 1)
        if k == "Binary":
            l, r = ty(e["l"], depth + 1), ty(e["r"], depth + 1)
            op = e["op"]
            if op == "Add":
                return P if P in (l, r) and (l, r) != (P, P) else (D if D in (l, r) else S)
            if op == "Sub":
                if (l, r) == (P, P):
                    return D
                return P if l == P else (D if D in (l, r) else S)
            if op in ("Mul", "Div"):
                return D if D in (l, r) or P in (l, r) else S
            return S
        if k == "MethodCall" and e.get("name") in ("abs", "min", "max", "clamp", "copysign"):
            ts = [ty(e["recv"], depth + 1)] + [ty(a_, depth + 1) for a_ in e["args"]]
            return P if P in ts else (D if D in ts else S)
        if k == "If":
            ts = [ty(e["then"], depth + 1), ty(e.get("else"), depth + 1)]
            return P if P in ts else (D if D in ts else S)
        if k == "Block":
            return ty(e.get("tail") if e.get("tail") is not None else e.get("expr"), depth + 1)
        if k == "Tuple":
            return S
        return S
    # elements met while iterating over the requested times are time points: loop patterns and the parameters of closures
    # handed to iterator adaptors (`t_eval.iter().skip(k).take_while(|&&t| ..)`, also through a local holding the iterator)
    def over_teval(e, depth=0):
        if e is None or depth > 6:
            return False
        if tast.contains(e, lambda w: (w.get("k") == "Path" and "t_eval" in (w.get("name") or "")) or hc.field_is(w, "t_eval")):
            return True
        for q in tast.find(e, lambda w: w.get("k") == "Path" and w.get("res") == "local" and "iter" in (w.get("ty") or "").lower()):
            for l_ in tast.find(body, lambda z: z.get("k") == "Let" and z["pat"].get("k") == "PBind" and z["pat"].get("id") == q.get("id") and z.get("init") is not None):
                if over_teval(l_["init"], depth + 1):
                    return True
        return False
    for lp in tast.find(body, lambda z: z.get("k") == "For"):
        if over_teval(lp["iter"]):
            for q in tast.find(lp["pat"], lambda q: q.get("k") == "PBind" and (q.get("ty") or "").lstrip("&") == "f64"):
                env[q["id"]] = P
    for mc in tast.find(body, lambda z: z.get("k") == "MethodCall" and z.get("name") in ("take_while", "skip_while", "filter", "find", "position", "any", "all", "map", "for_each") and z["args"] and z["args"][0].get("k") == "Closure"):
        if over_teval(mc["recv"]):
            for p_ in mc["args"][0].get("params") or []:
                for q in tast.find(p_, lambda q: q.get("k") == "PBind" and (q.get("ty") or "").lstrip("&") == "f64"):
                    env[q["id"]] = P
    lets = tast.find(body, lambda z: z.get("k") == "Let" and z["pat"].get("k") == "PBind" and z.get("init") is not None and (z["pat"].get("ty") or "") == "f64")
    asgs = tast.find(body, lambda z: z.get("k") in ("Assign", "AssignOp") and z["l"].get("k") == "Path" and (z["l"].get("ty") or "") == "f64")
    rank = {S: 0, D: 1, P: 2}
    # closures bound to a local: their f64 parameters take the type of the arguments they are called with
    clos = {}
    for l in tast.find(body, lambda z: z.get("k") == "Let" and z["pat"].get("k") == "PBind" and (z.get("init") or {}).get("k") == "Closure"):
        clos[l["pat"]["id"]] = l["init"]
    ccalls = [c_ for c_ in tast.find(body, lambda z: z.get("k") == "Call" and (z.get("f") or {}).get("k") == "Path" and (z.get("f") or {}).get("res") == "local" and z["f"].get("id") in clos)]
    for _ in range(6):
        changed = False
        for c_ in ccalls:
            ps = clos[c_["f"]["id"]].get("params") or []
            for p_, a_ in zip(ps, c_["args"]):
                if p_.get("k") == "PBind" and (p_.get("ty") or "") == "f64":
                    t = ty(a_)
                    if rank[t] > rank[env.get(p_["id"], S)]:
                        env[p_["id"]] = t
                        changed = True
        for l in lets:
            t = ty(l["init"])
            if rank[t] > rank[env.get(l["pat"]["id"], S)]:
                env[l["pat"]["id"]] = t
                changed = True
        for a_ in asgs:
            t = ty(a_["r"]) if a_["k"] == "Assign" else ty({"k": "Binary", "op": a_["op"].replace("Assign", ""), "l": a_["l"], "r": a_["r"]})
            if rank[t] > rank[env.get(a_["l"]["id"], S)]:
                env[a_["l"]["id"]] = t
                changed = True
        if not changed:
            break
    # a local whose initialiser is a plain scalar (a copy of the tolerance field, a literal) has an established role too
    for l in lets:
        if l["pat"]["id"] not in env and not tast.contains(l["init"], lambda z: z.get("k") in ("Call", "MethodCall") and z.get("name") not in ("abs", "min", "max", "clamp", "copysign")):
            env[l["pat"]["id"]] = ty(l["init"])
    return env, ty


# ------------------------------------------------------------------------------------- R-DIR-MIRROR
def r_dir_mirror(rep, hc):
    """every test that the handler makes differently for forward and backward integration - `if forward { A } else { B }`
    with A, B comparisons of time points - is symmetric under time reflection: B is A with every time point negated
    (tolerances keep their sign), e.g.  t >= xold - tol  <->  t <= xold + tol,   t < t_event  <->  t > t_event."""
    body = hc.body["body"]
    xid, xoldid = hc.pid[2], hc.pid[1]

    def linear(e, sign, out):
        """e as a signed sum of rendered leaf terms"""
        k = e.get("k")
        if k in ("Cast", "AddrOf", "DropTemps") or (k == "Unary" and e.get("op") == "Deref"):
            return linear(e["e"], sign, out)
        if k == "Unary" and e.get("op") == "Neg":
            return linear(e["e"], -sign, out)
        if k == "Binary" and e["op"] in ("Add", "Sub"):
            linear(e["l"], sign, out)
            linear(e["r"], sign if e["op"] == "Add" else -sign, out)
            return
        t = tast.render(e)
        out[t] = out.get(t, 0) + sign

    env_t, ty_t = time_types(hc)
    # loop-bound times (event times of the processing loop) are points as well
    for lp in tast.find(body, lambda z: z.get("k") == "For"):
        for q in tast.find(lp["pat"], lambda q: q.get("k") == "PBind" and (q.get("ty") or "") == "f64"):
            env_t.setdefault(q["id"], "P")

    def is_point(txt, node_map):
        n_ = node_map.get(txt)
        return n_ is not None and ty_t(n_) == "P"

    def canon(c):
        if c.get("k") != "Binary" or c["op"] not in ("Lt", "Le", "Gt", "Ge"):
            return None
        terms, nodes = {}, {}

        def collect(e):
            k = e.get("k")
            if k in ("Cast", "AddrOf", "DropTemps") or (k == "Unary" and e.get("op") in ("Deref", "Neg")):
                return collect(e["e"])
            if k == "Binary" and e["op"] in ("Add", "Sub"):
                collect(e["l"])
                collect(e["r"])
                return
            nodes[tast.render(e)] = e
        collect(c["l"])
        collect(c["r"])
        # a term whose role (time point / tolerance) the type system could not establish makes the comparison ambiguous
        for n_ in nodes.values():
            if n_.get("k") == "Path" and n_.get("res") == "local" and (n_.get("ty") or "") == "f64" and n_["id"] not in env_t:
                return None
        linear(c["l"], 1, terms)
        linear(c["r"], -1, terms)
        terms = {t_: v for t_, v in terms.items() if v != 0}
        return c["op"], terms, nodes

    def normal(op, terms, nodes):
        pts = sorted(t_ for t_ in terms if is_point(t_, nodes))
        if not pts:
            return None
        if terms[pts[0]] < 0:
            terms = {t_: -v for t_, v in terms.items()}
            op = {"Lt": "Gt", "Gt": "Lt", "Le": "Ge", "Ge": "Le"}[op]
        return op, tuple(sorted(terms.items()))
    n = 0
    bad = []
    for i_ in tast.find(body, lambda z: z.get("k") == "If" and z.get("else") is not None and ((z.get("ty") or "") == "bool" or (z.get("ty") or "").replace(" ", "") in ("(bool,bool)", "(bool,bool,bool)"))):
        try:
            d_ = _eval_fin(i_["cond"], {"dir": "fwd", "rel": "E", "a": None, "b": None}, body, xid, xoldid)
        except _Unknown:
            continue
        if not isinstance(d_, bool):
            continue
        def tail(bk):
            while bk is not None and bk.get("k") == "Block" and not bk.get("stmts"):
                bk = bk.get("tail") if bk.get("tail") is not None else bk.get("expr")
            return bk
        A, B = tail(i_["then"]), tail(i_["else"])
        pairs = [(A, B)]
        if A is not None and B is not None and A.get("k") == "Tuple" and B.get("k") == "Tuple" and len(A["elems"]) == len(B["elems"]):
            pairs = list(zip(A["elems"], B["elems"]))
        for A_, B_ in pairs:
            ca, cb = canon(A_) if A_ else None, canon(B_) if B_ else None
            if not ca or not cb:
                continue
            # reflect A: time points change sign
            op, terms, nodes = ca
            refl = {t_: (-v if is_point(t_, nodes) else v) for t_, v in terms.items()}
            na, nb = normal(op, refl, nodes), normal(cb[0], cb[1], cb[2])
            if na is None or nb is None:
                continue
            n += 1
            if na != nb:
                bad.append((i_, A_, B_))
    key = "R-DIR-MIRROR:%s" % hc.fn
    if bad:
        i_, A, B = bad[0]
        rep.violation("R-DIR-MIRROR", key, "the backward variant `%s` is not the time reflection of the forward variant `%s`: the test selects different requested times / events for the two directions of integration"
                      % (tast.render(B)[:70], tast.render(A)[:70]), i_.get("sp"))
    elif n < 2:
        rep.inconc("R-DIR-MIRROR", key, "only %d direction-dependent comparison pair(s) found (expected >= 2)" % n)
    else:
        rep.ok("R-DIR-MIRROR", key, "%d forward/backward comparison pairs are mirror images under time reflection" % n)


def r_time_order(rep, hc):
    """an ordering test between two time points (t1 - t2 compared with a tolerance, not under abs) means opposite things for
    the two directions of integration: it must be made under a known direction. Decided on the two direction-forced runs of
    the handler: a comparison of a time difference that is evaluated in the SAME form in the forward and in the backward run
    is direction-blind."""
    import re
    xoldn, xn = hc.pname[1], hc.pname[2]

    def is_time(a):
        return a in (xoldn, xn) or "t_eval" in a or re.search(r"place:[\d.]+\.t\]", a) is not None

    def collect(sx):
        out = {}

        def walk(cv, node):
            a = cv.single_atom() if isinstance(cv, Poly) else None
            d = DEFS.get(a) if a else None
            if not d:
                return
            if d[0] in ("and", "or", "not", "maporr"):
                for x_ in d[1]:
                    if isinstance(x_, Poly):
                        walk(x_, node)
                return
            if d[0] not in ("lt", "le", "gt", "ge") or len(d[1]) != 2 or not all(isinstance(q, Poly) for q in d[1]):
                return
            p_ = d[1][0] - d[1][1]
            lin = [(m[0][0], c) for m, c in p_.t.items() if len(m) == 1 and m[0][1] == 1]
            if len(lin) != len(p_.t) - (1 if () in p_.t else 0):
                return            # products / powers: not a plain difference
            pts = [(a_, c) for a_, c in lin if not a_.startswith(("self.", "const:"))]
            if len(pts) != 2 or pts[0][1] + pts[1][1] != 0 or abs(pts[0][1]) != 1:
                return
            if not any(is_time(a_) for a_, _ in pts):
                return
            if not [a_ for a_, c in lin if a_.startswith("self.")] and () not in p_.t:
                return            # x vs xold with no slack: the direction test itself
            out[re.sub(r"#\d+", "", a)] = node
        for ev in sx.trace:
            if ev["kind"] == "if" and ev.get("cond") is not None:
                walk(ev["cond"], ev["node"])
            elif ev["kind"] == "map_or":
                walk(ev["value"], ev["node"])
        return out
    key = "R-TIME-ORDER:%s" % hc.fn
    cf, cb = collect(hc.dir_run("fwd")), collect(hc.dir_run("bwd"))
    both = sorted(set(cf) & set(cb))
    if both:
        rep.violation("R-TIME-ORDER", key, "the ordering test `%s` between two time points is evaluated in the same form when integrating forward and backward: "
                      "it holds for one direction and fails for the other" % both[0][:160], sp(cf[both[0]]))
    elif len(cf) + len(cb) < 4:
        rep.inconc("R-TIME-ORDER", key, "only %d direction-dependent time comparisons found" % (len(cf) + len(cb)))
    else:
        rep.ok("R-TIME-ORDER", key, "%d forward / %d backward ordering tests between time points, none shared by both directions" % (len(cf), len(cb)))


# ------------------------------------------------------------------------------------- R-TIME-MINMAX
def r_time_minmax(rep, hc):
    """time POINTS (x, xold, requested times, bracket ends, event times) are never ordered with a bare min / max / clamp:
    which of two points is "smaller" depends on the direction of integration, so `t.max(xold).min(x)` is the identity going
    forward and the constant x going backward. A small type system separates points from differences (P - P = D,
    P + D = P, s*D = D); min/max/clamp with point operands is accepted only as the sorted pair (min and max of the same two
    operands both taken) or under a test of the direction."""
    body = hc.body["body"]
    P, D, S = "P", "D", "S"
    env, ty = time_types(hc)
    n_pts = len([1 for v in env.values() if v == P])
    calls = tast.find_with_parents(body, lambda z: z.get("k") == "MethodCall" and z.get("name") in ("min", "max", "clamp") and (z["recv"].get("ty") or "").lstrip("&") == "f64")
    bad = []
    n = 0
    for c, parents in calls:
        ops = [c["recv"]] + list(c["args"])
        if [ty(o) for o in ops].count(P) < 2:
            continue
        n += 1
        # sorted pair: the sibling min/max of the same two operands exists
        if c["name"] in ("min", "max") and len(ops) == 2:
            want = "max" if c["name"] == "min" else "min"
            sig = sorted(tast.render(o) for o in ops)
            if any(c2.get("name") == want and sorted([tast.render(c2["recv"])] + [tast.render(a_) for a_ in c2["args"]]) == sig for c2, _ in calls):
                continue
        # under a test of the direction (a comparison of x with xold, or a local bound to one)
        guarded = False
        for a_ in parents:
            if a_.get("k") == "If":
                try:
                    _eval_fin(a_["cond"], {"dir": "fwd", "rel": "E", "a": None, "b": None}, body, hc.pid[2], hc.pid[1])
                    guarded = True
                except _Unknown:
                    pass
        if guarded:
            continue
        bad.append(c)
    key = "R-TIME-MINMAX:%s" % hc.fn
    if bad:
        rep.violation("R-TIME-MINMAX", key, "`%s` orders time points with %s: going backward (x < xold) the result is a different end of the step than going forward - "
                      "an event time / sample time computed from it is wrong for one direction of integration" % (tast.render(bad[0])[:90], bad[0]["name"]), bad[0].get("sp"))
    elif n_pts < 4:
        rep.inconc("R-TIME-MINMAX", key, "only %d time-point locals identified in the handler" % n_pts)
    else:
        rep.ok("R-TIME-MINMAX", key, "%d time-point locals; %d min/max of two time points, all sorted pairs or under a direction test" % (n_pts, n))


# ------------------------------------------------------------------------------------- FIN: crossed truth table
NAN = float("nan")
REPS = {"neg": -1.0, "zero": 0.0, "negzero": -0.0, "pos": 1.0, "nan": NAN}


class FinEval:
    """Concrete evaluation of a pure, comparison-only function over class representatives."""

    def __init__(self, body):
        self.body = body

    def comparison_only(self, param_ids):
        """every use of a float parameter is an operand of a comparison whose other side is the literal 0.0"""
        probs = []
        for node, parents in tast.find_with_parents(self.body["body"], lambda z: z.get("k") == "Path" and z.get("id") in param_ids):
            # products and negations of the arguments are sign-determined too: climb through them to the comparison
            ps = list(parents)
            while ps and ((ps[-1].get("k") == "Binary" and ps[-1]["op"] == "Mul") or (ps[-1].get("k") == "Unary" and ps[-1].get("op") in ("Neg", "Deref")) or ps[-1].get("k") in ("Paren", "DropTemps")):
                node = ps.pop()
            par = ps[-1] if ps else {}
            if par.get("k") == "Let" and par.get("init") is node and par["pat"].get("k") == "PBind":
                # a named product: every use of the name must itself be a comparison with 0.0
                uses = self.comparison_only({par["pat"]["id"]})
                probs.extend(uses)
                continue
            if par.get("k") == "Binary" and par["op"] in ("Lt", "Le", "Gt", "Ge", "Eq", "Ne"):
                other = par["r"] if par["l"] is node else par["l"]
                if other.get("k") == "Lit" and float(other["v"]) == 0.0:
                    continue
                if other.get("k") == "Unary" and other["op"] == "Neg" and other["e"].get("k") == "Lit" and float(other["e"]["v"]) == 0.0:
                    continue
            probs.append(tast.render(par))
        return probs

    def ev(self, e, env):
        k = e["k"]
        if k == "Block":
            for s in e["stmts"]:
                if s["k"] == "ExprStmt":
                    self.ev(s["e"], env)
                elif s["k"] == "Let":
                    env[s["pat"]["id"]] = self.ev(s["init"], env)
            return self.ev(e["tail"], env) if e.get("tail") is not None else None
        if k == "Lit":
            if e["lk"] == "Bool":
                return bool(e["v"])
            return float(e["v"].replace("_", ""))
        if k == "Path":
            if e.get("res") == "local":
                return env[e["id"]]
            return ("def", e.get("def"))
        if k == "Unary":
            v = self.ev(e["e"], env)
            if e["op"] == "Neg":
                return -v
            if e["op"] == "Not":
                return not v
            if e["op"] == "Deref":
                return v
        if k == "Binary":
            op = e["op"]
            if op == "And":
                return bool(self.ev(e["l"], env)) and bool(self.ev(e["r"], env))
            if op == "Or":
                return bool(self.ev(e["l"], env)) or bool(self.ev(e["r"], env))
            l, r = self.ev(e["l"], env), self.ev(e["r"], env)
            if op == "Mul":
                return l * r
            return {"Lt": l < r, "Le": l <= r, "Gt": l > r, "Ge": l >= r, "Eq": l == r, "Ne": l != r}[op]
        if k == "If":
            if self.ev(e["cond"], env):
                return self.ev(e["then"], env)
            return self.ev(e["else"], env) if e.get("else") is not None else None
        if k == "Match":
            s = self.ev(e["scrut"], env)
            for a in e["arms"]:
                p = a["pat"]
                if p["k"] == "PWild":
                    return self.ev(a["body"], env)
                d = p.get("def") or p.get("ctor_of")
                if isinstance(s, tuple) and s[0] == "def" and d == s[1]:
                    return self.ev(a["body"], env)
                if p["k"] == "PRef" or p["k"] == "PDeref":
                    d2 = p["pat"].get("def")
                    if isinstance(s, tuple) and d2 == s[1]:
                        return self.ev(a["body"], env)
            raise ValueError("no arm matched")
        if k == "Return":
            raise ValueError("return in FIN function")
        raise ValueError("FIN: unsupported node %s" % k)


def r_crossed_table(rep, hc):
    f = hc.f
    cs = []
    for _i, c_ in sign_tests(f, hc.body, hc.body["body"]):
        if not any(c_ is x for x in cs):
            cs.append(c_)
    key0 = "R-CROSSED-TABLE:%s" % hc.fn
    if len(cs) != 1:
        rep.inconc("R-CROSSED-TABLE", key0 + ":anchor", "`crossed` helper not found")
        return
    b = cs[0]
    rep.fn(b["def"])
    ps = b["params"]
    if len(ps) != 3:
        rep.inconc("R-CROSSED-TABLE", key0 + ":arity", "crossed has %d parameters" % len(ps))
        return
    # roles by type, not by position: the Direction parameter, and the two event values in declaration order
    di = [i for i, p_ in enumerate(ps) if "Direction" in (p_.get("ty") or "")]
    fl = [i for i, p_ in enumerate(ps) if "Direction" not in (p_.get("ty") or "")]
    if len(di) != 1 or len(fl) != 2:
        rep.inconc("R-CROSSED-TABLE", key0 + ":arity", "crossed does not take two event values and a direction")
        return
    fe = FinEval(b)
    probs = fe.comparison_only({ps[fl[0]]["id"], ps[fl[1]]["id"]})
    if probs:
        rep.inconc("R-CROSSED-TABLE", key0 + ":shape", "crossed uses its float arguments outside comparisons with 0.0 (%s): finite abstraction not applicable" % probs[:2])
        return
    dirs = {"All": "solve::event::Direction::All", "Positive": "solve::event::Direction::Positive", "Negative": "solve::event::Direction::Negative"}

    def tabulate(li, ri):
        tb = {}
        for dn, dd in dirs.items():
            for ln, lv in REPS.items():
                for rn, rv in REPS.items():
                    tb[(dn, ln, rn)] = fe.ev(b["body"], {ps[li]["id"]: lv, ps[ri]["id"]: rv, ps[di[0]]["id"]: ("def", dd)})
        return tb
    try:
        table = tabulate(fl[0], fl[1])
        # which of the two values is the earlier one is the helper's own convention: if the table is the mirror image
        # (falling reported under Positive for (first, second)), the helper takes (later, earlier)
        if table[("Positive", "neg", "pos")] is False and table[("Positive", "pos", "neg")] is True:
            table = tabulate(fl[1], fl[0])
            fl = [fl[1], fl[0]]
    except Exception as ex:
        rep.inconc("R-CROSSED-TABLE", key0 + ":eval", "cannot evaluate crossed: %s" % ex)
        return
    n = len(table)
    hc.sign_roles = (fl[0], fl[1], di[0])
    strict = ("neg", "pos")
    for dn in dirs:
        for ln in strict:
            for rn in strict:
                out = table[(dn, ln, rn)]
                rising = ln == "neg" and rn == "pos"
                falling = ln == "pos" and rn == "neg"
                if ln == rn:
                    want = False
                elif dn == "All":
                    want = True
                elif dn == "Positive":
                    want = rising
                else:
                    want = falling
                key = "R-CROSSED-TABLE:%s:%s:%s->%s" % (hc.fn, dn, ln, rn)
                if out == want:
                    rep.ok("R-CROSSED-TABLE", key, "crossed = %s" % out)
                else:
                    rep.violation("R-CROSSED-TABLE", key, "crossed(%s, %s, %s) is %s; strict %s must %sbe detected under direction %s"
                                  % (ln, rn, dn, out, "same sign" if ln == rn else "sign change", "" if want else "not ", dn), b.get("sp"))
    # a step that ENDS exactly on a root: arriving from below is a rising event, arriving from above a falling one -
    # it must be reported under the matching direction (and under All) and must not be reported under the opposite one
    zeros = [z for z in REPS if z not in ("neg", "pos") and REPS[z] == 0.0]
    for ln in strict:
        for rn in zeros:
            rising = ln == "neg"
            for dn in dirs:
                out = table[(dn, ln, rn)]
                want = True if dn == "All" else (rising if dn == "Positive" else not rising)
                key = "R-CROSSED-TABLE:%s:%s:%s->%s" % (hc.fn, dn, ln, rn)
                if out == want:
                    rep.ok("R-CROSSED-TABLE", key, "crossed = %s" % out)
                else:
                    rep.violation("R-CROSSED-TABLE", key, "crossed(%s, %s, %s) is %s: a step ending exactly on a root that is reached from %s must %sbe reported under direction %s"
                                  % (ln, rn, dn, out, "below" if rising else "above", "" if want else "not ", dn), b.get("sp"))
    rep.extra["crossed_table_cases"] = n
    rep.sample(dict(rule="R-CROSSED-TABLE", table={"%s:%s->%s" % k: v for k, v in list(table.items())[:25]}))


# ------------------------------------------------------------------------------------- observer rules
def r_obs_flags(rep, hc, rule="R-OBS-FLAGS"):
    flags = set(fl for r, fl in hc.returns())
    flags.add(hc.tail_flag())
    key = "%s:%s" % (rule, hc.fn)
    if None in flags:
        rep.violation(rule, key, "the handler returns a flag that is not a ControlFlag constructor literal", hc.body.get("sp"))
    elif flags <= {"Continue", "Interrupt"}:
        rep.ok(rule, key, "returns only %s" % sorted(flags))
    else:
        rep.violation(rule, key, "the default output handler can return %s: reporting options would then steer the integration" % sorted(flags - {"Continue", "Interrupt"}), hc.body.get("sp"))


def r_obs_readonly(rep, hc):
    body = hc.body["body"]
    xid, yid = hc.pid[2], hc.pid[3]
    key = "R-OBS-READONLY:%s" % hc.fn
    probs = []
    for n in tast.find(body, lambda z: z.get("k") in ("Assign", "AssignOp")):
        if tast.contains(n["l"], lambda z: z.get("k") == "Path" and z.get("id") in (xid, yid)):
            probs.append("store through a solver-owned parameter: %s" % tast.render(n))
    for n in tast.find(body, lambda z: z.get("k") == "AddrOf" and z.get("mut")):
        if tast.contains(n["e"], lambda z: z.get("k") == "Path" and z.get("id") in (xid, yid)):
            probs.append("&mut reborrow of a solver-owned parameter")
    for n in tast.find(body, lambda z: z.get("k") in ("MethodCall", "Call")):
        args = ([n["recv"]] if n["k"] == "MethodCall" else []) + n["args"]
        for j, a in enumerate(args):
            if a.get("k") == "Path" and a.get("id") in (xid, yid) and a.get("ty", "").startswith("&mut") and "D" not in (a.get("adj") or ""):
                # passing the &mut parameter itself: is the callee parameter mutable?
                if n["k"] == "MethodCall" and j == 0 and "M" not in (a.get("adj") or "") and n.get("name") in ("to_vec", "len", "iter", "is_empty", "clone"):
                    continue
                probs.append("solver-owned parameter passed on to %s" % (n.get("def") or n.get("name")))
        if n["k"] == "MethodCall" and n["recv"].get("k") == "Path" and n["recv"].get("id") in (xid, yid) and "M" in (n["recv"].get("adj") or ""):
            probs.append("mutating method %s on a solver-owned parameter" % n.get("name"))
    if probs:
        rep.violation("R-OBS-READONLY", key, "; ".join(sorted(set(probs))[:3]), hc.body.get("sp"))
    else:
        rep.ok("R-OBS-READONLY", key, "x and y are only read")


class TermTaintMon(mon.Monitor):
    """(the terminal limit was read in this iteration, an effect happened since)"""
    init = ((False, False),)
    MUT = ("push", "extend", "extend_from_slice", "copy_from_slice", "clone_from_slice", "resize", "insert", "fill", "clear", "truncate", "pop", "remove",
           "swap", "sort_by", "sort", "retain", "drain", "last_mut", "iter_mut", "get_mut", "push_str")

    def __init__(self, is_tc, tainted, loops):
        super().__init__()
        self.is_tc, self.tainted, self.loops = is_tc, tainted, loops

    def step(self, st, ev):
        kind, n = ev[0], ev[1]
        t, d = st
        if kind in ("for_head", "node") and id(n) in self.loops:
            return ((False, False),)
        if kind == "node":
            k = n.get("k")
            if self.is_tc(n) or (k == "Path" and n.get("id") in self.tainted):
                return ((True, d),)
            if t and (k in ("Assign", "AssignOp") or (k == "MethodCall" and n.get("name") in self.MUT)):
                return ((True, True),)
        if t and kind == "break" and not self._inner(n):
            self.violate("break", "a `break` out of the event loop depends on the terminal occurrence limit: the remaining event functions / events of this step are skipped", n, self.cur_trail)
        if t and d and kind == "continue":
            self.violate("continue", "an iteration that read the terminal occurrence limit goes on to the next event after changing state", n, self.cur_trail)
        if kind == "return":
            fl = ((n.get("e") or {}).get("def") or "")
            if t and fl != FLAG + "Interrupt":
                self.violate("return", "a return other than Interrupt depends on the terminal occurrence limit", n, self.cur_trail)
            return ((False, False),)
        if t and d and kind == "fn_end":
            self.violate("end", "state is changed on a path that read the terminal occurrence limit and does not stop the run", n, self.cur_trail)
        return (st,)

    def _inner(self, n):
        """a break of a loop nested inside the handler's event loops (the t_eval flush) is not a break out of them"""
        tgt = n.get("target")
        return tgt is not None and tgt not in self.loop_ids


def r_term_taint(rep, hc):
    """terminal_count is read only by the handler's Interrupt decision"""
    f = hc.f
    key = "R-TERM-TAINT"
    reads = []
    for b in f.body_list:
        for n in tast.find(b["body"], lambda z: z.get("k") == "Field" and (z.get("fdef") or "").endswith("EventConfig::terminal_count")):
            reads.append((b["def"], n))
    outside = [(d, n) for d, n in reads if d != hc.body["def"] and not d.startswith("solve::event::") and not d.startswith("<solve::event::")]
    if outside:
        rep.violation(key, "%s:outside:%s" % (key, outside[0][0]), "EventConfig::terminal_count is read outside the output handler", sp(outside[0][1]))
    inside = [n for d, n in reads if d == hc.body["def"]]
    # `let EventConfig { terminal_count, .. } = ...`: a read by destructuring
    destructured = []
    for lt in tast.find(hc.body["body"], lambda z: z.get("k") in ("Let", "LetExpr") and z.get("init") is not None):
        for ps in tast.find(lt["pat"], lambda z: z.get("k") == "PStruct" and (z.get("def") or "").endswith("EventConfig")):
            for fp in ps.get("fields", []):
                if fp["name"] == "terminal_count":
                    destructured += [q["id"] for q in tast.find(fp["pat"], lambda q: q.get("k") == "PBind")]
    if not inside and not destructured:
        rep.inconc(key, key + ":floor", "no read of terminal_count in the handler")
        return
    # the bound `limit` is used only in comparisons
    probs = []
    for lt in tast.find(hc.body["body"], lambda z: z.get("k") == "LetExpr" and tast.contains(z["init"], lambda q: q.get("k") == "Field" and (q.get("fdef") or "").endswith("terminal_count"))):
        for bnd in tast.find(lt["pat"], lambda z: z.get("k") == "PBind"):
            for use, parents in tast.find_with_parents(hc.body["body"], lambda z: z.get("k") == "Path" and z.get("id") == bnd["id"]):
                par = parents[-1]
                if not (par.get("k") == "Binary" and par["op"] in ("Ge", "Gt", "Le", "Lt", "Eq", "Ne")):
                    probs.append(tast.render(par))
    # control: once the limit has been read in an iteration of the handler's event loops, a path either returns Interrupt
    # or performs no effect before the iteration ends (typestate over all paths)
    is_tc = lambda q: q.get("k") == "Field" and (q.get("fdef") or "").endswith("EventConfig::terminal_count")
    body = hc.body["body"]
    tainted = set(destructured)
    for lt in tast.find(body, lambda z: z.get("k") in ("LetExpr", "Let") and z.get("init") is not None and tast.contains(z["init"], is_tc)):
        for bnd in tast.find(lt["pat"], lambda z: z.get("k") == "PBind"):
            tainted.add(bnd["id"])
    loops = {id(x) for x in (hc.detect_for(), hc.process_for()) if x is not None}
    tm = TermTaintMon(is_tc, tainted, loops)
    tm.loop_ids = {x.get("id") for x in (hc.detect_for(), hc.process_for()) if x is not None}
    mon.Runner(tm).run_fn(hc.body)
    for vkey, msg, node, trail in tm.violations:
        probs.append("%s at %s" % (msg, sp(node)))
    if probs:
        rep.violation(key, "%s:%s:use" % (key, hc.fn), "the terminal occurrence limit influences more than the decision to stop: %s; everything reported before the stop must be what the run without the terminal flag reports" % probs[:2], hc.body.get("sp"))
    elif not outside:
        rep.ok(key, "%s:%s" % (key, hc.fn), "terminal_count only feeds the hits >= limit test")


# ------------------------------------------------------------------------------------- C03: first-step sign, mode-2 record
def raw_from(atom, field, depth=0):
    if atom == field or atom.endswith("." + field.split(".")[-1]) and atom.startswith(field.split(".")[0]):
        return True
    d = DEFS.get(atom)
    if d and depth < 8 and d[0] in ("proj", "unwrap", "armval", "as_ref", "Some", "phi", "matches"):
        for a in d[1]:
            if isinstance(a, Poly):
                sa = a.single_atom()
                if sa and raw_from(sa, field, depth + 1):
                    return True
    return False


def first_sign_violations(polys, field):
    """monomials that multiply a raw (un-abs'd) first_step value with a direction factor"""
    out = []
    for p in polys:
        if not isinstance(p, Poly):
            continue
        for m in p.t:
            raws = [a for a, e in m if raw_from(a, field)]
            dirs = [a for a, e in m if a.startswith("signum[") or a in ("posneg", "direction")]
            if raws and dirs:
                out.append((p, raws[0], dirs[0]))
    return out


def r_first_sign_handler(rep, hc):
    vals = [ev["value"] for nm, ev in hc.pushes() if nm == "t"]
    for ev in hc.sx.trace:
        if ev["kind"] == "interp":
            vals.append(ev["t"])
    bad = first_sign_violations(vals, "self.first_step")
    key = "R-FIRST-SIGN:%s" % hc.fn
    uses = [v for v in vals if isinstance(v, Poly) and reaches(v, lambda a: a.endswith("self.first_step"))]
    if bad:
        rep.violation("R-FIRST-SIGN", key, "a sample time is formed as %r: the raw first_step is combined with the direction without abs(), so a negative first_step yields a time outside the interval" % (bad[0][0],),
                      hc.body.get("sp"))
    elif uses:
        rep.ok("R-FIRST-SIGN", key, "first_step passes abs() before meeting the direction factor (%d use(s))" % len(uses))
    else:
        rep.ok("R-FIRST-SIGN", key, "first_step does not form a sample time", nontrivial=False)


class Mode2Mon(mon.Monitor):
    """inside the solver-selected-output region: (in_region, pushed_x, passed_dup_guard_false or waiting-for-first-output)"""
    init = ((False, False, False),)

    def __init__(self, hc, m1):
        super().__init__()
        self.hc, self.m1 = hc, m1
        self.used_wait = []
        # locals derived from the first_step binding (the enforced first output time)
        body = hc.body["body"]
        derived = set()
        for lt in tast.find(body, lambda z: z.get("k") == "LetExpr" and tast.contains(z["init"], lambda q: hc.field_is(q, "first_step"))):
            for b in tast.find(lt["pat"], lambda z: z.get("k") == "PBind"):
                derived.add(b["id"])
        # ... or bound by the arms of a `match self.first_step { Some(h0) .. }` / a let-else
        for mt in tast.find(body, lambda z: z.get("k") == "Match" and tast.contains(z["scrut"], lambda q: hc.field_is(q, "first_step"))):
            for arm in mt["arms"]:
                for b in tast.find(arm["pat"], lambda z: z.get("k") == "PBind"):
                    derived.add(b["id"])
        for lt in tast.find(body, lambda z: z.get("k") == "Let" and z.get("init") is not None and tast.contains(z["init"], lambda q: hc.field_is(q, "first_step"))):
            for b in tast.find(lt["pat"], lambda z: z.get("k") == "PBind"):
                derived.add(b["id"])
        changed = True
        while changed:
            changed = False
            for l in tast.find(body, lambda z: z.get("k") == "Let" and z["pat"].get("k") == "PBind" and z.get("init") is not None):
                if l["pat"]["id"] not in derived and tast.contains(l["init"], lambda q: q.get("k") == "Path" and q.get("id") in derived):
                    derived.add(l["pat"]["id"])
                    changed = True
        self.derived = derived

    def is_wait_guard(self, n):
        """`dir * (*x - target) >= -tol` with target derived from first_step: the else edge = target not reached yet"""
        c = n["cond"]
        body = self.hc.body["body"]
        edge = "else"
        for _ in range(4):
            while c.get("k") in ("Paren", "DropTemps"):
                c = c["e"]
            if c.get("k") == "Unary" and c.get("op") == "Not":
                c = c["e"]
                edge = "then" if edge == "else" else "else"
                continue
            if c.get("k") == "Path" and c.get("res") == "local" and (c.get("ty") or "") == "bool":
                lets = tast.find(body, lambda z: z.get("k") == "Let" and z["pat"].get("k") == "PBind" and z["pat"].get("id") == c.get("id") and z.get("init") is not None)
                if len(lets) == 1:
                    c = lets[0]["init"]
                    continue
            break
        if not (c.get("k") == "Binary" and c["op"] in ("Ge", "Gt")):
            return False
        if tast.contains(c["l"], lambda z: z.get("k") == "Path" and z.get("id") == self.hc.pid[2]) and \
                tast.contains(c["l"], lambda z: z.get("k") == "Path" and z.get("id") in self.derived):
            return edge        # the edge on which the target has NOT been reached yet
        return False

    def step(self, st, ev):
        kind, n = ev[0], ev[1]
        r, p, g = st
        hc = self.hc
        if kind == "else" and n is self.m1:
            return ((True, False, False),)
        if kind == "then" and n is self.m1:
            return ()
        if not r:
            return (st,)
        if kind == "then" and n.get("k") == "If" and tast.contains(n["cond"], lambda z: z.get("k") == "Path" and z.get("id") == hc.pid[1]) \
                and tast.contains(n["cond"], lambda z: z.get("k") == "Binary" and z["op"] in ("Le", "Lt")):
            pass
        if kind == "node" and n.get("k") == "MethodCall" and n.get("name") == "push" and hc.field_is(n["recv"], "t"):
            a = self.runner.resolve(n["args"][0])
            if a.get("k") == "Unary" and a["op"] == "Deref" and a["e"].get("k") == "Path" and a["e"].get("id") == hc.pid[2]:
                return ((r, True, g),)
        if kind == "else" and n.get("k") == "If" and self.is_dup_guard(n):
            return ((r, p, True),)
        if kind == "arm" and n.get("k") == "Match" and tast.contains(n["scrut"], lambda z: z.get("k") == "MethodCall" and z.get("name") in ("last", "first") and tast.contains(z["recv"], lambda w: hc.field_is(w, "t"))):
            # match self.t.last() { Some(&last) if last == *x => {} .. }: the guarded arm is the duplicate case
            arm = n["arms"][ev[2]]
            g_ = arm.get("guard")
            if g_ is not None and g_.get("k") == "Binary" and g_["op"] == "Eq" and tast.contains(g_, lambda z: z.get("k") == "Path" and z.get("id") == hc.pid[2]):
                return ((r, p, True),)
        if kind in ("then", "else") and n.get("k") == "If" and self.is_wait_guard(n) == kind:
            self.used_wait.append(n)
            return ((r, p, True),)
        if kind in ("return", "fn_end"):
            if not p and not g:
                rets = [r_ for r_, fl in hc.returns()]
                ordn = next((i for i, r_ in enumerate(rets) if r_ is n), -1)
                self.violate("R-MODE2-RECORD:%s:%s" % (hc.fn, ("return#%d" % ordn) if kind == "return" else "end"),
                             "without t_eval, a callback can return without recording the accepted step's end point x (and not because it duplicates the last sample)", n, self.cur_trail)
        return (st,)

    def dup_tests(self, n):
        """comparisons `|A - *x| (> | <=) T` in the condition of n (resolved through single-assignment bool locals)"""
        out = []
        body = self.hc.body["body"]

        def through_let(e):
            # a single-assignment bool local stands for its initialiser
            for _ in range(3):
                if e.get("k") == "Unary" and e.get("op") == "Not":
                    e = e["e"]
                    continue
                if e.get("k") == "Path" and e.get("res") == "local" and (e.get("ty") or "") == "bool":
                    lets = tast.find(body, lambda z: z.get("k") == "Let" and z["pat"].get("k") == "PBind" and z["pat"].get("id") == e.get("id") and z.get("init") is not None)
                    if len(lets) == 1:
                        e = lets[0]["init"]
                        continue
                break
            return e
        c = through_let(n["cond"])
        xid = self.hc.pid[2]
        for z in tast.find(c, lambda z: z.get("k") == "Binary" and z["op"] in ("Gt", "Ge", "Le", "Lt", "Ne", "Eq")):
            l, r = z["l"], z["r"]
            if tast.contains(l, lambda q: q.get("k") == "MethodCall" and q.get("name") == "abs") and tast.contains(l, lambda q: q.get("k") == "Path" and q.get("id") == xid):
                out.append((z, r))
            elif z["op"] in ("Eq", "Ne") and (l.get("ty") or "") in ("f64", "&f64") and (tast.contains(l, lambda q: q.get("k") == "Path" and q.get("id") == xid)
                                                                                        or tast.contains(r, lambda q: q.get("k") == "Path" and q.get("id") == xid)):
                out.append((z, None))       # last == *x : an exact duplicate
        return out

    def is_dup_guard(self, n):
        """`.. |A - *x| > T ..` (or its negation bound to a flag): one edge means x differs from a recorded time by at most T"""
        return bool(self.dup_tests(n))


def r_mode2_record(rep, hc):
    m1 = hc.mode1_if()
    if m1 is None:
        rep.inconc("R-MODE2-RECORD", "R-MODE2-RECORD:%s:anchor" % hc.fn, "sampling-mode split not found")
        return
    m = Mode2Mon(hc, m1)
    mon.Runner(m).run_fn(hc.body)
    # the initial callback (xold == x) always takes the normal-output path; paths that are
    # guarded by |xold - x| > tol cannot be the initial one, so every reported path is a step callback
    for key, msg, node, trail in m.violations:
        rep.violation("R-MODE2-RECORD", key, msg, sp(node))
    # the duplicate test may only swallow points that differ from the last sample by rounding: a threshold that is an
    # absolute constant (the handler's 1e-12 slack) drops real steps shorter than it - the final sample is then not xend on a
    # tiny interval, and fewer intervals are reported than steps were accepted
    m1e = m1.get("else")
    dups = []
    for i_ in tast.find(m1e, lambda z: z.get("k") in ("If", "Let")) if m1e is not None else []:
        src = i_["cond"] if i_.get("k") == "If" else i_.get("init")
        if src is None:
            continue
        for z in tast.find(src, lambda z: z.get("k") == "Binary" and z["op"] in ("Gt", "Ge", "Le", "Lt")):
            if tast.contains(z["l"], lambda q: q.get("k") == "MethodCall" and q.get("name") == "abs") and tast.contains(z["l"], lambda q: q.get("k") == "Path" and q.get("id") == hc.pid[2]) \
                    and (tast.contains(src, lambda q: q.get("k") == "MethodCall" and q.get("name") == "last" and tast.contains(q["recv"], lambda w: hc.field_is(w, "t")))
                         or tast.contains(z["l"], lambda q: q.get("k") == "MethodCall" and q.get("name") == "last")):
                dups.append(z)
    if not dups:
        exact = [z for z in tast.find(m1e, lambda z: z.get("k") == "Binary" and z["op"] in ("Eq", "Ne") and (z["l"].get("ty") or "") in ("f64", "&f64")
                                      and (tast.contains(z, lambda q: q.get("k") == "Path" and q.get("id") == hc.pid[2])))] if m1e is not None else []
        if exact:
            rep.ok("R-MODE2-RECORD", "R-MODE2-RECORD:%s:dup-slack" % hc.fn, "only a repeated time (`%s`) is treated as a duplicate" % tast.render(exact[0])[:60])
    seen_ids = set()
    for z in dups:
        if id(z) in seen_ids:
            continue
        seen_ids.add(id(z))
        key = "R-MODE2-RECORD:%s:dup-slack" % hc.fn
        thr = z["r"]
        zero = thr.get("k") == "Lit" and float(str(thr.get("v", "1")).replace("_", "")) == 0.0
        if zero:
            rep.ok("R-MODE2-RECORD", key, "the duplicate test `%s` swallows only a repeated time" % tast.render(z)[:80])
        else:
            rep.violation("R-MODE2-RECORD", key, "the accepted step's end point is skipped when `%s` fails: the threshold `%s` is a slack, so every accepted step shorter than it is dropped from the record "
                          "(on an interval no longer than an absolute slack the result is t = [x0] with Success; with steps of a few ulps fewer intervals are reported than naccpt)"
                          % (tast.render(z)[:70], tast.render(thr)[:30]), sp(z))
    if not m.violations:
        rep.ok("R-MODE2-RECORD", "R-MODE2-RECORD:%s" % hc.fn, "every solver-selected-output callback records x (or skips it only as a duplicate"
               + (", or while waiting for the enforced first output)" if m.used_wait else ")"))
    if m.used_wait:
        # waiting is only sound if the enforced first output lies inside the interval: the
        # construction site must bound first_step by the span
        f = hc.f
        sv = f.body("solve::solve_ivp::solve_ivp")
        news = tast.find(sv["body"], lambda z: z.get("k") == "Call" and (z.get("def") or "").startswith("solve::solout::DefaultSolOut") and (z.get("def") or "").endswith("::new"))
        key = "R-MODE2-RECORD:solve_ivp:first-output-bounded"
        if len(news) != 1 or len(news[0]["args"]) < 4:
            rep.inconc("R-MODE2-RECORD", key, "DefaultSolOut::new call not found in solve_ivp")
            return
        a = news[0]["args"][3]
        if a.get("k") == "Path" and a.get("res") == "local":
            lets = tast.find(sv["body"], lambda z: z.get("k") == "Let" and z["pat"].get("id") == a["id"])
            a = lets[0]["init"] if lets and lets[0].get("init") else a
        xend_id = sv["params"][2].get("id")
        x0_id = sv["params"][1].get("id")
        # evaluate the argument as an Option<f64> at model points: first_step = Some(v) for |v| below, at and above the span,
        # both signs, both directions: the handler may only be given None or Some(v) with |v| <= |xend - x0|
        import dense as _dense

        class _Opt(_dense.NumEval):
            def __init__(self, body, model):
                self.env = {}
                self.model = model
                super().__init__(body, self._leaf)

            def _leaf(self, e):
                if e.get("k") == "Path" and e.get("res") == "local":
                    if e.get("id") in self.env:
                        return self.env[e["id"]]
                    if e.get("id") == xend_id:
                        return self.model["xend"]
                    if e.get("id") == x0_id:
                        return self.model["x0"]
                return None

            def bind(self, pat, v):
                for q in tast.find(pat, lambda q: q.get("k") == "PBind"):
                    self.env[q["id"]] = v

            def opt(self, e, depth=0):
                if e is None or depth > 30:
                    raise _dense._NoEval("depth")
                k = e.get("k")
                if k in ("DropTemps", "Paren", "Cast", "AddrOf") or (k == "Unary" and e.get("op") == "Deref"):
                    return self.opt(e["e"], depth + 1)
                if k == "Block":
                    return self.opt(e.get("tail") if e.get("tail") is not None else e.get("expr"), depth + 1)
                if k == "Field" and (e.get("fdef") or "").endswith("Options::first_step"):
                    return self.model["first"]
                if k == "Path" and e.get("res") == "local":
                    if e.get("id") in self.env:
                        return ("Some", self.env[e["id"]]) if not isinstance(self.env[e["id"]], tuple) else self.env[e["id"]]
                    init = self.let_of(e["id"])
                    if init is None:
                        raise _dense._NoEval("local %s" % e.get("name"))
                    return self.opt(init, depth + 1)
                if k == "Path" and (e.get("def") or "").endswith("None"):
                    return ("None",)
                if k == "Call" and (e.get("def") or "").endswith("Some") and len(e["args"]) == 1:
                    return ("Some", self.ev(e["args"][0], depth + 1))
                if k == "MethodCall":
                    nm = e.get("name")
                    if nm in ("copied", "cloned", "as_ref", "clone", "take"):
                        return self.opt(e["recv"], depth + 1)
                    if nm in ("filter", "map", "and_then") and e["args"] and e["args"][0].get("k") == "Closure":
                        o = self.opt(e["recv"], depth + 1)
                        if o[0] == "None":
                            return o
                        cl = e["args"][0]
                        for p_ in (cl["params"] if isinstance(cl["params"], list) else [cl["params"]]):
                            self.bind(p_, o[1])
                        if nm == "filter":
                            return o if self.ev(cl["body"], depth + 1) else ("None",)
                        if nm == "map":
                            return ("Some", self.ev(cl["body"], depth + 1))
                        return self.opt(cl["body"], depth + 1)
                    if nm in ("then", "then_some") and len(e["args"]) == 1:
                        if not self.ev(e["recv"], depth + 1):
                            return ("None",)
                        a_ = e["args"][0]
                        return ("Some", self.ev(a_["body"] if a_.get("k") == "Closure" else a_, depth + 1))
                if k == "If":
                    c = e["cond"]
                    if c.get("k") == "LetExpr":
                        o = self.opt(c["init"], depth + 1)
                        is_some_pat = (c["pat"].get("ctor_of") or c["pat"].get("def") or "").endswith("Some")
                        if (o[0] == "Some") == is_some_pat:
                            if o[0] == "Some":
                                self.bind(c["pat"], o[1])
                            return self.opt(e["then"], depth + 1)
                        return self.opt(e.get("else"), depth + 1) if e.get("else") is not None else ("None",)
                    return self.opt(e["then"] if self.ev(c, depth + 1) else e.get("else"), depth + 1)
                if k == "Match":
                    o = self.opt(e["scrut"], depth + 1)
                    for arm in e["arms"]:
                        pt = arm["pat"]
                        nm_ = (pt.get("ctor_of") or pt.get("def") or "")
                        if pt.get("k") in ("PWild",) or (pt.get("k") == "PBind" and not pt.get("sub")):
                            hit = True
                        elif nm_.endswith("Some"):
                            hit = o[0] == "Some"
                            if hit:
                                self.bind(pt, o[1])
                        elif nm_.endswith("None"):
                            hit = o[0] == "None"
                        else:
                            raise _dense._NoEval("pattern")
                        if hit and arm.get("guard") is not None and not self.ev(arm["guard"], depth + 1):
                            hit = False
                        if hit:
                            return self.opt(arm["body"], depth + 1)
                    raise _dense._NoEval("no arm")
                raise _dense._NoEval("node %s" % k)
        bounded, witness, n_pts = True, None, 0
        try:
            for x0v, xev in ((0.0, 2.0), (2.0, 0.0), (-1.0, 3.0), (3.0, -1.0), (1.0, 1.5)):
                span = abs(xev - x0v)
                for fac in (0.25, 0.5, 1.0, 1.0000001, 1.5, 10.0):
                    for sg in (1.0, -1.0):
                        v = sg * fac * span
                        ev_ = _Opt(sv["body"], {"x0": x0v, "xend": xev, "first": ("Some", v)})
                        o = ev_.opt(news[0]["args"][3])
                        n_pts += 1
                        if o[0] == "Some" and (abs(o[1]) > span):
                            bounded = False
                            witness = witness or (x0v, xev, v)
        except _dense._NoEval as ex:
            rep.inconc("R-MODE2-RECORD", key, "the first-output argument of DefaultSolOut::new was not evaluated (%s)" % ex, sp(news[0]))
            return
        if bounded:
            rep.ok("R-MODE2-RECORD", key, "the first_step handed to the output handler is None or within |xend - x0| at %d model points (both directions, both signs)" % n_pts)
        else:
            rep.violation("R-MODE2-RECORD", key,
                          "the output handler skips accepted steps until x0 + first_step is reached, but solve_ivp passes first_step unbounded: "
                          "with first_step > |xend - x0| no step is ever reported (t = [x0], Success)%s" % ((" [x0=%g, xend=%g, first_step=%g]" % witness) if witness else ""), sp(news[0]))


def r_dir_from(rep, f):
    """the integer form of a direction filter (SciPy's convention, used by bindings) selects by sign: every positive integer is
    Positive, every negative one Negative, 0 is All. The conversion is evaluated exactly at every integer literal occurring
    in it, its neighbours, and the ends of the i32 range: a function made of comparisons with literals is constant between them"""
    key = "R-DIR-FROM"
    fns = [n for n in f.bodies if n.startswith("<solve::event::Direction as std::convert::From<i")]
    if not fns:
        rep.note("no integer conversion into Direction in this build")
        return
    from cxs import CxS, CxPanic
    for fn in fns:
        b = f.bodies[fn]
        rep.fn(fn)
        lits = set()
        for z in tast.find(b["body"], lambda z: z.get("k") in ("Lit", "PLit") or (z.get("k") == "Unary" and z.get("op") == "Neg")):
            try:
                if z.get("k") == "Unary":
                    lits.add(-int(str(z["e"].get("v"))))
                else:
                    v = z.get("v") if z.get("k") == "Lit" else (z.get("e") or z).get("v")
                    lits.add(-int(str(v)) if z.get("neg") else int(str(v)))
            except Exception:
                pass
        pts = {0, 1, -1, 2, -2, 7, -7, 2 ** 31 - 1, -2 ** 31}
        for l in lits:
            pts |= {l - 1, l, l + 1, -l, -l - 1, -l + 1}
        pts = sorted(p for p in pts if -2 ** 31 <= p <= 2 ** 31 - 1)
        bad = []
        for v in pts:
            want = "Positive" if v > 0 else "Negative" if v < 0 else "All"
            try:
                r = CxS(f).call_fn(fn, [v])
                got = (r.get("__variant") or "?").rsplit("::", 1)[-1] if isinstance(r, dict) else repr(r)
            except CxPanic as e:
                got = "panic (%s)" % e
            except Exception as e:
                rep.inconc(key, "%s:%s" % (key, fn), "conversion not evaluated at %d: %s" % (v, str(e)[:120]))
                bad = None
                break
            if got != want:
                bad.append((v, got, want))
        if bad is None:
            continue
        if bad:
            v, got, want = bad[0]
            rep.violation(key, "%s:%s" % (key, fn), "Direction::from(%d) is %s, expected %s (%d of %d model points differ): an integer direction with that sign selects the wrong crossings" % (v, got, want, len(bad), len(pts)), b["body"].get("sp"))
        else:
            rep.ok(key, "%s:%s" % (key, fn), "sign convention holds at %d model points (literals of the function %s, their neighbours, i32 range ends)" % (len(pts), sorted(lits)))


class CurrMon(mon.Monitor):
    """state of the buffer that receives the event values at the step end (x, y): none | end | other (last written by an
    evaluation at another point, or partially overwritten)"""
    init = ("none",)

    def __init__(self, hc, buf, top_lets):
        super().__init__()
        self.hc, self.buf, self.top_lets = hc, buf, top_lets
        self.n_sinks = set()

    def _is_param(self, e, pid):
        while e.get("k") in ("AddrOf", "Cast", "DropTemps") or (e.get("k") == "Unary" and e.get("op") == "Deref"):
            e = e["e"]
        return e.get("k") == "Path" and e.get("id") == pid

    def step(self, st, ev):
        kind, n = ev[0], ev[1]
        hc, buf = self.hc, self.buf
        if kind == "node":
            k = n.get("k")
            if k == "MethodCall" and n.get("def") == EVENTS and len(n["args"]) == 3 and tast.contains(n["args"][2], lambda z: hc.field_is(z, buf)):
                at_end = self._is_param(n["args"][0], hc.pid[2]) and self._is_param(n["args"][1], hc.pid[3])
                return ("end" if at_end else "other",)
            if k in ("Assign", "AssignOp") and tast.contains(n["l"], lambda z: hc.field_is(z, buf)):
                return ("other",)
            if k == "MethodCall" and n.get("name") in ("copy_from_slice", "clone_from_slice", "fill", "swap", "swap_with_slice", "resize", "clear", "iter_mut") \
                    and tast.contains(n["recv"], lambda z: hc.field_is(z, buf)):
                return ("other",)
            if k == "MethodCall" and n.get("name") in ("copy_from_slice", "clone_from_slice") and hc.field_is(n["recv"], "prev_event") \
                    and tast.contains(n["args"][0], lambda z: hc.field_is(z, buf)):
                self.n_sinks.add(id(n))
                if st != "end":
                    self.violate("prev", "the values stored as `prev_event` are read from `%s` after it was overwritten by an evaluation of the event functions at another point "
                                 "(or element-wise): the next step compares against values that are not the step-end values" % buf, n, self.cur_trail)
            if k == "Let" and id(n) in self.top_lets:
                self.n_sinks.add(id(n))
                if st != "end":
                    self.violate("curr", "the current value of an event function is read from `%s` after an earlier event's root search overwrote it with values at another time: "
                                 "a sign change of this function in the step is judged on the wrong value" % buf, n, self.cur_trail)
        return (st,)


def r_evt_curr_stable(rep, hc):
    """the event values at the step end are evaluated once per callback into one buffer; every read of them as `current value`
    (per event function, in the detection loop) and the copy into prev_event see exactly that evaluation: no evaluation at
    another point and no element-wise write reaches the same buffer in between (typestate over all paths, loops to a fix-point)"""
    key = "R-EVT-CURR:%s" % hc.fn
    ends = []
    is_p = CurrMon._is_param
    for n in tast.find(hc.body["body"], lambda z: z.get("k") == "MethodCall" and z.get("def") == EVENTS and len(z["args"]) == 3):
        if is_p(None, n["args"][0], hc.pid[2]) and is_p(None, n["args"][1], hc.pid[3]):
            flds = tast.find(n["args"][2], lambda z: z.get("k") == "Field" and (z.get("fdef") or "").startswith(DSO))
            if flds:
                ends.append(flds[0]["name"])
    if len(set(ends)) != 1:
        rep.inconc("R-EVT-CURR", key, "expected one buffer receiving the event values at (x, y), found %s" % sorted(set(ends)))
        return
    buf = ends[0]
    df = hc.detect_for()
    top = set()
    if df is not None and df["body"].get("k") == "Block":
        for st_ in df["body"].get("stmts", []):
            if st_.get("k") == "Let" and st_.get("init") is not None and tast.contains(st_["init"], lambda z: z.get("k") == "Index" and hc.field_is(z["e"], buf)):
                top.add(id(st_))
    m = CurrMon(hc, buf, top)
    mon.Runner(m).run_fn(hc.body)
    for vkey, msg, node, trail in m.violations:
        rep.violation("R-EVT-CURR", "%s:%s" % (key, vkey), msg + " (path: %s)" % " -> ".join(trail[-6:]), sp(node))
    if not m.violations:
        if len(m.n_sinks) < 2:
            rep.inconc("R-EVT-CURR", key, "only %d use(s) of the step-end event values found (expected the per-event read and the prev_event copies)" % len(m.n_sinks))
        else:
            rep.ok("R-EVT-CURR", key, "`%s` holds the evaluation at (x, y) at all %d reads as current value / copies into prev_event" % (buf, len(m.n_sinks)))


def r_config_frame(rep, f):
    """An event's configuration is two independent settings, the direction filter and the terminal count, each changed through
    its own setters.  Frame rule: a `&mut self` setter of EventConfig writes exactly one field and leaves the other as it
    found it - a setter that rebuilds the whole value (`*self = Self { x, ..Self::new() }`) silently resets what the caller
    configured before (direction filter lost after terminal_count(n): wrong-direction crossings reported and counted)."""
    ADT = "solve::event::EventConfig"
    adt = f.adts.get(ADT)
    fields = [fl.get("name") for fl in (adt or {}).get("fields", [])] if adt else []
    n = 0
    for b in f.body_list:
        fn = b["def"]
        if not fn.startswith(ADT + "::") or "::{closure" in fn:
            continue
        ps = b.get("params", [])
        if not ps or "&mut" not in (ps[0].get("ty") or "") or ADT not in (ps[0].get("ty") or ""):
            continue
        sid = ps[0].get("id")
        n += 1
        key = "R-CONFIG-FRAME:%s" % fn
        written, whole = set(), None
        for a in tast.find(b["body"], lambda z: z.get("k") in ("Assign", "AssignOp")):
            l = a["l"]
            if l.get("k") == "Field" and tast.contains(l["e"], lambda q: q.get("k") == "Path" and q.get("id") == sid):
                written.add(l.get("name") or (l.get("fdef") or "").split("::")[-1])
            elif l.get("k") in ("Deref", "Unary") and tast.contains(l, lambda q: q.get("k") == "Path" and q.get("id") == sid):
                # *self = <value>: every field is written, except those a struct literal takes over from `..*self`
                r = a["r"]
                keeps = r.get("k") == "Struct" and r.get("base") is not None and tast.contains(r["base"], lambda q: q.get("k") == "Path" and q.get("id") == sid)
                if keeps:
                    written |= {fl_.get("name") for fl_ in r.get("fields", [])}
                else:
                    whole = a
        # setters called on self count as their own writes
        for c in tast.find(b["body"], lambda z: z.get("k") == "MethodCall" and (z.get("def") or "").startswith(ADT + "::") and z["recv"].get("k") == "Path" and z["recv"].get("id") == sid):
            written.add("via " + c["def"].split("::")[-1])
        if whole is not None:
            rep.violation("R-CONFIG-FRAME", key, "the setter replaces the whole configuration (`%s`): the setting it is not about is reset to its default, whatever the caller "
                          "configured before" % tast.render(whole)[:80], whole.get("sp"))
        elif len(written) == 1:
            rep.ok("R-CONFIG-FRAME", key, "writes only `%s`" % sorted(written)[0])
        elif not written:
            rep.inconc("R-CONFIG-FRAME", key, "no field write found in a &mut self method of EventConfig", b.get("sp"))
        else:
            rep.violation("R-CONFIG-FRAME", key, "the setter writes %d fields (%s): one call changes the direction filter and the terminal count together" % (len(written), ", ".join(sorted(written))), b.get("sp"))
    if n < 4:
        rep.inconc("R-CONFIG-FRAME", "R-CONFIG-FRAME:floor", "only %d &mut self setters of EventConfig found (expected >= 4)" % n)


class LatchMon(mon.Monitor):
    """(a sample was pushed in this call, one-shot flags raised in this call)"""
    init = ((False, frozenset()),)

    def __init__(self, hc, flags):
        super().__init__()
        self.hc, self.flags = hc, flags

    def step(self, st, ev):
        kind, n = ev[0], ev[1]
        pushed, raised = st
        if kind == "node":
            if n.get("k") == "MethodCall" and n.get("name") == "push":
                r = n["recv"]
                try:
                    r = self.runner.resolve(r)
                except Exception:
                    pass
                while r.get("k") in ("AddrOf", "DropTemps", "Paren"):
                    r = r["e"]
                if self.hc.field_is(r, "t"):
                    return ((True, raised),)
            if n.get("k") == "Assign" and n["l"].get("k") == "Field" and n["r"].get("k") == "Lit" and str(n["r"].get("v")).lower() == "true":
                for fl in self.flags:
                    if self.hc.field_is(n["l"], fl):
                        return ((pushed, raised | {fl}),)
        if kind in ("return", "fn_end") and raised and not pushed:
            for fl in sorted(raised):
                self.violate("R-FIRST-LATCH:%s:%s" % (self.hc.fn, fl), "`%s` is raised on a path that leaves the callback without recording a sample: the branch it switches off "
                             "(skip the step's end point until the first output has been produced) never runs again, so the output it was waiting for is never produced and "
                             "the first reported interval spans several accepted steps" % fl, n, self.cur_trail)
        return (st,)


def r_first_latch(rep, hc):
    """one-shot flags of the handler: a boolean field that (negated) guards a branch which may leave the callback without
    recording the accepted step's end point stands for "the output this branch waits for has been produced".  It may be raised
    only on a path that records a sample in the same call."""
    f = hc.f
    # the one-shot flags: boolean fields of the handler that the callback itself raises (assigns the literal `true`) and reads
    flags = set()
    for a_ in tast.find(hc.body["body"], lambda z: z.get("k") == "Assign" and z["l"].get("k") == "Field" and (z["l"].get("fdef") or "").startswith(DSO)
                        and (z["l"].get("ty") or "") == "bool" and z["r"].get("k") == "Lit" and str(z["r"].get("v")).lower() == "true"):
        nm = a_["l"]["fdef"][len(DSO):]
        reads = tast.find(hc.body["body"], lambda z: z.get("k") == "Field" and (z.get("fdef") or "") == DSO + nm and z is not a_["l"])
        if len(reads) > sum(1 for _ in tast.find(hc.body["body"], lambda z: z.get("k") == "Assign" and hc.field_is(z["l"], nm))) - 1:
            flags.add(nm)
    key = "R-FIRST-LATCH:%s" % hc.fn
    if not flags:
        rep.ok("R-FIRST-LATCH", key, "no one-shot flag guards a skipping branch of the handler", nontrivial=False)
        return 0
    m = LatchMon(hc, flags)
    mon.Runner(m).run_fn(hc.body)
    seen = set()
    for k_, msg, node, trail in m.violations:
        if k_ not in seen:
            seen.add(k_)
            rep.violation("R-FIRST-LATCH", k_, msg, sp(node))
    if not m.violations:
        rep.ok("R-FIRST-LATCH", key, "flag(s) %s: raised only on paths that record a sample in the same call" % ", ".join(sorted(flags)))
    return len(flags)


def r_prev_stable(rep, hc):
    """the detection loop compares every event function's value at the start of the step (`prev_event[i]`) with its value
    at the end.  While that loop runs nothing may write `prev_event`: the stored values of the functions not yet examined must
    survive the root refinement of the ones examined before them (a refinement that evaluates `events(t, y, &mut prev_event)`
    into it as scratch space makes a later function's sign change invisible).  Rule: every write to prev_event - as the output
    argument of a call, through copy/fill, or element-wise - lies outside every loop whose body reads prev_event."""
    body = hc.body["body"]
    is_prev = lambda e: tast.contains(e, lambda q: hc.field_is(q, "prev_event"))
    loops = [lp for lp in tast.find(body, lambda z: z.get("k") in ("For", "While", "Loop"))
             if tast.contains(lp.get("body") or lp, lambda z: z.get("k") == "Index" and is_prev(z["e"]))]
    key = "R-PREV-STABLE:%s" % hc.fn
    if not loops:
        rep.inconc("R-PREV-STABLE", key, "no loop reading prev_event[..] found in the handler")
        return
    bad = None
    n_w = 0

    def writes_in(region):
        out = []
        out += tast.find(region, lambda z: z.get("k") in ("Call", "MethodCall") and any(a.get("k") == "AddrOf" and a.get("mut") and is_prev(a) for a in z.get("args", [])))
        out += tast.find(region, lambda z: z.get("k") == "MethodCall" and z.get("name") in ("copy_from_slice", "clone_from_slice", "fill", "swap", "clone_from") and is_prev(z["recv"]))
        out += tast.find(region, lambda z: z.get("k") in ("MethodCall", "Call") and not (z.get("k") == "MethodCall" and is_prev(z.get("recv") or {})) and stores_prev(hc, z))
        out += tast.find(region, lambda z: z.get("k") in ("Assign", "AssignOp") and is_prev(z["l"]))
        return out
    n_w = len(writes_in(body))
    for lp in loops:
        for w in writes_in(lp.get("body") or lp):
            bad = bad or w
    if bad is not None:
        rep.violation("R-PREV-STABLE", key, "`%s` writes prev_event inside the loop that reads the stored start-of-step values: the functions examined later are compared with "
                      "overwritten values and their sign changes go unreported" % tast.render(bad)[:70], bad.get("sp"))
    elif n_w == 0:
        rep.inconc("R-PREV-STABLE", key, "no write to prev_event found in the handler (expected the end-of-step copy)")
    else:
        rep.ok("R-PREV-STABLE", key, "%d write(s) to prev_event, none inside the %d loop(s) that read it" % (n_w, len(loops)))
