"""Radau IIA(5): the constants the code actually applies (extracted by the affine interpreter) against
the method's definition, in 60-digit decimal arithmetic. Rules R-RADAU-CONST, R-RADAU-NEWTON (assembly)."""
from decimal import Decimal, getcontext
from fractions import Fraction

import rk
import tast
from poly import Poly, DEFS

getcontext().prec = 60
TOL = Decimal("1e-13")
FN = "methods::radau::RADAU::solve"


def D(x):
    if isinstance(x, Fraction):
        return Decimal(x.numerator) / Decimal(x.denominator)
    return Decimal(x)


def matmul(A, B):
    return [[sum(A[i][k] * B[k][j] for k in range(len(B))) for j in range(len(B[0]))] for i in range(len(A))]


def inv3(M):
    (a, b, c), (d, e, f), (g, h, i) = M
    det = a * (e * i - f * h) - b * (d * i - f * g) + c * (d * h - e * g)
    adj = [[e * i - f * h, c * h - b * i, b * f - c * e],
           [f * g - d * i, a * i - c * g, c * d - a * f],
           [d * h - e * g, b * g - a * h, a * e - b * d]]
    return [[x / det for x in row] for row in adj]


def radau_A():
    s6 = Decimal(6).sqrt()
    c = [(4 - s6) / 10, (4 + s6) / 10, Decimal(1)]
    # a_ij = integral_0^{c_i} l_j(t) dt, l_j the Lagrange basis on c
    A = []
    for i in range(3):
        row = []
        for j in range(3):
            others = [c[k] for k in range(3) if k != j]
            den = (c[j] - others[0]) * (c[j] - others[1])
            # (t - o0)(t - o1) = t^2 - (o0+o1) t + o0 o1
            ci = c[i]
            integral = ci ** 3 / 3 - (others[0] + others[1]) * ci ** 2 / 2 + others[0] * others[1] * ci
            row.append(integral / den)
        A.append(row)
    return c, A


def coef(poly, atom_pred):
    """dict atom -> Fraction for a polynomial that is a constant-coefficient combination of single atoms"""
    out = {}
    for m, cf in poly.t.items():
        if len(m) == 1 and m[0][1] == 1 and atom_pred(m[0][0]):
            out[m[0][0]] = out.get(m[0][0], 0) + cf
        else:
            return None
    return out


def extract(f):
    """Quantities applied by RADAU::solve on the accepted path."""
    sx, hk = rk.analyse_solve(f, FN)
    names = sx.names
    out = dict(sx=sx, hk=hk, problems=[])
    stages = [s for s in hk.stages if s.get("in_main") and not s.get("head")]
    # the three Newton stage evaluations: the first three in-loop stages with distinct abscissae != X
    newton = [s for s in stages if isinstance(s["T"], Poly) and not (s["T"] - Poly.atom("X")).is_zero()][:3]
    if len(newton) != 3:
        out["problems"].append("expected three Newton stage evaluations, found %d" % len(newton))
        return out
    hs = set()
    cs = []
    for s in newton:
        d = s["T"] - Poly.atom("X")
        if len(d.t) != 1:
            out["problems"].append("stage abscissa %r is not x + c*h" % (s["T"],))
            return out
        (m, c), = d.t.items()
        hs.add(m)
        cs.append(c)
    if len(hs) != 1:
        out["problems"].append("Newton stages use different step values")
        return out
    out["c"] = cs
    out["h_mono"] = hs.pop()
    Fn = [s["name"] for s in newton]
    out["F"] = Fn
    # ---- roles by dataflow (not by the names the source happens to use): z_j = buffer the j-th Newton stage evaluation
    # writes; f_j = buffer that accumulates z_j (`f_j[i] += z_j[i]`); e1 / (e2r, e2i) = matrices handed to the real /
    # complex factorisation. Everything below speaks about the canonical role names.
    role = {}
    for j, s_ in enumerate(newton):
        o = s_.get("out")
        if o and o[0] == "key":
            role[o[1]] = "z%d" % (j + 1)
    body = f.body(FN)["body"]
    for a_ in tast.find(body, lambda z: z.get("k") == "AssignOp" and z.get("op", "").startswith("Add") and z["l"].get("k") == "Index" and z["r"].get("k") == "Index"
                        and z["l"]["e"].get("k") == "Path" and z["r"]["e"].get("k") == "Path"):
        src = role.get(a_["r"]["e"].get("id"))
        if src and src.startswith("z") and a_["l"]["e"].get("id") not in role:
            role[a_["l"]["e"]["id"]] = "f" + src[1]
    for c_ in tast.find(body, lambda z: z.get("k") == "Call" and (z.get("def") or "").endswith(("::lu_decomp", "::lu_decomp_complex"))):
        mats = []
        for a_ in c_["args"]:
            e_ = a_
            while e_.get("k") in ("AddrOf", "Unary"):
                e_ = e_["e"]
            if e_.get("k") == "Path" and "Matrix" in (e_.get("ty") or ""):
                mats.append(e_["id"])
        if c_["def"].endswith("::lu_decomp") and len(mats) == 1:
            role[mats[0]] = "e1"
        elif c_["def"].endswith("::lu_decomp_complex") and len(mats) == 2:
            role[mats[0]], role[mats[1]] = "e2r", "e2i"
    for c_ in tast.find(body, lambda z: z.get("k") == "MethodCall" and z.get("def") in ("ivp::IVP::mass", "ivp::IVP::jac")):
        for a_ in c_["args"]:
            e_ = a_
            while e_.get("k") in ("AddrOf", "Unary"):
                e_ = e_["e"]
            if e_.get("k") == "Path" and "Matrix" in (e_.get("ty") or ""):
                role[e_["id"]] = "mass" if c_["def"].endswith("::mass") else "jac"
    need = {"z1", "z2", "z3", "f1", "f2", "f3", "e1", "e2r", "e2i", "mass", "jac"}
    if set(role.values()) != need:
        out["problems"].append("could not identify the Newton buffers by dataflow (found roles %s)" % sorted(set(role.values())))
        return out
    src_of = {r_: sx.names.get(k_, k_) for k_, r_ in role.items()}
    import re as _re
    pats = [(_re.compile(r"(?<![A-Za-z0-9_])%s(?![A-Za-z0-9_])" % _re.escape(src_of[r_])), r_) for r_ in sorted(src_of)]

    def ca(a):
        """atom name with the source names of the Newton buffers replaced by their role names"""
        tmp = a
        marks = {}
        for i_, (rx, r_) in enumerate(pats):
            tmp = rx.sub("\x00%d\x00" % i_, tmp)
            marks[i_] = r_
        for i_, r_ in marks.items():
            tmp = tmp.replace("\x00%d\x00" % i_, r_)
        return tmp
    out["ca"] = ca
    out["role"] = role

    class _Names(dict):
        def get(self_, k, default=None):
            return role.get(k, dict.get(self_, k, default))
    names = _Names(sx.names)
    out["names"] = names
    zk = {n: k for k, n in names.items() if n in ("z1", "z2", "z3", "f1", "f2", "f3")}
    stores = [ev for ev in sx.trace if ev["kind"] == "store"]
    # (a) TI as applied: first stores to z1..z3 that are combinations of the three stage atoms only
    TI = {}
    for ev in stores:
        nm = names.get(ev["key"])
        if nm in ("z1", "z2", "z3") and nm not in TI and isinstance(ev["value"], Poly):
            cf = coef(ev["value"], lambda a: a in Fn)
            if cf is not None and cf:
                TI[nm] = [cf.get(x, Fraction(0)) for x in Fn]
    out["TI"] = [TI.get(k) for k in ("z1", "z2", "z3")]
    # (b) mass terms: z_k = TI.F + coef * h^-1 * sum[-f_j * M]
    lam = {}
    for ev in stores:
        nm = names.get(ev["key"])
        if nm in ("z1", "z2", "z3") and isinstance(ev["value"], Poly):
            terms = {}
            ok = False
            for m, cf in ev["value"].t.items():
                sums = [a for a, e in m if a.startswith("sum[")]
                if sums:
                    ok = True
                    arg = DEFS[sums[0]][1][0]
                    which = None
                    for j, fb in enumerate(("f1", "f2", "f3")):
                        if any(ca(a).startswith(fb + "~") or ca(a).startswith("phi~" + fb) for a in arg.atoms()):
                            which = j
                    neg = all(c2 < 0 for c2 in arg.t.values())
                    rest = tuple((a, e) for a, e in m if a != sums[0])
                    terms[which] = (cf if neg else -cf, rest)
            if ok:
                lam[nm] = terms
    out["lam"] = lam
    # (c) T as applied: z_k = sum_j T_kj (f_j + w_j): stores to z after the linear solves, in terms of the f atoms
    T = {}
    for ev in stores:
        nm = names.get(ev["key"])
        if nm in ("z1", "z2", "z3") and isinstance(ev["value"], Poly):
            v = ev["value"]
            at = v.atoms()
            if at and all(ca(a).startswith(("f1~", "f2~", "f3~", "z1~call", "z2~call", "z3~call", "phi~f")) for a in at):
                row = [Fraction(0)] * 3
                good = True
                for m, cf in v.t.items():
                    if len(m) != 1:
                        good = False
                        break
                    a = ca(m[0][0])
                    j = {"f1": 0, "f2": 1, "f3": 2, "z1": 0, "z2": 1, "z3": 2}.get(a[:2])
                    if a.startswith("phi~f"):
                        j = int(a[5]) - 1
                    if a.startswith(("f", "phi~f")):
                        row[j] = cf
                if good:
                    T[nm] = row
    out["T"] = [T.get(k) for k in ("z1", "z2", "z3")]
    # (d) error weights: f1 = hee1*z1 + hee2*z2 + hee3*z3 with z = T(f+w): compare against DD via T
    for ev in stores:
        nm = names.get(ev["key"])
        if nm == "f1" and isinstance(ev["value"], Poly) and any(any(a == out["h_mono"][0][0] and e == -1 for a, e in m) for m in ev["value"].t):
            out["err_form"] = ev["value"]
    # (e) E1/E2 assembly
    asg = []
    for ev in sx.trace:
        lv = ev.get("lv") if ev["kind"] == "assign" else None
        if lv and len(lv) > 1 and role.get(lv[1]) in ("e1", "e2r", "e2i"):
            asg.append((role[lv[1]], ev["value"]))
    out["E"] = asg
    return out


def r_radau_const(rep, f):
    ex = extract(f)
    rep.fn(FN)
    key0 = "R-RADAU-CONST"
    for p in ex["problems"]:
        rep.inconc(key0, key0 + ":extract", p)
    if ex["problems"]:
        return None
    c_true, A = radau_A()
    Ainv = inv3(A)
    s6 = Decimal(6).sqrt()

    def close(a, b, scale=Decimal(1)):
        return abs(D(a) - D(b)) <= TOL * max(scale, abs(D(b)))

    # (1) nodes
    for j, (got, want) in enumerate(zip(ex["c"], c_true)):
        key = "%s:node%d" % (key0, j + 1)
        if close(got, want):
            rep.ok(key0, key, "stage %d evaluated at x + %s h" % (j + 1, str(D(got))[:18]))
        else:
            rep.violation(key0, key, "Newton stage %d is evaluated at x + %s*h; the Radau IIA node is %s" % (j + 1, D(got), str(want)[:20]), ex["hk"].main_loop.get("sp"))
    T, TI = ex["T"], ex["TI"]
    if None in T or None in TI:
        rep.inconc(key0, key0 + ":T", "cannot extract the transformation matrices as applied (T=%s, TI=%s)" % (T, TI))
        return ex
    Td = [[D(x) for x in row] for row in T]
    TId = [[D(x) for x in row] for row in TI]
    # (2) TI*T = I
    P = matmul(TId, Td)
    worst = max(abs(P[i][j] - (1 if i == j else 0)) for i in range(3) for j in range(3))
    key = key0 + ":TI*T"
    if worst <= TOL * 10:
        rep.ok(key0, key, "max |TI*T - I| = %.2e" % worst)
    else:
        rep.violation(key0, key, "the applied transformation matrices are not inverse to each other: max |TI*T - I| = %.3e" % worst, ex["hk"].main_loop.get("sp"))
    # (3) Lambda as applied in the right-hand sides
    lam = ex["lam"]
    L = [[Decimal(0)] * 3 for _ in range(3)]
    okl = True
    for k, nm in enumerate(("z1", "z2", "z3")):
        # use the last recorded form (contains all terms)
        terms = lam.get(nm)
        if not terms:
            okl = False
            continue
        for j, (cf, rest) in terms.items():
            if j is None or rest != tuple((a, -e) for a, e in ex["h_mono"]):
                okl = False
            else:
                L[k][j] = D(cf)
    key = key0 + ":lambda"
    if not okl:
        rep.inconc(key0, key, "cannot extract the (U1, alpha, beta)/h mass terms of the Newton right-hand sides: %s" % lam)
        return ex
    # T * L * TI == A^-1
    M = matmul(matmul(Td, L), TId)
    worst = max(abs(M[i][j] - Ainv[i][j]) for i in range(3) for j in range(3))
    scale = max(abs(x) for row in Ainv for x in row)
    if worst <= TOL * scale * 10:
        rep.ok(key0, key, "T*diag(U1,[[a,-b],[b,a]])*TI == A^-1 of Radau IIA (max residual %.2e): stability function is the (2,3) Pade approximant" % worst)
    else:
        rep.violation(key0, key, "T*Lambda*TI differs from the inverse Radau IIA matrix by %.3e (Lambda = %s): the Newton iteration solves a different method" % (worst, [[str(x)[:10] for x in r] for r in L]),
                      ex["hk"].main_loop.get("sp"))
    # structure of Lambda: [[u,0,0],[0,a,-b],[0,b,a]]
    key = key0 + ":lambda-structure"
    if L[0][1] == 0 and L[0][2] == 0 and L[1][0] == 0 and L[2][0] == 0 and L[1][1] == L[2][2] and L[1][2] == -L[2][1] and L[1][2] != 0:
        rep.ok(key0, key, "U1=%s alpha=%s beta=%s" % (str(L[0][0])[:12], str(L[1][1])[:12], str(L[2][1])[:12]))
    else:
        rep.violation(key0, key, "the mass terms do not have the block form diag(U1, [[alpha,-beta],[beta,alpha]]): %s" % [[str(x)[:8] for x in r] for r in L], ex["hk"].main_loop.get("sp"))
    # (4) E1/E2 assembly uses the same U1, alpha, beta
    key = key0 + ":E-assembly"
    want = {"e1": L[0][0], "e2r": L[1][1], "e2i": abs(L[2][1])}
    seen = {}
    for nm, v in ex["E"]:
        if not isinstance(v, Poly):
            continue
        for m, cf in v.t.items():
            if any(a.startswith("idx[") and "mass" in ex["ca"](a) for a, e in m):
                seen[nm] = D(cf)
        seen.setdefault(nm + ":jac", any(any(a.startswith("idx[") and "jac" in ex["ca"](a) for a, e in m) and cf == -1 for m, cf in v.t.items()))
    probs = []
    for nm, w in want.items():
        if nm not in seen:
            probs.append("no assignment to %s found" % nm)
        elif abs(seen[nm] - w) > TOL * 10:
            probs.append("%s is built with mass coefficient %s/h, the Newton right-hand side uses %s/h" % (nm, str(seen[nm])[:14], str(w)[:14]))
    if not seen.get("e1:jac") or not seen.get("e2r:jac"):
        probs.append("E1/E2r do not subtract the Jacobian")
    if seen.get("e2i:jac"):
        probs.append("E2i contains the Jacobian")
    if probs:
        rep.violation(key0, key, "; ".join(probs), ex["hk"].main_loop.get("sp"))
    else:
        rep.ok(key0, key, "E1 = (U1/h)M - J, E2 = (alpha/h)M - J + i(beta/h)M with the same constants as the right-hand sides")
    # (5) estimator weights
    ef = ex.get("err_form")
    key = key0 + ":estimator"
    if ef is None:
        rep.inconc(key0, key, "error-estimate form not found")
    else:
        # ef = sum_j w_j * (f_j + ..) / h with w = DD . T  (columns)
        dd = [(-13 - 7 * s6) / 3, (-13 + 7 * s6) / 3, Decimal(-1) / 3]
        want_w = [sum(dd[k] * Td[k][j] for k in range(3)) for j in range(3)]
        got_w = [Decimal(0)] * 3
        for m, cf in ef.t.items():
            for a, e in m:
                if ex["ca"](a).startswith(("f1~", "f2~", "f3~")) and e == 1:
                    got_w[int(ex["ca"](a)[1]) - 1] = D(cf)
        worst = max(abs(g - w) for g, w in zip(got_w, want_w))
        if worst <= TOL * 100:
            rep.ok(key0, key, "error-estimate weights are (-13-7*sqrt6)/3, (-13+7*sqrt6)/3, -1/3 (max residual %.2e)" % worst)
        else:
            rep.violation(key0, key, "error-estimate weights differ from the Radau IIA estimator by %.3e" % worst, ex["hk"].main_loop.get("sp"))
    return ex


def r_radau_dense(rep, f, ex=None, rule="R-AFF-COLLOC"):
    """Radau's dense output is the collocation polynomial: u(0) = y_old, u(c_i) = y_old + Z_i, u(1) = y_new"""
    import aff
    if ex is None:
        ex = extract(f)
    if ex["problems"]:
        rep.inconc(rule, rule + ":radau:extract", "; ".join(ex["problems"]))
        return
    sx, hk = ex["sx"], ex["hk"]
    recs = [r for r in hk.interp_calls if r["in_main"]]
    if len(recs) != 1 or recs[0]["fn"] is None:
        rep.inconc(rule, rule + ":radau:site", "expected one StepInterpolant::new in RADAU::solve")
        return
    r = recs[0]
    rep.fn(r["fn"])
    try:
        u, isx = rk.analyse_interpolate(f, r["fn"])
    except rk.AnalysisError as e:
        rep.inconc(rule, rule + ":radau:interp", str(e))
        return
    is_view = lambda w: str(w).startswith(("mutable-view", "view-"))
    imp_ = [w for w, n_ in getattr(isx, "imprecise", []) if is_view(w)] + [w for w in rk.imprecise_in_main(sx, hk) if is_view(w)]
    if imp_ or u is None:
        rep.inconc(rule, rule + ":radau:views", "the coefficient blocks are read or written through views the block model of vector buffers does not follow (%s): the stored polynomial is not derivable" % (imp_[0] if imp_ else "interpolate does not write yi componentwise"), r["node"].get("sp"))
        return
    cont = r["cont"]
    mapping = {"HH": r["h"], "XOLD": r["xold"]}
    for a in u.atoms():
        if a.startswith("cont@"):
            k = int(a.split("@")[1])
            if k in cont.blocks:
                mapping[a] = cont.blocks[k]
            else:
                views_ = tast.find(hk.main_loop, lambda z: z.get("k") == "MethodCall" and z.get("name") in ("split_at_mut", "chunks_mut", "chunks_exact_mut", "split_first_mut", "split_last_mut", "iter_mut")
                                   and "f64" in (z["recv"].get("ty") or "")) if hk.main_loop is not None else []
                if views_:
                    rep.inconc(rule, rule + ":radau:views", "RADAU::solve writes coefficient blocks through mutable views (%s) the block model of vector buffers does not follow: the stored polynomial is not derivable" % tast.render(views_[0])[:50], r["node"].get("sp"))
                    return
                rep.violation(rule, rule + ":radau:blocks", "RADAU::interpolate reads block %d that the accepted path never writes" % k, r["node"].get("sp"))
                return
    uu = u.subst(mapping)
    # Z_i as stored by the back-transformation (last stores to z1..z3), y_new
    names = ex["names"]
    ca = ex["ca"]
    Z = {}
    for ev in sx.trace:
        if ev["kind"] == "store" and names.get(ev["key"]) in ("z1", "z2", "z3") and isinstance(ev["value"], Poly):
            at = ev["value"].atoms()
            if at and all(ca(a).startswith(("f1~", "f2~", "f3~", "z1~call", "z2~call", "z3~call", "phi~f")) for a in at):
                Z[names.get(ev["key"])] = ev["value"]
    if len(Z) != 3:
        rep.inconc(rule, rule + ":radau:Z", "stage increments not found")
        return
    pts = [("left", Fraction(0), Poly()), ("node1", ex["c"][0], Z["z1"]), ("node2", ex["c"][1], Z["z2"]), ("right", ex["c"][2], Z["z3"])]
    for nm, th, want in pts:
        val = uu.subst({"TH": Poly.const(th)}) - Poly.atom("Y")
        diff = val - want
        worst = max([abs(D(c)) for c in diff.t.values()] or [Decimal(0)])
        scale = max([abs(D(c)) for c in want.t.values()] or [Decimal(1)])
        key = "%s:radau:%s" % (rule, nm)
        if worst <= TOL * 1000 * max(scale, Decimal(1)):
            rep.ok(rule, key, "u(%s) - y_old == %s (max coefficient residual %.2e)" % (str(D(th))[:8], "0" if nm == "left" else "Z_" + nm[-1] if nm.startswith("node") else "Z_3 = y_new - y_old", worst))
        else:
            rep.violation(rule, key, "Radau's interpolant at theta=%s differs from the collocation value by a coefficient of %.3e" % (str(D(th))[:8], worst), r["node"].get("sp"))


def r_radau_start(rep, f, ex=None, rule="R-RADAU-START"):
    """Newton's starting values are the previous step's collocation polynomial continued to the new stage points:
    z_j = u_prev(1 + c_j * h / h_prev) - y, with u_prev the polynomial RADAU::interpolate evaluates over the same `cont`
    blocks and h_prev the step that was accepted last (the variable whose value after an accepted step is the step taken).
    Checked as a polynomial identity in the cont blocks; decides which way round the step ratio is."""
    if ex is None:
        ex = extract(f)
    if ex["problems"]:
        rep.inconc(rule, rule + ":extract", "; ".join(ex["problems"]))
        return
    sx, hk = ex["sx"], ex["hk"]
    names, ca = ex["names"], ex["ca"]
    recs = [r for r in hk.interp_calls if r["in_main"]]
    if len(recs) != 1 or recs[0]["fn"] is None:
        rep.inconc(rule, rule + ":site", "expected one StepInterpolant::new in RADAU::solve")
        return
    try:
        u, isx = rk.analyse_interpolate(f, recs[0]["fn"])
    except rk.AnalysisError as e:
        rep.inconc(rule, rule + ":interp", str(e))
        return
    imp_ = [w for w, n_ in getattr(isx, "imprecise", []) if str(w).startswith(("mutable-view", "view-"))]
    if imp_ or u is None:
        rep.inconc(rule, rule + ":views", "RADAU::interpolate reads its coefficient blocks through views the block model of vector buffers does not follow (%s): the polynomial the "
                   "starting values continue is not derivable" % (imp_[0] if imp_ else "interpolate does not write yi componentwise"), recs[0]["node"].get("sp"))
        return
    # starting values: the first non-zero store to each z_j in the main loop that is built from the blocks of one buffer
    # (`B@k` atoms) only, with no stage value in it
    H = Poly({ex["h_mono"]: 1})
    hat = H.single_atom()
    start = {}
    for ev in sx.trace:
        if ev["kind"] != "store" or not isinstance(ev.get("value"), Poly) or ev["value"].is_zero():
            continue
        nm = names.get(ev["key"])
        if nm in ("z1", "z2", "z3") and nm not in start:
            at = ev["value"].atoms()
            if any("@" in a for a in at) and not any(a in ex["F"] or ca(a).startswith(("f1", "f2", "f3", "z1~call", "z2~call", "z3~call", "phi~f", "phi~z")) for a in at):
                start[nm] = ev["value"]
    if len(start) != 3:
        rep.inconc(rule, rule + ":stores", "starting values of the Newton iteration not found (%s)" % sorted(start))
        return
    bases = {a.rsplit("@", 1)[0] for v in start.values() for a in v.atoms() if "@" in a}
    if len(bases) != 1:
        rep.inconc(rule, rule + ":cont", "starting values read more than one buffer: %s" % sorted(bases))
        return
    cbase = bases.pop()
    # candidates for h_prev: scalars that divide (negative exponent) in the starting values
    vars_ = {a for v in start.values() for m in v.t for a, e in m if e < 0 and "@" not in a}
    vars_ |= {a for v in start.values() for m in v.t for a, e in m if "@" not in a and a != hat and DEFS.get(a, ("",))[0] == "widen"}

    def expected(r):
        out = {}
        for j, nm in enumerate(("z1", "z2", "z3")):
            th = Poly.const(1) + Poly.const(ex["c"][j]) * r
            val = u.subst({"TH": th})
            # u = cont@0 + ...: the increment is u - block 0
            val = val - Poly.atom("cont@0")
            ren = {a: Poly.atom(a.replace("cont@", "__B")) for a in val.atoms() if a.startswith("cont@")}
            out[nm] = val.subst(ren)
        return out

    def canon(v):
        ren = {a: Poly.atom("__B" + a.rsplit("@", 1)[1]) for a in v.atoms() if "@" in a and a.rsplit("@", 1)[0] == cbase}
        return v.subst(ren)

    def residual(r):
        ex_ = expected(r)
        worst = Decimal(0)
        for nm in ("z1", "z2", "z3"):
            d = canon(start[nm]) - ex_[nm]
            for c in d.t.values():
                worst = max(worst, abs(D(c)))
        return worst
    key = rule + ":" + FN
    from poly import opaque
    tried = []
    for v in sorted(vars_):
        if v == hat:
            continue
        V = Poly.atom(v)
        r_ok = H * Poly({((v, -1),): 1})
        r_inv = V * Poly({((hat, -1),): 1})
        w1 = residual(r_ok)
        tried.append((v, w1))
        if w1 <= TOL * 1000:
            # is V the previously accepted step?
            vk = [k for k, hv in (hk.head or {}).items() if isinstance(hv, Poly) and hv.single_atom() == v]
            acc_ok = False
            for L in hk.latch or []:
                for k in vk:
                    lv = L.get(k)
                    if isinstance(lv, Poly) and lv == H:
                        acc_ok = True
            if acc_ok or not vk:
                rep.ok(rule, key, "z_j = u_prev(1 + c_j*h/h_prev) - y for j = 1..3 as polynomial identities in the dense blocks (max residual %.1e); h_prev is the step accepted last" % w1)
            else:
                rep.violation(rule, key, "the starting values are extrapolated with the ratio h/%s, but %s is not the step accepted last" % (v, v), hk.main_loop.get("sp"))
            return
        w2 = residual(r_inv)
        if w2 <= TOL * 1000:
            rep.violation(rule, key, "Newton's starting values are extrapolated with the inverted step ratio h_prev/h (u_prev is evaluated at 1 + c_j*h_prev/h instead of 1 + c_j*h/h_prev): "
                          "the predictor is wrong whenever the step size changes, Newton needs more iterations or diverges on stiff problems", hk.main_loop.get("sp"))
            return
    rep.violation(rule, key, "Newton's starting values are not the previous collocation polynomial continued to the new stage points (no step ratio h/h_prev reproduces them; tried %s)"
                  % [(t[0][:20], "%.1e" % t[1]) for t in tried[:3]], hk.main_loop.get("sp"))
