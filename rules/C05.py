"""C05 t_eval: exactly the requested times, with the interpolated values."""
import facts
import handler as H
import obs

LEVEL = "other"


def run(rep, tier):
    f = facts.load("default")
    hc = H.HandlerCtx(f)
    if hc.body is None:
        rep.inconc("anchor", "anchor:DefaultSolOut::solout", "default output handler not found")
        return
    rep.fn(hc.body["def"])
    rep.rule("R-TEVAL-VERBATIM", "in t_eval mode every reported time is a plain read of t_eval[i] (no arithmetic) and the state reported with it is the step interpolant evaluated at that same t_eval[i] (the step-end state only under the initial-callback test)")
    rep.rule("R-TEVAL-WINDOW", "every interpolated sample is guarded by a comparison of the same t_eval[i] with the step start xold, in the form matching the direction (t >= xold - tol forward, t <= xold + tol backward)")
    rep.rule("R-NEXTIDX-MONO", "the t_eval cursor only advances by += 1 steps")
    rep.rule("R-TEVAL-BEFORE-INTERRUPT", "every path that returns Interrupt has passed a t_eval sampling region")
    rep.rule("R-TERM-POINT", "the last sample pushed before Interrupt is the terminal event's (time, state)")
    rep.rule("R-PUSH-PAIR", "every t.push is followed by its y.push on every path")
    rep.rule("R-OBS-FIELDS", "Options::t_eval / dense_output are read only in solve_ivp and reach only the output handler and the ContinuousOutput gating")
    H.r_teval_verbatim(rep, hc)
    H.r_teval_window(rep, hc)
    rep.rule("R-DIR-MIRROR", "every `if forward { A } else { B }` comparison pair of time points in the handler is symmetric under time reflection")
    H.r_dir_mirror(rep, hc)
    rep.rule("R-TIME-MINMAX", "time points in the output handler are never ordered with a bare min/max/clamp (direction-dependent): only sorted pairs or under a direction test")
    H.r_time_minmax(rep, hc)
    rep.rule("R-TIME-ORDER", "an ordering test between two time points (a time difference compared with a tolerance, not under abs) is never evaluated in the same form for both directions of integration")
    H.r_time_order(rep, hc)
    H.r_nextidx_mono(rep, hc)
    H.r_teval_before_interrupt(rep, hc)
    H.r_term(rep, hc)
    H.r_push_pair(rep, hc)
    obs.r_obs_fields(rep, f)
    rep.rule("R-TEVAL-PASSTHROUGH", "solve_ivp hands Options::t_eval to the output handler unmodified (clones / reborrows only: no sort, reverse, filter or map)")
    obs.r_teval_passthrough(rep, f)
    rep.rule("R-TEVAL-SHORTCUT", "returns of solve_ivp that bypass the output handler (zero-length span, empty state) report, when t_eval is given, a selection of t_eval itself (clone/iter/filter/copied/collect)")
    obs.r_teval_shortcut(rep, f)
    rep.explanation = ("Structural, all paths: provenance of every (time, state) pair the default output handler reports in t_eval mode, "
                       "monotone cursor, sampling before a terminal return, terminal point last, independence from dense_output. "
                       "Not decided: which t_eval[i] fall inside [xold-tol, x+tol] (float comparisons on run-time data); interpolant accuracy (C07).")
