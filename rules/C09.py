"""C09 No sign change between accepted steps goes unreported."""
import facts
import handler as H
from protocol import acc_rule

LEVEL = "other"


def run(rep, tier):
    f = facts.load("default")
    hc = H.HandlerCtx(f)
    if hc.body is None:
        rep.inconc("anchor", "anchor:DefaultSolOut::solout", "default output handler not found")
        return
    rep.fn(hc.body["def"])
    rep.rule("R-CROSSED-TABLE", "strict opposite signs in the configured direction => detected; same strict sign => not (exhaustive table)")
    rep.rule("R-PREV-UPDATE", "on every path (incl. the terminal return) the current event values become the previous ones; every non-terminal path refreshes the saved previous state")
    rep.rule("R-EVT-LOOP", "the detection loop examines every event function 0..n_events (no break/continue/return skipping an index)")
    rep.rule("R-EVT-ONE", "a detected crossing reaches exactly one record on every path through the root finder; no record otherwise; the test compares prev_event[i] with the current value under the event's own direction")
    rep.rule("R-SOLOUT-ONCE", "the handler sees every accepted step exactly once (all six solvers)")
    H.r_crossed_table(rep, hc)
    H.r_prev_update(rep, hc)
    H.r_evt_loop_one(rep, hc)
    rep.rule("R-EVT-INIT", "crossing detection is switched off only on the initial callback: the test compares xold with x, or reads handler fields that every non-terminal path of every callback writes")
    H.r_evt_init_mark(rep, hc)
    rep.rule("R-EVT-SORT", "events detected in one step are processed in the order of integration (a terminal event must not pre-empt an earlier sign change of another function)")
    H.r_evt_sort(rep, hc)
    rep.rule("R-EVT-PAIR", "every evaluation of the event functions in the handler is made at a consistent (time, state) pair: (x, y) or (t, interpolant(t)) for the same t")
    H.r_evt_eval_pair(rep, hc)
    rep.rule("R-EVT-CURR", "the buffer holding the event values at the step end is not overwritten (by an evaluation at another point, or element-wise) before every per-event read of the current value and the copy into prev_event")
    H.r_evt_curr_stable(rep, hc)
    acc_rule(rep, f, rule="R-SOLOUT-ONCE")
    rep.rule("R-CONFIG-FRAME", "each &mut self setter of EventConfig writes exactly one of the two settings (direction filter, terminal count) and leaves the other as configured")
    H.r_config_frame(rep, f)
    rep.rule("R-DIR-FROM", "the integer conversion into Direction selects by sign (exact evaluation at the function's literals, their neighbours and the i32 range ends)")
    H.r_dir_from(rep, f)
    rep.rule("R-PREV-STABLE", "no write to prev_event (output argument of a call, copy/fill, element store) inside a loop that reads the stored start-of-step event values")
    H.r_prev_stable(rep, hc)
    rep.explanation = ("Largely decided structurally: complete truth table of the sign-change test, previous-value bookkeeping on all paths, "
                       "exactly one record per crossing per step, every accepted step reaches the handler once. Not decided: root location accuracy.")
