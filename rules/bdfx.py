"""BDF/NDF core identities, decided by exact evaluation (engine/cx.py) for every order 1..MAX_ORDER.

The difference table D_j = nabla^j y_n is the whole state of the method; four pieces of code must agree on what it means:
  R-BDF-RESCALE  change_d(D, k, theta) turns the differences for spacing h into those for spacing theta*h
  R-BDF-PREDICT  the predictor sum over D_0..D_k is the value at x + h of the polynomial through the last k+1 points
  R-BDF-CORRECT  the corrector residual  c*f - psi - delta  vanishes for a polynomial solution of degree <= k (order k)
  R-BDF-UPDATE   after acceptance D holds nabla^j y_(n+1), j = 0..k+2
Each is a polynomial identity in the symbols (polynomial coefficients / past values, h, theta), hence true for all data.
"""
from fractions import Fraction
from math import comb

import tast
import cx as CX
from cx import CxUnknown, POISON, run_best_effort
from cxs import CxS as _CxS


class Cx(_CxS):
    """the exact evaluator, tolerant of tests it cannot decide (what their branches assign becomes undetermined)"""
    lenient_if = True
from poly import Poly
from protocol import main_loop_of, SOLOUT

SOLVE = "methods::bdf::BDF::solve"
CHANGE_D = "methods::bdf::change_d"
ODE = "ivp::IVP::ode"


def pval(coeffs, x):
    r = Poly()
    for m, a in enumerate(coeffs):
        r = r + (a * (x ** m) if m else a)
    return r


def pder(coeffs, x):
    r = Poly()
    for m, a in enumerate(coeffs):
        if m >= 1:
            r = r + Poly.const(m) * a * (x ** (m - 1) if m > 1 else Poly.const(1))
    return r


def nabla(vals):
    """backward differences of a sequence given newest first: nabla^j v_0 = sum (-1)^i C(j,i) v_i"""
    out = []
    for j in range(len(vals)):
        s = Poly()
        for i in range(j + 1):
            s = s + Poly.const(Fraction((-1) ** i * comb(j, i))) * vals[i]
        out.append(s)
    return out


def unwrap(e):
    while e is not None and e.get("k") in ("ExprStmt", "Semi", "DropTemps"):
        e = e.get("e")
    return e


def max_order_of(f, cxi):
    b = f.bodies.get("methods::bdf::MAX_ORDER")
    if b is None:
        return None
    try:
        v = cxi.ev(b["body"], {})
    except CxUnknown:
        return None
    return v if isinstance(v, int) else None


def r_bdf_rescale(rep, f):
    key = "R-BDF-RESCALE:%s" % CHANGE_D
    if CHANGE_D not in f.bodies:
        rep.inconc("R-BDF-RESCALE", key, "change_d not found")
        return
    rep.fn(CHANGE_D)
    th, h = Poly.atom("theta"), Poly.atom("h")
    mo = max_order_of(f, Cx(f)) or 5
    bad = []
    steps = 0
    for k in range(1, mo + 1):
        coeffs = [Poly.atom("a%d" % m) for m in range(k + 1)]
        D = nabla([pval(coeffs, Poly.const(-i) * h) for i in range(k + 1)])
        rows = mo + 3
        d = [[D[j]] if j <= k else [Poly.atom("hi%d" % j)] for j in range(rows)]
        keep = [r[0] for r in d]
        scratch = [[Poly()] for _ in range(mo + 1)]
        c = Cx(f)
        try:
            c.call_fn(CHANGE_D, [d, k, th, scratch])
        except CxUnknown as ex:
            rep.inconc("R-BDF-RESCALE", key, "order %d: %s" % (k, ex))
            return
        steps += c.steps
        want = nabla([pval(coeffs, Poly.const(-i) * th * h) for i in range(k + 1)])
        for j in range(k + 1):
            if d[j][0] != want[j]:
                bad.append("order %d: after rescaling by theta, D[%d] is %s, not the %d-th backward difference for spacing theta*h (difference %s)"
                           % (k, j, repr(d[j][0])[:80], j, repr(d[j][0] - want[j])[:80]))
                break
        for j in range(k + 1, rows):
            if d[j][0] != keep[j]:
                bad.append("order %d: row %d above the current order is modified" % (k, j))
                break
    if bad:
        rep.violation("R-BDF-RESCALE", key, bad[0], f.bodies[CHANGE_D].get("sp"))
    else:
        rep.ok("R-BDF-RESCALE", key, "orders 1..%d: change_d maps nabla_h^j p to nabla_(theta h)^j p, j = 0..k, identically in theta, h and the coefficients of p (%d evaluation steps)" % (mo, steps))


class Roles:
    pass


def find_roles(f):
    """locals of BDF::solve by role, from how change_d is called"""
    b = f.bodies.get(SOLVE)
    if b is None:
        return None
    ml = main_loop_of(b)
    if ml is None:
        return None
    r = Roles()
    r.body, r.main = b, ml
    calls = [c for c in tast.find(b["body"], lambda z: z.get("k") == "Call" and z.get("def") == CHANGE_D)]
    if not calls:
        return None

    def lid(e):
        while e is not None and e.get("k") in ("AddrOf", "DropTemps", "Unary", "Paren"):
            e = e.get("e")
        return e["id"] if e is not None and e.get("k") == "Path" and e.get("res") == "local" else None
    r.d, r.order, r.scratch = lid(calls[0]["args"][0]), lid(calls[0]["args"][1]), lid(calls[0]["args"][3])
    if r.d is None or r.order is None:
        return None
    # every local with its declared type
    r.locals = {}
    for l in tast.find(b["body"], lambda z: z.get("k") == "Let"):
        for pb in tast.find(l["pat"], lambda z: z.get("k") == "PBind"):
            r.locals[pb["id"]] = (pb.get("name"), pb.get("ty") or "")
    for p in b.get("params", []):
        for pb in tast.find(p, lambda z: z.get("k") == "PBind"):
            r.locals[pb["id"]] = (pb.get("name"), pb.get("ty") or "")
    r.top = [unwrap(s) for s in ml["body"].get("stmts", [])]
    return r


def base_env(r, k, rows):
    env = {}
    for lid_, (nm, ty) in r.locals.items():
        t = ty.replace(" ", "")
        if lid_ == r.order:
            env[lid_] = k
        elif t in ("std::vec::Vec<f64>", "&[f64]", "&mut[f64]"):
            env[lid_] = [Poly.atom(nm)]
        elif t == "std::vec::Vec<std::vec::Vec<f64>>":
            env[lid_] = [[Poly.atom("%s_%d" % (nm, j))] for j in range(rows)]
        elif t == "f64":
            env[lid_] = Poly.atom(nm)
        elif t.endswith("methods::Tolerance") or t.endswith("Tolerance"):
            env[lid_] = [Poly.atom(nm)]      # per-component tolerances: one generic component, like the state vectors
        elif t == "usize" and nm == "n":
            env[lid_] = 1
        else:
            env[lid_] = POISON
    return env


def coefficient_tables(f, r, cxi, env):
    """evaluate the statements before the main loop that fill the [f64; N] coefficient arrays"""
    pre = []
    for s in r.body["body"].get("stmts", []):
        e = unwrap(s)
        if e is r.main or tast.contains(e, lambda z: z is r.main):
            break
        pre.append(e)
    arrays = {lid_ for lid_, (nm, ty) in r.locals.items() if ty.replace(" ", "").startswith("[f64;")}
    todo = [e for e in pre if (e.get("k") == "Let" and any(pb["id"] in arrays for pb in tast.find(e["pat"], lambda z: z.get("k") == "PBind")))
            or (e.get("k") == "For" and CX.written_locals(e) & arrays)]
    run_best_effort(cxi, todo, env)
    return arrays


def r_bdf_core(rep, f):
    r = find_roles(f)
    for rule in ("R-BDF-PREDICT", "R-BDF-CORRECT", "R-BDF-UPDATE", "R-BDF-COEFF"):
        pass
    if r is None:
        rep.inconc("R-BDF-CORRECT", "R-BDF-CORRECT:%s" % SOLVE, "BDF::solve / its difference table not identified")
        return
    rep.fn(SOLVE)
    cx0 = Cx(f)
    mo = max_order_of(f, cx0) or 5
    rows = mo + 3
    # region boundaries in the main loop
    top = r.top
    i_total = next((i for i, e in enumerate(top) if e.get("k") == "AssignOp" and tast.is_field_write(e, "Steps::total")), None)
    i_acc = next((i for i, e in enumerate(top) if e.get("k") == "AssignOp" and tast.is_field_write(e, "Steps::accepted")), None)
    i_lu = next((i for i, e in enumerate(top) if tast.contains(e, lambda z: z.get("k") == "Call" and (z.get("def") or "").endswith("lu::lu_decomp"))), None)
    i_newton = next((i for i, e in enumerate(top) if e.get("k") in ("Loop", "While") and tast.contains(e, lambda z: z.get("k") == "MethodCall" and z.get("def") == ODE)), None)
    i_cb = next((i for i, e in enumerate(top) if i_acc is not None and i > i_acc and tast.contains(e, lambda z: z.get("k") == "MethodCall" and z.get("def") == SOLOUT)), None)
    if None in (i_total, i_acc, i_lu, i_newton, i_cb) or not (i_total < i_lu < i_newton < i_acc < i_cb):
        rep.inconc("R-BDF-CORRECT", "R-BDF-CORRECT:%s" % SOLVE, "main-loop regions not identified (total %s, lu %s, newton %s, accepted %s, callback %s)" % (i_total, i_lu, i_newton, i_acc, i_cb))
        return
    newton = top[i_newton]
    nb = newton["body"]
    if newton.get("src") == "While" and not nb.get("stmts") and (nb.get("tail") or {}).get("k") == "If":
        nb = nb["tail"]["then"]          # `while c { body }` is stored as loop { if c { body } else { break } }
    nbody = [unwrap(s) for s in nb.get("stmts", [])]
    probs = {"R-BDF-PREDICT": [], "R-BDF-CORRECT": [], "R-BDF-UPDATE": [], "R-BDF-COEFF": []}
    notes = {"R-BDF-PREDICT": [], "R-BDF-CORRECT": [], "R-BDF-UPDATE": [], "R-BDF-COEFF": []}
    done = {"R-BDF-PREDICT": 0, "R-BDF-CORRECT": 0, "R-BDF-UPDATE": 0, "R-BDF-COEFF": 0}
    hname = None
    for k in range(1, mo + 1):
        # ---------------- prediction + corrector: a polynomial solution of degree <= k
        rec = {}

        def extern(c, node, d, env):
            if d == ODE and node.get("k") == "MethodCall" and len(node["args"]) == 3:
                t = CX.deref(c.ev(node["args"][0], env))
                yv = CX.deref(c.ev(node["args"][1], env))
                out = CX.deref(c.ev(node["args"][2], env))
                rec["ode"] = (t, list(yv) if isinstance(yv, list) else yv)
                if isinstance(out, list):
                    out[0] = Poly.atom("F")
                return None
            if d.endswith("linear::lin_solve") and len(node.get("args", [])) == 3:
                v = CX.deref(c.ev(node["args"][1], env))
                if isinstance(v, list):
                    rec.setdefault("residual", list(v))
                    v[0] = Poly.atom("dy")
                return None
            return NotImplemented
        c = Cx(f, extern=extern)
        env = base_env(r, k, rows)
        arrays = coefficient_tables(f, r, c, env)
        hs = [lid_ for lid_, (nm, ty) in r.locals.items() if ty == "f64" and nm in ("h_signed",)]
        # the signed step of this iteration: the local divided by alpha[order] in `c`, found after evaluation below
        skipped = run_best_effort(c, top[i_total + 1:i_lu], env)
        # Newton body, up to and including the first linear solve
        upto = next((j for j, e in enumerate(nbody) if tast.contains(e, lambda z: z.get("k") == "Call" and (z.get("def") or "").endswith("linear::lin_solve"))), None)
        if upto is None:
            notes["R-BDF-CORRECT"].append("no linear solve in the Newton loop")
            continue
        # Newton starts from the predictor with delta = 0: evaluate the statements between the LU block and the loop first
        run_best_effort(c, top[i_lu + 1:i_newton], env)
        # a later Newton iteration: the vectors reset to zero before the loop hold an arbitrary accumulated correction
        for lid_, (nm, ty) in r.locals.items():
            v_ = env.get(lid_)
            if ty.replace(" ", "") == "std::vec::Vec<f64>" and isinstance(v_, list) and len(v_) == 1 and isinstance(v_[0], Poly) and v_[0].is_zero():
                env[lid_] = [Poly.atom(nm)]
        run_best_effort(c, nbody[:upto + 1], env)
        # the rest of the iteration: the increment dy returned by the linear solve updates the iterate and the accumulated
        # correction alike (y_new = y_predict + delta is the invariant the residual relies on)
        before = {lid_: list(v_) for lid_, v_ in env.items() if isinstance(v_, list) and len(v_) == 1 and isinstance(v_[0], Poly)}
        run_best_effort(c, nbody[upto + 1:], env)
        dy = Poly.atom("dy")
        moved = {}
        for lid_, v0 in before.items():
            v1 = env.get(lid_)
            if isinstance(v1, list) and len(v1) == 1 and isinstance(v1[0], Poly) and v1[0] != v0[0]:
                moved[r.locals.get(lid_, ("?", ""))[0]] = v1[0] - v0[0]
        rec["moved"] = moved
        if "residual" not in rec or "ode" not in rec:
            notes["R-BDF-CORRECT"].append("order %d: the Newton residual was not reached by the evaluation (%s)" % (k, "; ".join(m for _, m in skipped)[:160]))
            continue
        R = rec["residual"][0]
        t_arg, y_arg = rec["ode"]
        ypred = y_arg[0] if isinstance(y_arg, list) else None
        if not isinstance(R, Poly) or not isinstance(ypred, Poly):
            notes["R-BDF-CORRECT"].append("order %d: residual / predictor are not scalar polynomials" % k)
            continue
        # symbols: d_j (table rows), F (the derivative), the signed step (any other f64 local in R), delta
        dsyms = [Poly.atom("%s_%d" % (r.locals[r.d][0], j)) for j in range(rows)]
        others = sorted(a for a in R.atoms() if a != "F" and not a.startswith(r.locals[r.d][0] + "_"))
        # delta is the Vec<f64> local appearing linearly with coefficient -1 and not multiplied by anything
        steps_ = [a for a in others if any(a in [b for b, _ in m] and any(b == "F" for b, _ in m) for m in R.t)]
        if len(steps_) != 1:
            notes["R-BDF-CORRECT"].append("order %d: the step multiplying f in the residual is not a single symbol (%s)" % (k, steps_))
            continue
        hname = steps_[0]
        h = Poly.atom(hname)
        coeffs = [Poly.atom("a%d" % m) for m in range(k + 1)]
        D = nabla([pval(coeffs, Poly.const(-i) * h) for i in range(k + 1)])
        sub = {("%s_%d" % (r.locals[r.d][0], j)): (D[j] if j <= k else Poly()) for j in range(rows)}
        sub["F"] = pder(coeffs, h)
        for a in others:
            if a != hname:
                sub[a] = Poly()      # delta (the correction accumulated so far): 0 at the exact polynomial solution
        Rp = R.subst(sub)
        yp = ypred.subst(sub)
        done["R-BDF-PREDICT"] += 1
        if yp != pval(coeffs, h):
            probs["R-BDF-PREDICT"].append("order %d: the predictor is %s; for a polynomial p of degree <= %d through the stored points it differs from p(x + h) by %s"
                                          % (k, repr(ypred)[:100], k, repr(yp - pval(coeffs, h))[:100]))
        done["R-BDF-CORRECT"] += 1
        if not Rp.is_zero():
            probs["R-BDF-CORRECT"].append("order %d: with D_j = nabla^j p, f = p'(x + h) and delta = 0 (p a polynomial of degree <= %d, an exact solution) the Newton residual `%s` is %s, not 0: "
                                          "the corrector is not a method of order %d" % (k, k, repr(R)[:120], repr(Rp)[:120], k))
        # the residual is G(delta) = c*f - psi - delta: the accumulated correction enters with coefficient -1 (its root is the
        # NDF solution and dG/d(delta) = c*J - I is the matrix the iteration factorises, R-BDF-MATRIX)
        rest = [a for a in others if a != hname]
        if len(rest) == 1:
            col = R.collect(rest[0])
            if set(col) - {0, 1} or col.get(1, Poly()) != Poly.const(-1):
                probs["R-BDF-CORRECT"].append("order %d: the accumulated correction `%s` enters the Newton residual `%s` with coefficient %r, not -1" % (k, rest[0], repr(R)[:120], col.get(1, Poly())))
        else:
            notes["R-BDF-CORRECT"].append("order %d: the accumulated correction is not a single symbol of the residual (%s)" % (k, rest))
        mv = rec.get("moved", {})
        ynm = None
        if isinstance(y_arg, list):
            # name of the iterate handed to f: the Vec<f64> local whose value is the predictor
            for lid_, (nm_, ty_) in r.locals.items():
                v_ = before.get(lid_)
                if v_ is not None and v_[0] == ypred and nm_ != r.locals[r.d][0] and mv.get(nm_) is not None:
                    ynm = nm_
        if len(rest) == 1 and ynm is not None:
            if mv.get(ynm) != dy or mv.get(rest[0]) != dy:
                probs["R-BDF-CORRECT"].append("order %d: the Newton increment dy moves the iterate `%s` by %r and the accumulated correction `%s` by %r (both must move by dy)"
                                              % (k, ynm, mv.get(ynm), rest[0], mv.get(rest[0])))
        else:
            notes["R-BDF-CORRECT"].append("order %d: Newton update of iterate / correction not identified (%s)" % (k, sorted(mv)))
        # coefficient tables: alpha_k + error_const_k == gamma_k + 1/(k+1)  (both built from the same kappa)
        tabs = {r.locals[a][0]: env.get(a) for a in arrays}
        g_, a_, e_ = tabs.get("gamma"), tabs.get("alpha"), tabs.get("error_const")
        if all(isinstance(t_, list) and len(t_) > k for t_ in (g_, a_, e_)) and all(isinstance(t_[k], Poly) for t_ in (g_, a_, e_)):
            done["R-BDF-COEFF"] += 1
            if a_[k] + e_[k] != g_[k] + Poly.const(Fraction(1, k + 1)):
                probs["R-BDF-COEFF"].append("order %d: alpha + error_const = %r but gamma + 1/(k+1) = %r: the two tables are not built from the same kappa"
                                            % (k, a_[k] + e_[k], g_[k] + Poly.const(Fraction(1, k + 1))))
            H = sum((Fraction(1, j) for j in range(1, k + 1)), Fraction(0))
            if g_[k] != Poly.const(H):
                probs["R-BDF-COEFF"].append("order %d: gamma[%d] = %r is not the harmonic number %s" % (k, k, g_[k], H))
        # ---------------- table update after acceptance: arbitrary past values Y1.., new value Y0
        c2 = Cx(f)
        env2 = base_env(r, k, rows)
        Y = [Poly.atom("Y%d" % i) for i in range(rows + 1)]
        Dn = nabla(Y[1:])            # differences at the old point: nabla^j y_n
        env2[r.d] = [[Dn[j]] for j in range(rows)]
        pred = Poly()
        for j in range(k + 1):
            pred = pred + Dn[j]
        delta_val = Y[0] - pred
        for lid_, (nm, ty) in r.locals.items():
            if ty.replace(" ", "") == "std::vec::Vec<f64>" and lid_ != r.d:
                env2[lid_] = [Poly.atom(nm)]
        # delta is the vector the update reads: set every Vec<f64> read in the region to its role value by name of use:
        region = top[i_acc + 1:i_cb]
        reads = set()
        for e in region:
            for q in tast.find(e, lambda z: z.get("k") == "Path" and z.get("res") == "local"):
                reads.add(q["id"])
        vec_reads = [lid_ for lid_ in reads if r.locals.get(lid_, ("", ""))[1].replace(" ", "") == "std::vec::Vec<f64>"]
        # candidates for `delta`: Vec<f64> locals read by statements that write the table
        writers = [e for e in region if r.d in CX.written_locals(e)]
        cands = set()
        for e in writers:
            for q in tast.find(e, lambda z: z.get("k") == "Path" and z.get("res") == "local" and z.get("id") in vec_reads):
                cands.add(q["id"])
        if len(cands) != 1:
            notes["R-BDF-UPDATE"].append("order %d: the correction vector read by the table update is not unique (%s)" % (k, [r.locals[c_][0] for c_ in cands]))
            continue
        env2[next(iter(cands))] = [delta_val]
        sk2 = run_best_effort(c2, writers, env2)
        if sk2:
            notes["R-BDF-UPDATE"].append("order %d: %s" % (k, sk2[0][1]))
            continue
        newd = env2[r.d]
        want = nabla(Y[:rows])
        done["R-BDF-UPDATE"] += 1
        for j in range(k + 3):
            if newd[j][0] != want[j]:
                probs["R-BDF-UPDATE"].append("order %d: after an accepted step D[%d] is %s, not nabla^%d y_(n+1) (difference %s)" % (k, j, repr(newd[j][0])[:90], j, repr(newd[j][0] - want[j])[:90]))
                break
    texts = {"R-BDF-PREDICT": "orders 1..%d: sum_{j<=k} D_j == p(x + h) for every polynomial p of degree <= k",
             "R-BDF-CORRECT": "orders 1..%d: the Newton residual vanishes at a polynomial solution of degree <= k (the corrector has order k)",
             "R-BDF-UPDATE": "orders 1..%d: after acceptance D_j == nabla^j y_(n+1) for j = 0..k+2, identically in the past values",
             "R-BDF-COEFF": "orders 1..%d: gamma_k is the k-th harmonic number and alpha_k + error_const_k == gamma_k + 1/(k+1)"}
    for rule in ("R-BDF-PREDICT", "R-BDF-CORRECT", "R-BDF-UPDATE", "R-BDF-COEFF"):
        key = "%s:%s" % (rule, SOLVE)
        if probs[rule]:
            rep.violation(rule, key, probs[rule][0], r.main.get("sp"))
        elif done[rule] < mo or notes[rule]:
            rep.inconc(rule, key, "decided for %d of %d orders (%s)" % (done[rule], mo, (notes[rule] or ["?"])[0]))
        else:
            rep.ok(rule, key, texts[rule] % mo)


INTERP = "methods::bdf::BDF::interpolate"


def r_bdf_interp(rep, f):
    """BDF dense output: with the per-state block that solve() stores after an accepted step, interpolate() is the Newton
    backward interpolation polynomial of the difference table: it passes through the last k+1 solution values,
    u(x_new - m*h) = y_(n+1-m) = sum_j (-1)^j C(m,j) D_j for m = 0..k (m = 0, 1 are the end-point identities u(x) = y_new,
    u(xold) = y_old). Identities in the table entries, xold and h, for every order."""
    key = "R-BDF-INTERP:%s" % INTERP
    r = find_roles(f)
    if r is None or INTERP not in f.bodies:
        rep.inconc("R-BDF-INTERP", key, "BDF::solve / BDF::interpolate not identified")
        return
    rep.fn(INTERP)
    cx0 = Cx(f)
    mo = max_order_of(f, cx0) or 5
    rows = mo + 3
    top = r.top
    i_acc = next((i for i, e in enumerate(top) if e.get("k") == "AssignOp" and tast.is_field_write(e, "Steps::accepted")), None)
    i_cb = next((i for i, e in enumerate(top) if i_acc is not None and i > i_acc and tast.contains(e, lambda z: z.get("k") == "MethodCall" and z.get("def") == SOLOUT)), None)
    if i_acc is None or i_cb is None:
        rep.inconc("R-BDF-INTERP", key, "acceptance region of BDF::solve not identified")
        return
    # the buffer handed to the step interpolant
    cont_id = None
    for c_ in tast.find(top[i_cb], lambda z: z.get("k") == "Call" and (z.get("def") or "").endswith("StepInterpolant::new") or
                        (z.get("k") == "Call" and "StepInterpolant" in (z.get("def") or "") and z.get("args"))):
        a0 = c_["args"][0]
        while a0 is not None and a0.get("k") in ("AddrOf", "DropTemps", "Unary"):
            a0 = a0.get("e")
        if a0 is not None and a0.get("k") == "Path" and a0.get("res") == "local":
            cont_id = a0["id"]
    if cont_id is None:
        rep.inconc("R-BDF-INTERP", key, "the buffer handed to StepInterpolant::new was not found")
        return
    region = [e for e in top[i_acc + 1:i_cb] if cont_id in CX.written_locals(e)]
    if region:
        # plain definitions between acceptance and the callback that the writers may use (`let order_marker = order as Float;`)
        first = next(i for i, e in enumerate(top) if e is region[0])
        region = [e for e in top[i_acc + 1:i_cb] if e in region or (e.get("k") == "Let" and not tast.contains(e, lambda z: z.get("k") in ("Call", "MethodCall") and (z.get("def") or "") in f.bodies))]
    if not region:
        rep.inconc("R-BDF-INTERP", key, "no statement fills the dense-output block after acceptance")
        return
    block = None
    bad = []
    xold, h, t = Poly.atom("xold"), Poly.atom("h"), Poly.atom("t")
    for k in range(1, mo + 1):
        c = Cx(f)
        env = base_env(r, k, rows)
        dn = r.locals[r.d][0]
        # size of the block: evaluated from the allocation `vec![0.0; n * BLOCK]` before the loop, with n = 1
        size = None
        for l in tast.find(r.body["body"], lambda z: z.get("k") == "Let" and any(pb["id"] == cont_id for pb in tast.find(z["pat"], lambda q: q.get("k") == "PBind")) and z.get("init") is not None):
            try:
                v = c.ev(l["init"], dict(env))
                if isinstance(v, list):
                    size = len(v)
            except CxUnknown:
                pass
        if size is None:
            rep.inconc("R-BDF-INTERP", key, "size of the dense-output block not evaluated")
            return
        block = size
        env[cont_id] = [Poly() for _ in range(size)]
        sk = run_best_effort(c, region, env)
        if sk:
            rep.inconc("R-BDF-INTERP", key, "order %d: writer of the dense block not evaluated (%s)" % (k, sk[0][1]))
            return
        cont = env[cont_id]
        yi = [Poly()]
        try:
            Cx(f).call_fn(INTERP, [t, yi, list(cont), xold, h])
        except CxUnknown as ex:
            rep.inconc("R-BDF-INTERP", key, "order %d: interpolate not evaluated (%s)" % (k, ex))
            return
        u = yi[0]
        D = [Poly.atom("%s_%d" % (dn, j)) for j in range(rows)]
        for m in range(0, k + 1):
            um = u.subst({"t": xold + h - Poly.const(m) * h})
            want = Poly()
            for j in range(m + 1):
                want = want + Poly.const(Fraction((-1) ** j * comb(m, j))) * D[j]
            if um != want:
                what = "u(x) = y_new" if m == 0 else "u(xold) = y_old" if m == 1 else "u(x - %d h) = y_(n+1-%d)" % (m, m)
                bad.append("order %d: the interpolant at x - %d*h is %s, not %s (%s fails)" % (k, m, repr(um)[:100], repr(want)[:80], what))
                break
        if bad:
            break
    if bad:
        rep.violation("R-BDF-INTERP", key, bad[0], f.bodies[INTERP].get("sp"))
    else:
        rep.ok("R-BDF-INTERP", key, "orders 1..%d: solve() stores a %d-slot block per state and interpolate() passes through the last k+1 solution values (in particular u(xold) = y_old, u(x) = y_new)" % (mo, block))


def r_bdf_restart(rep, f, arms, rule="R-MODIFIED-REEVAL"):
    """After a callback answered ModifiedSolution the multistep history is worthless: the arm must restart it as a first-order
    method from the state the callback wrote.  The arm is *evaluated* exactly (helpers of any shape included) from an
    arbitrary difference table, with y, the step magnitude, the direction and the freshly evaluated f(x, y) as symbols:
    afterwards row 0 is y, row 1 is h*direction*f(x, y) with every factor exactly once, every higher row is 0, the order is 1.
    Returns the list of arm indices it decided (the shape-based rule handles the others)."""
    r = find_roles(f)
    decided = []
    if r is None:
        return decided
    mo = max_order_of(f, Cx(f)) or 5
    rows = mo + 3
    for j, a in enumerate(arms):
        key = "%s:%s:history-restart:%s" % (rule, SOLVE, "initial" if j == 0 else "per-step")
        rec = {}

        def extern(c, node, d, env, rec=rec):
            if d == ODE and len(node.get("args", [])) == 3:
                out = CX.deref(c.ev(node["args"][2], env))
                yv = CX.deref(c.ev(node["args"][1], env))
                rec["ode_y"] = list(yv) if isinstance(yv, list) else yv
                if isinstance(out, list):
                    out[0] = Poly.atom("F")
                    rec["slot"] = id(out)
                return None
            return NotImplemented
        c = Cx(f, extern=extern)
        env = base_env(r, 3, rows)
        body = a["body"]
        stmts = [unwrap(s_) for s_ in body.get("stmts", [])] + ([body["tail"]] if body.get("tail") is not None else []) if body.get("k") == "Block" else [body]
        run_best_effort(c, stmts, env)
        d = env.get(r.d)
        order = env.get(r.order)
        if d is POISON or not isinstance(d, list) or "ode_y" not in rec:
            continue      # not evaluated: left to the shape-based rule
        ys = [lid_ for lid_, (nm, ty) in r.locals.items() if nm == "y" and "Vec<f64>" in ty]
        yv = env.get(ys[0]) if ys else None
        probs = []
        if order != 1:
            probs.append("the order is %r afterwards, not 1" % (order,))
        if not (isinstance(d[0], list) and isinstance(yv, list) and d[0] and d[0][0] == yv[0]):
            probs.append("difference row 0 is %r, not the state the callback wrote" % (d[0][0] if isinstance(d[0], list) and d[0] else d[0],))
        if rec.get("ode_y") is not None and isinstance(yv, list) and isinstance(rec["ode_y"], list) and rec["ode_y"] and rec["ode_y"][0] != yv[0]:
            probs.append("the derivative is re-evaluated at %r, not at the modified state" % (rec["ode_y"][0],))
        d1 = d[1][0] if isinstance(d[1], list) and d[1] else None
        dir_atoms = [lid_ for lid_, (nm, ty) in r.locals.items() if nm == "direction" and ty == "f64"]
        dirv = env.get(dir_atoms[0]) if dir_atoms else None
        ok1 = False
        if isinstance(d1, Poly) and len(d1.t) == 1:
            (mono, coef), = d1.t.items()
            names = dict(mono)
            has_f = names.get("F") == 1
            da = dirv.single_atom() if isinstance(dirv, Poly) else None
            has_dir = da is not None and names.get(da) == 1
            others = [(n_, e_) for n_, e_ in mono if n_ not in ("F", da)]
            ok1 = has_f and has_dir and coef == 1 and len(others) == 1 and others[0][1] == 1
            if has_f and not has_dir:
                probs.append("difference row 1 is %r: the step is used without the direction of integration (or with it twice)" % (d1,))
            elif not ok1:
                probs.append("difference row 1 is %r, not h * direction * f(x, y)" % (d1,))
        else:
            probs.append("difference row 1 is %r, not h * direction * f(x, y)" % (d1,))
        for kk in range(2, len(d)):
            v = d[kk][0] if isinstance(d[kk], list) and d[kk] else d[kk]
            if not (isinstance(v, Poly) and v.is_zero()):
                probs.append("difference row %d keeps %r from the discarded history" % (kk, v))
                break
        decided.append(j)
        if probs:
            dirp = [p_ for p_ in probs if "direction" in p_]
            rep.violation(rule, key + (":direction" if dirp and len(probs) == len(dirp) else ""), "; ".join(probs) + ": after ModifiedSolution the solver continues with a history that does not belong to the new state", a.get("sp"))
        else:
            rep.ok(rule, key, "evaluated exactly: row 0 = y, row 1 = %r, rows 2.. = 0, order = 1" % (d1,))
            rep.ok(rule, key + ":direction", "the first difference carries the direction of integration exactly once")
    return decided
